#!/bin/bash
# seedtest.sh <name> [srcdir]  -- confirm a sub-agent's seeded defect and run our checks against it.
# <name> = <property>_<n> (or just <property>); deliverables (patch.diff, zz_seeded_demo_test.go, notes.md) are taken
# from srcdir (default /tmp/wt-out/<name>) unless /verif/seeded/<name>/patch.diff already exists.
# 1. copy deliverables to /verif/seeded/<name>/  2. confirm in a scratch worktree (removed afterwards): applies,
# builds, existing suite passes, demo passes without the change and fails with it  3. apply to /repo, run
# ./check <property>, undo  4. write meta.json
name=$1; pid=${name%%_*}; src=${2:-/tmp/wt-out/$name}
. /verif/env.sh
# (works on a scratch worktree of /repo's HEAD: uncommitted contract edits in /repo are NOT seen)
out=/verif/seeded/$name; mkdir -p $out
if [ -f $src/patch.diff ]; then
  cp $src/patch.diff $out/patch.diff
  cp $src/zz_seeded_demo_test.go $out/zz_seeded_demo_test.go
  cp $src/notes.md $out/notes.md 2>/dev/null
fi
sv=/tmp/sv-$name; git -C /repo worktree remove --force $sv 2>/dev/null; git -C /repo worktree add -q --detach $sv HEAD
res() { echo "$1" | tee -a $out/confirm.log; }
: > $out/confirm.log
cd $sv
# module / package the patch touches
first=$(grep -m1 '^+++ b/' $out/patch.diff | sed 's|^+++ b/||')
case "$first" in
  vgirpc/s3/*) moddir=vgirpc/s3; pkg=.; demodir=vgirpc/s3;;
  vgirpc/gcs/*) moddir=vgirpc/gcs; pkg=.; demodir=vgirpc/gcs;;
  vgirpc/otel/*) moddir=vgirpc/otel; pkg=.; demodir=vgirpc/otel;;
  *) moddir=.; pkg=./vgirpc; demodir=vgirpc;;
esac
moddir=${SEED_MODDIR:-$moddir}; pkg=${SEED_PKG:-$pkg}; demodir=${SEED_DEMODIR:-$demodir}
if ! git apply --check $out/patch.diff 2>/dev/null; then res "patch: DOES NOT APPLY to current /repo HEAD"; cd /verif; git -C /repo worktree remove --force $sv; exit 3; fi
cp $out/zz_seeded_demo_test.go $demodir/
cd $moddir
d0=$(go test -vet=off -count=1 -timeout 600s -run '^TestSeededDemo' $pkg 2>&1 | tail -3); echo "$d0" | grep -q "^ok" && res "demo without change: PASS" || res "demo without change: FAIL ($d0)"
(cd $sv && git apply $out/patch.diff)
go build ./... 2>&1 | tail -3 && res "build with change: ok"
s1=$(go test -vet=off -count=1 -timeout 1200s -skip TestSeededDemo ./... 2>&1 | grep -v "no test files" | tail -4); echo "$s1" | grep -q "FAIL" && res "existing suite with change: FAIL ($s1)" || res "existing suite with change: PASS"
d1=$(go test -vet=off -count=1 -timeout 600s -run '^TestSeededDemo' $pkg 2>&1 | tail -15); echo "$d1" | grep -q "FAIL" && res "demo with change: FAIL (as required)" || res "demo with change: PASS (not a valid seed)"
echo "$d1" > $out/demo_output_with_change.txt
# our check, against the scratch worktree with the change applied (VERIF_REPO), so /repo is not touched
cd $sv; rm -f $demodir/zz_seeded_demo_test.go
cd /verif
chk=$(VERIF_REPO=$sv VERIF_WORK=/verif/work/seed-$name VERIF_NO_EVIDENCE=1 ./check $pid --tier quick 2>&1); rc=$?
git -C /repo worktree remove --force $sv; rm -rf $sv /verif/work/seed-$name
echo "$chk" | grep -E "VIOLATION|UNDECIDED|failed obligation|^property" | cut -c1-260 | tee $out/check_output.txt
res "check exit code: $rc"
python3 - "$name" "$pid" "$out" "$rc" <<'PY'
import sys, json, os, re
name, pid, out, rc = sys.argv[1:5]
mp = os.path.join(out, "meta.json")
meta = json.load(open(mp)) if os.path.exists(mp) else {}
notes = open(os.path.join(out, "notes.md")).read() if os.path.exists(os.path.join(out, "notes.md")) else ""
meta.setdefault("property", pid)
meta.setdefault("breaks", "property " + pid)
meta.setdefault("author", "independent sub-agent given only the property text and a scratch worktree (contract files removed)")
if "needs_to_manifest" not in meta:
    m = re.search(r"(?is)##?\s*what it needs to manifest\s*\n(.*?)(\n##|\Z)", notes) or re.search(r"(?is)needs? .*?to manifest[^\n]*\n(.*?)(\n##|\Z)", notes)
    meta["needs_to_manifest"] = (m.group(1).strip()[:900] if m else "see notes.md")
meta["confirmed"] = [l.strip() for l in open(os.path.join(out, "confirm.log")) if l.strip()]
meta["ran"] = ["git apply patch.diff in a scratch worktree of /repo HEAD", "go build ./...", "go test -vet=off -count=1 -skip TestSeededDemo ./... (existing suite, module of the change)",
               "go test -run '^TestSeededDemo' with and without the change", "./check %s --tier quick against the worktree with the change applied (VERIF_REPO); the same patch is applied to /repo itself by seedall.sh" % pid]
co = open(os.path.join(out, "check_output.txt")).read()
meta["caught_by_obligations"] = re.findall(r"failed obligation: (\S+)", co)
meta["check_exit_code"] = int(rc)
json.dump(meta, open(mp, "w"), indent=1)
PY
