#!/bin/bash
# seedtest.sh <property> [src-worktree]  -- confirm a sub-agent's seeded defect and run our checks against it
# 1. copy deliverables to /verif/seeded/<id>/  2. confirm in a scratch worktree: applies, builds, existing suite
# passes, demo fails with the change and passes without  3. apply to /repo, run ./check <id>, undo.
pid=$1; src=${2:-/tmp/wt-$pid}; name=${3:-$pid}
. /verif/env.sh
if [ -n "$(git -C /repo status --porcelain)" ]; then echo "refusing: /repo has uncommitted changes (commit them first)"; exit 9; fi
out=/verif/seeded/$name; mkdir -p $out
cp $src/_seeded/patch.diff $out/patch.diff
cp $src/_seeded/zz_seeded_demo_test.go $out/zz_seeded_demo_test.go 2>/dev/null || cp $src/vgirpc/zz_seeded_demo_test.go $out/
cp $src/_seeded/notes.md $out/notes.md 2>/dev/null
sv=/tmp/sv-$name; git -C /repo worktree remove --force $sv 2>/dev/null; git -C /repo worktree add -q --detach $sv HEAD
res() { echo "$1" | tee -a $out/confirm.log; }
: > $out/confirm.log
cd $sv
moddir=${SEED_MODDIR:-.}; pkg=${SEED_PKG:-./vgirpc}; demodir=${SEED_DEMODIR:-vgirpc}
if ! git apply --check $out/patch.diff 2>/dev/null; then res "patch: DOES NOT APPLY to current /repo HEAD"; git -C /repo worktree remove --force $sv; exit 3; fi
cp $out/zz_seeded_demo_test.go $demodir/
cd $moddir
d0=$(go test -vet=off -count=1 -timeout 600s -run '^TestSeededDemo$' $pkg 2>&1 | tail -3); echo "$d0" | grep -q "^ok" && res "demo without change: PASS" || res "demo without change: FAIL ($d0)"
(cd $sv && git apply $out/patch.diff)
go build ./... 2>&1 | tail -3 && res "build with change: ok"
s1=$(go test -vet=off -count=1 -timeout 900s -skip TestSeededDemo $pkg 2>&1 | tail -2); echo "$s1" | grep -q "^ok" && res "existing suite with change: PASS" || res "existing suite with change: FAIL ($s1)"
d1=$(go test -vet=off -count=1 -timeout 600s -run '^TestSeededDemo$' $pkg 2>&1 | tail -15); echo "$d1" | grep -q "FAIL" && res "demo with change: FAIL (as required)" || res "demo with change: PASS (not a valid seed)"
echo "$d1" > $out/demo_output_with_change.txt
cd /verif; git -C /repo worktree remove --force $sv
# our check
git -C /repo apply $out/patch.diff
chk=$(./check $pid --tier quick 2>&1); rc=$?
git -C /repo checkout -- . 
echo "$chk" | grep -E "VIOLATION|UNDECIDED|failed obligation|^property" | cut -c1-260 | tee $out/check_output.txt
res "check exit code: $rc"
