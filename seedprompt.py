import sys
n=sys.argv[1]; pid=n.split('_')[0]
prop=open('/tmp/wt-out/prop_%s.txt'%pid).read()
print(f"""You are helping test a verification effort by playing the role of a developer who introduces a subtle regression. You work ONLY inside the scratch git worktree /tmp/wt/{n} (a checkout of the Go project Query-farm/vgi-rpc-go, an Arrow-IPC RPC framework). Do not read or write anything under /repo or /verif, and do not touch any other /tmp/wt/* directory. Write your deliverables to /tmp/wt-out/{n}/.

Toolchain: every shell command must start with
  export GOFLAGS=-mod=mod GOPROXY=off GOSUMDB=off GOTOOLCHAIN=local PATH=/opt/veriftools/go1.26.8/bin:$PATH
(the default `go` is too old; there is no network). The main module is at the worktree root (package ./vgirpc); vgirpc/s3, vgirpc/gcs, vgirpc/otel, vgirpc/jwtauth, vgirpc/sentry are separate modules with their own go.mod.

The property (a statement about the library that should hold for every input, schedule and history):

{prop}

Task: produce ONE small, realistic change to the library's non-test source (the kind of edit a developer could plausibly make in a refactor, optimisation or 'cleanup' — not an obviously malicious one and not a comment/test change) that BREAKS this property, while
  (a) the code still compiles (`go build ./...` in every module you touch),
  (b) the existing test suite still passes unedited: in the worktree root run `go test -vet=off -count=1 -timeout 20m ./...` (and the same inside any sub-module you touch),
  (c) the breakage needs something specific to manifest — a particular input shape or extreme value, a multi-step sequence of operations, a fault at a particular point, or two sites that each look fine alone — not something ordinary use would expose at once.
Also write a demonstration: one new Go test file (name it zz_seeded_demo_test.go, in the package directory of the code you changed, test name starting with TestSeededDemo) that FAILS with your change and PASSES on the unchanged code. Confirm both yourself: run the demo on the unchanged tree first (write the demo before making the change, or undo/redo your change with `git diff > /tmp/wt-out/{n}/my.diff; git apply -R /tmp/wt-out/{n}/my.diff; ...; git apply /tmp/wt-out/{n}/my.diff`), then with the change. NEVER use `git stash`: the stash is shared between all worktrees of this repository and other people are working in sibling worktrees. Before producing patch.diff, check `git status` for files you did not touch.

Deliverables in /tmp/wt-out/{n}/:
  - patch.diff : `git diff` of the source change only (NOT including the demo test), relative to the worktree HEAD, applicable with `git apply` at the repository root;
  - zz_seeded_demo_test.go : the demo test, plus a one-line note at its top saying which directory it belongs in;
  - notes.md : what you changed, why it breaks the property, exactly what is needed for it to manifest, the commands you ran and their results (build, full suite with change, demo without change = pass, demo with change = fail).
Leave the worktree with the change applied and the demo test present. Keep the change minimal (a few lines). If your first idea turns out to be caught by an existing test, pick another. Finish with a 5-line summary.""")
