#!/bin/bash
# Runs the repository's pinned test suite with the `verif` build tag OFF, for every module.
. "$(dirname "$0")/env.sh"
rc=0
for gm in $(find /repo -name go.mod | sort); do
  d=$(dirname "$gm")
  (cd "$d" && go test -json -vet=off -count=1 -timeout 25m ./...) || rc=1
done
exit $rc
