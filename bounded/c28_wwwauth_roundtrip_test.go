package vgirpc

// BOUNDED stand-in for property C28 (not a proof): exhaustive run of the REAL buildWWWAuthenticate
// and Parse* functions over every metadata value with each optional id/secret in
// {"", all strings of length 1..2 over {a, _, -}} (13 values each, 13^4 combinations), the flag in
// {false,true}, and the metadata URL in a fixed adversarial set; 13^4 * 2 * 10 = 571,220 cases.
// Judged by the contract: every Parse* returns exactly the field buildWWWAuthenticate was given.

import (
	"fmt"
	"os"
	"testing"
)

func TestVerifBounded(t *testing.T) {
	alpha := []string{"a", "_", "-"}
	vals := []string{""}
	for _, a := range alpha {
		vals = append(vals, a)
		for _, b := range alpha {
			vals = append(vals, a+b)
		}
	}
	urls := []string{
		"https://rs.example/.well-known/oauth-protected-resource",
		"https://rs.example/r?client_id=",
		"https://rs.example/client_secret=/device_code_client_id=",
		"https://rs.example/r?device_code_client_secret=x&use_id_token_as_bearer=",
		"https://rs.example/a_client_id=b",
		// (added with the second repair: name= tails that fuse with the closing quote)
		"https://rs.example/vgi,client_id=",
		"https://rs.example/vgi?a=1,device_code_client_secret=",
		"https://rs.example/vgi?q=1 device_code_client_id=",
		"https://rs.example/vgi,use_id_token_as_bearer=",
		"https://rs.example/vgi, client_secret=",
	}
	cases, bad := 0, 0
	var first string
	for _, u := range urls {
		for _, flag := range []bool{false, true} {
			for _, cid := range vals {
				for _, cs := range vals {
					for _, did := range vals {
						for _, ds := range vals {
							cases++
							m := &OAuthResourceMetadata{ClientID: cid, ClientSecret: cs, DeviceCodeClientID: did, DeviceCodeClientSecret: ds, UseIDTokenAsBearer: flag}
							h := buildWWWAuthenticate(u, m)
							ok := ParseResourceMetadataURL(h) == u && ParseClientID(h) == cid && ParseClientSecret(h) == cs &&
								ParseDeviceCodeClientID(h) == did && ParseDeviceCodeClientSecret(h) == ds && ParseUseIDTokenAsBearer(h) == flag
							if !ok {
								bad++
								if first == "" {
									first = fmt.Sprintf("header %q: parsed (url=%q client_id=%q client_secret=%q device_id=%q device_secret=%q flag=%v), built from (url=%q client_id=%q client_secret=%q device_id=%q device_secret=%q flag=%v)",
										h, ParseResourceMetadataURL(h), ParseClientID(h), ParseClientSecret(h), ParseDeviceCodeClientID(h), ParseDeviceCodeClientSecret(h), ParseUseIDTokenAsBearer(h), u, cid, cs, did, ds, flag)
								}
							}
						}
					}
				}
			}
		}
	}
	if f := os.Getenv("VERIF_BOUNDED_OUT"); f != "" {
		os.WriteFile(f, []byte(fmt.Sprintf(`{"cases": %d, "failing": %d}`, cases, bad)), 0o644)
	}
	if bad > 0 {
		t.Fatalf("%d of %d cases do not round-trip; first: %s", bad, cases, first)
	}
}
