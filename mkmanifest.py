#!/usr/bin/env python3
"""Generates MANIFEST.json and props.json from the table below (kept in one place so the
claimed / not-applicable split, level notes and residuals cannot drift apart)."""
import json, subprocess, os

ROOT = {"dir": "/repo", "pattern": "./vgirpc"}

# property id -> dict(text, note, technique, residual[], assumed[], pkgs[])
CLAIMED = {
    "C34": dict(
        text="Proof, for all inputs and table sizes, of function contracts on the real allocator code "
             "(numAllocs, readAllocs, writeAllocs, allocateLocked, canFitLocked, freeAtLocked, and the public FreeOffset end to end): the allocation "
             "table stays in bounds, sorted and pairwise disjoint under every operation, allocation is first-fit, "
             "fails only when no gap fits and then changes nothing, free removes exactly the named entry; frames "
             "prove nothing outside the header entries is written.",
        note="Trusted: govc's SSA->SMT translation, go/ssa, the SMT solvers, the byte-level definitions of "
             "encoding/binary little-endian accessors (trusted/stdlib.spec), len(s.data)==s.size (established by mmap "
             "in ShmCreate/ShmAttach, outside the subset), mutex atomicity for concurrent use. The table invariant is ASSUMED at the entry "
             "of the boundary operations (FreeOffset, allocateLocked, canFitLocked): AllocateAndWrite / allocateAndWriteSerialized run "
             "arrow-go's IPC encoder and a caller-supplied callback before the locked helpers and carry no frame contract, so they and "
             "FreeOffset's callers are listed in the evidence as unchecked callers. Partial correctness.",
        technique="contract-based deductive verification: weakest-precondition VCs over go/ssa, discharged by z3/cvc5",
        residual=["cross-process visibility of the mapping", "initializeHeader/validateHeader/Reset and the arrow-facing part of AllocateAndWrite/allocateAndWriteSerialized (unchecked callers of the boundary helpers)"],
        assumed=["encoding/binary little-endian byte semantics", "len(s.data) == s.size (mmap)"],
    ),
}


TECH = "contract-based deductive verification: weakest-precondition VCs over go/ssa of the working tree, discharged by z3/cvc5"
BASE = ("Trusted: govc's SSA->SMT translation, go/types+go/ssa, the SMT solvers, the assumed contracts of external functions named in the "
        "evidence (trusted/*.spec), Go memory safety, mutex atomicity. Partial correctness (no termination claim unless a decreases obligation is listed). ")

def claim(pid, text, note="", residual=(), assumed=(), pkgs=None, bounded=None, category="proof", level=None, explanation=None, technique=None):
    d = dict(text=text, note=BASE + note, technique=technique or TECH, residual=list(residual), assumed=list(assumed), category=category)
    if pkgs:
        d["pkgs"] = pkgs
    if bounded:
        d["bounded"] = bounded
    if level:
        d["level"] = level
    if explanation:
        d["explanation"] = explanation
    CLAIMED[pid] = d

claim("C05", "Proof of buildErrorExtra's type-selection contract for every dynamic error type: RpcError -> its Type, each typed framework error -> its wire name (each ErrorType method has its own proved contract), every other error value (foreign dynamic types included) -> RuntimeError; traceback and frames absent unless debug; proof that each of the seven recovering literals around handler / Produce / Exchange calls (pipe and HTTP, unary, stream init, producer turn, exchange turn) turns a panic with any value into an error that is named RuntimeError; proof that writeErrorBatch hands the same error and debug flag to buildErrorExtra, carries its result under log_extra, and appends error_kind exactly when the error advertises a non-empty kind — with the kind of every implementation of errorKindCarrier in the package checked against the interface contract (refinement obligations <impl>/post#iface_...).",
      "json.Marshal renders the struct it is given (assumed). Implementations of errorKindCarrier outside the package are not checked.", ["message text rendering (err.Error()) and JSON rendering", "that every dispatcher reports the recovered error through writeErrorBatch (C04/C16/C37 cover the unary, exchange and hook paths)"])
claim("C08", "Proof, for all int64/time.Time inputs, of the scalar time codecs against a mathematical time model (nsOf): daysSinceEpoch is the floor UTC day for every representable date32, microsSinceMidnight is the exact microsecond of day, timestampToTime is the exact instant for every unit and every int64, plus round-trip lemmas at wire precision.",
      "time package model of trusted/stdlib.spec (Unix, UTC, Add exact, Sub saturating, Clock on UTC).", ["the reflect-driven struct walk, lists/maps/structs/decimals/enums/strings", "Arrow builders storing what they are given", "duration decode arm inside setFieldFromArrow (reflect function)"])
claim("C10", "Proof that parseSemver yields the numeric major/minor of a canonical version (refusing parts that do not fit an int) and that checkProtocolVersion returns nil iff the version is present, canonical and numerically equal in major.minor to the server's; the directional message; panic-freedom of parseSemver; the regex lemma pinning semverRegex to the reference language; and, over every path of the three dispatching functions (serveOne on the pipe, handleUnary and handleStreamInit on HTTP), that the dispatch / parameter binding is reached only after Server.protocolVersionSet was read and, when it was set, checkProtocolVersion admitted the request's own declared version (value and presence of the metadata key); that a refusal answers with the gate's error (HTTP 400); that the __describe__ short-circuits (pipe and HTTP) run before the gate.",
      "semverRegex facts and strconv.Atoi incl. its clamped range-error result are assumed contracts. The flag Server.protocolVersionSet is the value the function itself read (at-load path flag); a concurrent SetProtocolVersion is outside.", ["message text parity with Python beyond the directional sentence", "the error_kind key on the wire (C05's buildErrorExtra contract)"])
claim("C15", "Proof that checkTokenAge refuses exactly tokens older than the TTL, and call-site obligations that every call-cache insertion (mint path and cache-miss path) is stamped with the authenticated token's own creation time, only after age and call-id checks, and that the cache computes expiry as createdAt+ttl; proof of the call cache itself (newCallStateCache, get, put): the map/list representation invariant (every map value is a list element holding an entry whose key is its map key, and conversely; object invariant over fields encapsulated in the three functions, checked package-wide) is established and kept, through in-place update, insertion and the eviction loop; neither dynamic-type assertion on a list element can panic; the key is the call id joined with the rendered identity in get and put alike; a hit returns the call stored under exactly that key and only while the entry's expiry has not passed at the clock reading get took; put leaves the given call and expiry under the key; a disabled cache (nil, max <= 0) never hits.",
      "time.Since / time.Now modelled as one clock reading per call; container/list contracts over its own len/list fields (trusted/containers.spec); sync.Mutex critical sections atomic.", ["which entry the eviction loop removes (container/list is modelled without order: Back returns some element), so 'least recently used' is not claimed", "cross-instance interleavings (each instance's cache is proved on its own; a miss falls back to the token, C12)"])
claim("C18", "Proof of readHTTPBody's cap selection, exact saturating cap arithmetic (no int64 wraparound), read-at-most-cap+1, refusal type of oversize bodies, identity passthrough, the decoded-cap formula; decompressBounded's output bound and unknown-coding error type; DecodeContentEncoding index safety and termination; writeBodyReadError's 413/415/400 mapping; data flow: the decoder that is read to the end was built over the whole raw body and is never switched out of whole-input mode, and what is returned is what that read produced.",
      "io.LimitReader/io.ReadAll contracts assumed; zstd/gzip decoders are unknown calls.", ["decoded bytes equal what the client encoded (codec correctness)", "streaming-frame window behaviour"])
claim("C19", "Proof of enforceResponseBudgets' decision table and error kinds (and that it changes nothing), and of checkExternalBudget's pre-flight refusal condition and disabled cases; proof, over every path of the unary and the exchange dispatcher (handleUnary, handleExchangeCall), that the bytes measured against max_response_bytes are the length of the very buffer that is then sent, that both configured caps are the ones handed to the check, that a body goes out with status 200 only when the check passed (so with a wire cap set the body sent is at most the cap), that an overshoot is answered through the cap-error writer with the check's own error, and that the unary pre-flight refuses exactly a predicted upload above the external cap; the producer loop's soft wire cap is stated as a loop invariant whose step obligation fails (recorded finding).",
      "bytes.Buffer Len/Bytes are assumed contracts over the buffer's own fields (trusted/stdlib.spec); every writer into the buffer is an unknown call that havocs them.", ["the producer loop's wire-byte cap (runProduceLoop never consults max_response_bytes: reproduced defect, recorded finding)", "that the cap-error replacement body is itself below the cap", "the external byte accounting inside externalizeStreamDataBatch / externalizeBatchCtx beyond their inline case (C30)"])
claim("C22", "Proof, over every control-flow path of handleUnary, handleStreamInit, handleStreamExchange, handleUploadURLInit and handleIntrospectToken, that every call they make (body read, method lookup, handler, provider, resolver, hook, state method) is reached only after authenticate returned non-nil for this request; handleDescribe requires the same of its caller.",
      "admitted(r) is a ghost predicate whose only source is authenticate's result (establishes clause).", ["the route table itself (that no other registered route reaches sensitive code) is checked by reading initRoutes, not yet by an obligation", "session-delete and page routes are outside by the property's own allow-list"])
claim("C25", "Proof that VerifyProof computes and compares the MAC and records the nonce only inside the two-sided timestamp window, over exactly this proof's fields and this worker's origin, after the MAC matched; that the nonce cache TTL covers the whole acceptance window (lemma nonceWindowCovered + call-site obligation); that in require mode the inner authenticator is reachable only after a verified proof; proof of the replay cache itself (checkAndAdd): a remembered nonce whose entry has not expired is refused, entries leave only when expired or when the cache is full, the map/list representation invariant (object invariant over fields encapsulated in newNonceCache/checkAndAdd, checked package-wide) is kept; regex lemmas pin the five field grammars to reference languages.",
      "HMAC/ConstantTimeCompare idealisation; clock readings at or after 1970; container/list contracts over its own len/list fields (trusted/containers.spec); the clock callback does not touch the cache.", ["canonical-string injectivity (proofCanonicalString layout) not yet under contract", "order of eviction (container/list is modelled without order: Front/Back return some element)"])
claim("C27", "Proof that unpackOAuthCookie is panic-free for every cookie string, parses fields only after the MAC verified and keeps every field inside the payload; proof of packOAuthCookie's payload layout; the length-prefix exactness obligations fail for fields >= 64 KiB and are recorded as a known finding; proof that validateOriginalURL returns the prefix, '/' or an at most 2048-byte URL and validateReturnTo '' or the unchanged, at most 2048-byte, http(s) URL that is http-localhost or allow-listed, and that the production caller packs only those validated values (so every field fits its length prefix whenever the server prefix is at most 2048 bytes); proof, over every path of handleOAuthCallback, that the code is exchanged only after the session cookie was opened with this server's key and the fixed max age and the query's state compared equal — whole, byte for byte — to the cookie's state, with the cookie's verifier; that the final Location is either the cookie's return URL followed by the token-carrying fragment or, with no return URL, exactly validateOriginalURL's result for the cookie's original URL under the server prefix, and that no Location is written before cookie and state were accepted.",
      "HMAC/base64 idealisation. That the cookie's return URL was validated when the cookie was packed rests on the MAC (a cookie that opens was packed by pkceRedirectToOAuth, whose arguments are proved validated).", ["round-trip lemma over the two layouts", "the token exchange itself (exchangeCodeForToken, an HTTP client call)", "URL escaping inside the fragment"])

claim("C33", "Proof (data-flow contracts) that the unique part of every S3 and GCS object key is rendered from a fresh random source: s3.generateUUID formats bytes obtained from crypto/rand, S3Storage.Upload and GCSStorage.Upload build the key as prefix + that text (+ extension).",
      "crypto/rand.Read and uuid.New return values that differ from all others (standard idealisation, trusted/storage.spec).", ["that the storage service does not alias distinct keys"],
      pkgs=[{"dir": "/repo/vgirpc/s3", "pattern": "."}, {"dir": "/repo/vgirpc/gcs", "pattern": "."}])

claim("C02", "Proof that ReadRequest returns success or an answerable RpcError only after the request stream was read to its end; proof over every path of serveStream that a stream call answered with an error has first handed the client's input stream to a draining reader (drainInputStream or the lockstep reader), and that both serveStream's tail and drainInputStream read their reader to exhaustion.",
      "ipc.NewReader/Reader.Next ghost contracts (inputTaken, exhausted) are assumed.", ["serveOne/serveUnary request-response counting and ordering", "Unix/TCP listeners", "client cancel timing"])
claim("C03", "Proof that deserializeParams and resolveColumn never index an Arrow column or batch out of range for any client-supplied batch (row 0 is read only after the row count was checked; column indices come from resolveColumn's proved range; the concrete Binary/Int64 Value(0) calls of deserializeParams, extractCount and setFieldFromArrow are inside the array, whose promoted Len() is tied to the column length).",
      "arrow-go observers are functions of immutable objects and element accessors require an in-range index (trusted/arrow.spec); setFieldFromArrow's own body (reflect type switch) is outside: only its precondition is used.", ["panic-freedom of the whole dispatch path (serveOne, HTTP handlers) beyond these functions and handleStreamExchange's guarded state assertions (C14)", "panics inside Arrow/zstd/gob", "every-HTTP-request-gets-a-response as a whole-server statement"])
claim("C14", "Proof that handleStreamExchange hands the authenticated cursor's own state and call id to the continuation kind its route's method declares (producer continuation only under a producer or dynamic route, exchange continuation never under a producer route; methodInfo.Type is declared immutable and that is checked over the package on every run), with no unguarded dynamic-type assertion; the obligations that the token was minted by the same method fail because tokens carry no method, and are recorded as a known finding.",
      "", ["method binding itself (known finding)", "handleStreamInit minting side", "unary routes: the exchange continuation is not excluded under a route registered as unary"])
claim("C28", "BOUNDED stand-in for the round trip (exhaustive run of the real buildWWWAuthenticate/Parse* over 285,610 metadata values: ids/secrets of length <= 2 over {a,_,-}, flag, 5 adversarial URLs) plus a PROOF that parseQuotedParam never slices out of range and that its scan terminates, for all header and parameter strings.",
      "the bounded run is not a proof and is not counted in obligations/discharged.", ["round trip beyond the stated bound"],
      bounded=[{"test": "c28_wwwauth_roundtrip_test.go", "bound": "optional ids/secrets in all strings of length <= 2 over {a,_,-} (13 values each, 13^4), flag in {false,true}, 5 adversarial metadata URLs: 285,610 cases"}],
      category="other", level="other",
      explanation="Functional round trip decided only by a bounded exhaustive run of the real functions (stated bound in bounded_stand_ins); panic-freedom and termination of parseQuotedParam are discharged as proof obligations (obligations/discharged count only those).",
      technique="contract-based deductive verification (panic-freedom, termination) + bounded exhaustive stand-in for the string round trip")

claim("C37", "Proof over every path of handleUnary, handleStreamInit and handleStreamExchange that each error response written after the dispatch hook was started is also recorded in *handlerErr (which the deferred cleanup hands to OnDispatchEnd).",
      "", ["exactly-one-start/one-end counting (startDispatchHook closures, pipe serveOne)", "success responses with non-nil handlerErr", "panics between start and end"])

claim("C17", "Proof of the negotiation walk for all header strings and producible sets: chooseResponseEncoding returns the first candidate (custom-header tokens, then standard-header tokens not already offered) that is identity (-> no encoding) or producible, with used_custom iff the winner was offered on the custom header only; parseAcceptEncoding yields no empty and no duplicate token; containsEncoding is exact membership; gzipLevelFor's range; the advertised set is rendered from the producible set on every level change; finish compresses only a negotiated, non-empty Arrow body and stamps the header the negotiation chose.",
      "strings.Split/TrimSpace/ToLower/IndexByte are unknown functions of their arguments.", ["losslessness of zstd/gzip (codec correctness)", "ServeHTTP's negotiation block"])

claim("C35", "Proof, for every pointer (offset, length) and every metadata string, that no panic escapes ResolveShmBatch (every panicking instruction and the call to ReadBatch, which may panic on a negative or wrapping pointer, sit behind the recovering defer); that on every normal path the region ReadBatch hands to the IPC reader is exactly s.data[offset:offset+length] with 0 <= length and offset+length <= s.size (a wrapped end never survives), on the plain and on the dictionary path, whose synthesized stream is schema prefix + region + end marker; that the offset released is the decimal value of the pointer's offset string; that the rebuilt metadata carries no pointer key and ends with the source key; that the writers (shmSliceWriter, shmCountWriter, both AllocateAndWrite paths) write only inside the slot the allocator returned and report exactly that (offset, length); that the schema-message cache is keyed by the identity of the schema the message was rendered from.",
      "ShmSegment.size/name are declared immutable (checked package-wide); s.size >= 0 is assumed at the entry of ReadBatch/ResolveShmBatch (boundary; the constructors check size > header size). strconv.ParseUint/Atoi and arrow.Metadata observers are assumed contracts.",
      ["read-back equality of schema and values (Arrow IPC encode/decode round trip, dictionary replacement)", "WritePayload writing the same bytes on the counting and on the copying pass"])

claim("C23", "Proof over every path of authenticate that the status is 503 (with Retry-After) exactly when errors.As finds an AuthUnavailableError in the chain, 401 exactly for a rejection (asAuthFailure finds an AuthFailure in the Unwrap chain, or the error is itself a ValueError/PermissionError RpcError), 500 otherwise, and nil is returned whenever an error response was written; of classifyAuthError's reason table; of writeUnauthorized's reason / no-store / WWW-Authenticate headers; and of the chained authenticator: first success returned, the chain repeats only past a DIRECTLY returned ValueError RpcError with no unavailable authority in its chain (back-edge obligation), any other error returned as is, exhausted chain is a ValueError.",
      "unavailableInChain / failureInChain ARE the verdicts of errors.As and asAuthFailure (defining postconditions); asAuthFailure's own walk of the Unwrap chain is verified only for the direct case.",
      ["that asAuthFailure finds an AuthFailure at every depth of the Unwrap chain (interface Unwrap calls are unknown calls)", "Retry-After value rendering", "the closed set of reason codes for AuthFailure values built by callers"])
claim("C26", "Proof over every path of handleIntrospectToken that the resolver is reached only when introspection is enabled, the caller was authenticated and allow-listed (decided before the subject is read), the per-caller limiter admitted the call, and the credential is non-empty, at most 4096 bytes, not JWS-shaped and passed unchanged; that refusals come from a closed set of (status, code) pairs with every 404 after authentication saying 'unresolved' and the body a function of the code alone; of the limiter's representation invariant (per key 1..perWindow admissions per window, object invariant over encapsulated fields) and admission/refusal postconditions; that at most 8 KiB + 1 of body is read; and a regex lemma (SMT theory of regular languages, all strings): the compiled JWS-shape pattern denotes the reference language.",
      "jwsShaped is the language of the reference pattern in the contract; tokenIntrospection's fields are declared immutable (checked package-wide); sync.Mutex atomicity for the limiter.",
      ["the credential never appears in a response or log line (value-flow, not expressible as a first-order fact about strings: a digest or principal may coincide with it)", "json decoding of the body", "window arithmetic across wall-clock jumps"])

claim("C13", "Proof of the byte layout of the AAD every sealed token is bound to (tokenAad: prefix, then 0x00 'anonymous' exactly for a nil or unauthenticated caller, else 0x01, domain, 0x00, principal; for all prefixes and identities), that cursor/sticky and call tokens are sealed under the state resp. call prefix (which differ in their 9th byte), that the call-cache and session-registry identity keys draw the anonymous/authenticated line exactly where the AAD does, and separation lemmas over the layout: an anonymous AAD never equals an authenticated one, and two authenticated AADs with NUL-free domains are equal only for equal domain and principal.",
      "AEAD idealisation (open succeeds only under the AAD it was sealed with) connects AAD separation to token refusal; it is not an obligation here. The lemmas are stated over byte strings of the layout the postcondition proves.",
      ["domains containing a NUL byte (the layout is then not injective: (\"a\\x00b\",\"c\") and (\"a\",\"b\\x00c\") share an AAD; the framework's own authenticators use constant NUL-free domains)", "sticky-session tokens share the cursor prefix and are separated from cursors only by the version byte and the plaintext format", "the open/seal call sites (which AAD is passed where) beyond the two prefix wrappers"])

claim("C04", "Proof (pipe transport) of the log filter (ClientLog appends a message at or above the requested level after everything emitted before, a lower one changes nothing; logLevelPriority's table; drainLogs hands over everything), of the log / exception batch shape (zero rows, level and message keys, request id echoed whenever one was sent), that WriteUnaryResponse writes every log in slice order then the result batch, that WriteVoidResponse answers with an empty-schema batch, and over every path of serveUnary that the logs are collected after the handler returned or panicked, that a failed call answers with those logs then exactly one exception batch and no result, and a successful one with the same logs, the declared result schema and the request id.",
      "the handler runs inside a recovering function literal (serveUnary$1): what it logs before panicking is in callCtx.logs when the literal is left (Go semantics of recover).",
      ["HTTP unary path (handleUnary)", "the decoded result value equals what the handler returned (Arrow serialization, see C08)", "the ghost order of batches on the wire beyond call order in the code"])
claim("C12", "Proof that openToken hands plaintext to decompression and gob decoding only after the AEAD opened the ciphertext, under the key derived from the server's whole token key (normalizeTokenKey: a 32-byte key as is, every other key hashed as a whole, never truncated) and the caller-supplied AAD, with the version byte checked and nonce/ciphertext sliced from the fixed offsets; that every authenticity failure is the one uniform RuntimeError; that the cursor is opened under the cursor version and the presenting identity's AAD, the call token likewise; and over every path of handleStreamExchange that the rehydrate callback, dispatch hook, sticky-session resolution, cancel, producer and exchange continuations are reached only after the cursor was opened AND its call resolved; and the minting side: sealToken seals under the key derived from the server's whole token key and the caller-supplied AAD with a 24-byte nonce crypto/rand filled (a failed read mints nothing), and lays the raw token out as version byte, nonce, ciphertext — the offsets openToken slices at — before encoding it whole.",
      "AEAD idealisation (Open succeeds only for an unaltered ciphertext sealed under the same key, nonce and AAD); SHA-256 collision freedom for keys that are not 32 bytes.",
      ["base64 decoding variants and that StdEncoding round-trips", "gob / zstd payload round trip (packTokenPayload / unpackTokenPayload, codec correctness)", "the sticky-session token path"])
claim("C16", "Proof that stripFrameworkTickMetadata returns no framework key (cursor token, call token, cancel) with keys and values paired (loop invariant over a constant key set that is itself checked: built once by the package initialiser, never updated); that the exchange handler is invoked with exactly this turn's context, input and collector and an InputMetadata that came out of that strip applied to the request's own metadata; that a fresh cursor (minted for this call id, state and identity) is merged into the data batch only, and only on a turn that did not fail; that a cancel turn answers 200 with nothing written to the stream and no cursor, doing nothing but the cancel hook (inside a recover) and the empty response.",
      "", ["exactly-one-data-batch as a count over the output (OutputCollector invariant, C06)", "producer continuation metadata", "the externalized-input path of handleStreamExchange is covered by the replay witnesses only"])
claim("C20", "Proof that resolveRequestID echoes the trimmed caller id exactly when it is non-empty and at most 128 bytes and otherwise returns 16 lower-case hex characters rendered from 8 random bytes; over every path of ServeHTTP that the X-Request-ID header is set before any other call can answer and that, once the serve-start hook and page initialisation have run, the capability headers are set before anything is routed; that addCapabilityHeaders always sets the supported-encodings header (to the rendered producible set) and the externalization header; and that the CORS expose list contains every header the configuration can emit (fixed entries and each conditional one under the condition it is emitted under, including VGI-Auth-Proxy-Required whenever the configuration depends on a proxy).",
      "hex.EncodeToString yields lower-case hex of twice the length (assumed); membership in the expose list is stated over its first 24 entries.",
      ["headers set by route handlers after dispatch", "VGI-Echo-* names", "that every exit path of every route goes through ServeHTTP (net/http)"])
claim("C38", "Proof that isLowerHex is exact, that currentTraceContext returns both ids well formed (32 / 16 lower-case hex) or both empty whatever the provider returns or if it panics (the deferred literal has its own contract), that stream ids are 32 lower-case hex characters, that the default claim redaction leaves nothing under a sensitive key name but the placeholder, keeps other values and invents no key, and that the default policy runs exactly when no redactor is installed; a regex lemma pins the redaction pattern's (case-insensitive, unanchored) language to the reference pattern.",
      "claimSensitive is the language of the reference pattern; map iteration is modelled per iteration (any key), so the redaction statement is a safety statement about what is in the output.",
      ["record assembly in OnDispatchEnd (required fields, types, payload marker)", "byte counts of the egress recorder", "that every claim key is present in the output (map-range completeness)"])
claim("C39", "Proof of the sampler's decision table (rate 1 keeps everything, error records are always kept, a kept non-error record carries the rate, a dropped record is untouched), of its key choice (non-empty stream id, else non-empty request id), that enqueue performs no blocking channel operation, and that it accounts for every record: handed to the writer carrying the number dropped since the last one that got through (counter restarts), or counted as dropped and carrying no count; nothing after close.",
      "sync.Mutex atomicity; the select is modelled as a nondeterministic choice between the ready send and the default.",
      ["that two records with the same key get the same decision (FNV hash determinism is not modelled)", "the writer goroutine and close/drain (goroutines are outside the engine)", "a trailing run of drops"])

claim("C06", "Proof of the output collector's one-data-batch rule (object invariant dataBatchIdx == -1 or a valid index, over fields written only by the collector's own functions — checked package-wide): a second Emit is refused and changes nothing, the first records its index, Finish is refused exactly on an exchange collector, validate fails exactly when no data batch was emitted, ClientLog appends one batch and leaves the data index alone; and over the lockstep loop of serveStream that no turn has failed at the loop head, that every exception batch written is the first one and echoes the request id, and that a stream error returned from the loop was answered with an exception batch.",
      "the emit interceptor callback is assumed not to touch the collector; arrow-go constructors / reference counts do not reach into this package's heap (assumed externs, under which emptyBatch's frame is proved).",
      ["one data batch per input in input order as a statement about the wire (call order in the code only)", "header stream before data", "the cancel hook's at-most-once (single call site in a recovering literal; covered by the replay witnesses)"])

claim("C24", "Proof that the bearer extractor hands the validator exactly what follows 'Bearer ' and only for a header with that prefix; that the static-token validator returns the identity of a configured token equal to the presented one byte for byte (constant-time compare over every entry, first equal entry wins) and refuses with a ValueError when none is equal; and that the XFCC splitter follows the header grammar's scanner for every input — a quote toggles the quoted state, inside quotes a backslash takes the next character with it, nothing else changes the state — and cuts exactly at delimiters met outside quotes (loop invariant against a scanner specified by axioms).",
      "ConstantTimeCompare(a,b)==1 iff equal bytes (assumed); a token configured with a nil identity authenticates nobody.",
      ["the contents of the split parts (strings.Builder)", "URL-decoding of XFCC fields and CN extraction (regexp based)", "BearerAuthenticateStatic's construction of the entry list from the map"])

claim("C07", "Proof over every path of deserializeParams that nothing is bound into the parameter struct — a column value or a declared default — unless (*arrow.Schema).Equal returned true for the batch's own schema and the declared one (the memoized declaration is immutable: checked package-wide), that the value bound comes from the resolved column's row 0 with the field's declared type, that a null with a declared default binds that default; and that the pipe unary dispatcher calls the handler only after binding succeeded.",
      "schemaEq IS the verdict of (*arrow.Schema).Equal (field order, names, types incl. type parameters, nullability: arrow-go's contract, assumed); setFieldFromArrow's reflect-based body is outside the subset.",
      ["each field holds the value sent (setFieldFromArrow / reflect)", "the HTTP dispatchers and stream init call sites", "TypeError wire name of the refusal (C05)"])
claim("C09", "Proof that buildDescribeBatch sorts the method names before rendering anything, that every name contributes exactly one entry to each of the seven parallel hash inputs in the same order (lengths stay in step with the name index), that each row's schema bytes are the serialization of that method's registered parameter / output-or-result / header schema and the same bytes go to the column and to the hash input, that the hash is computed over exactly those snapshots and the protocol name, that the batch has one row per name; and that computeProtocolHash indexes its parallel inputs in range (precondition discharged at the call).",
      "sort.Strings sorts (assumed); serializeSchema / arrow builders are unknown calls.",
      ["the canonical framing bytes of the hash and equality with the reference algorithm (checked by the replay witnesses only)", "independence of registration order (map iteration in availableMethods; the sort makes it so, witnesses only)", "pipe/HTTP parity of the describe response"])

claim("C29", "Proof (sequential semantics, registry mutex assumed atomic) that the session registry hands an entry only to the principal key that opened it and only while unexpired; that an expired or closed entry is removed from the registry before its state's Close runs (so it cannot be found and closed again), a lookup by another principal leaves it alone, a miss closes nothing; that open registers nothing while draining and otherwise registers the entry under the returned id for the opening principal; that shutdown empties the registry before the first Close; that a request resuming a session locks exactly that entry's mutex and records it in its cleanup handle (a field nobody else writes: checked), and ReleaseLock unlocks exactly that mutex, once.",
      "interleavings of concurrent requests respect the registry mutex (assumed); a state's Close is user code: nothing is claimed about the registry after it ran.",
      ["same-session calls never overlap (needs the thread schedule; the lock/unlock pairing is what is proved)", "every handler defers ReleaseLock after install (structure of the call sites, witnesses only)", "token sealing/opening of the session token (C13 AAD)"])

claim("C30", "Proof (data-flow and ordering contracts) that a batch is externalized only when it has rows and reaches the threshold, that the checksum placed on the pointer is the SHA-256 (32 bytes, hex) of the serialized batch before compression, that what is uploaded is that serialization — zstd-encoded as a whole exactly when the coding declared to the storage is 'zstd' — and the charged raw size is its length; on the resolving side that what was fetched is what is check-summed and then parsed, the checksum (whenever the pointer names one) being computed before the parser sees a byte, and that only a batch that is neither a log batch nor another pointer is ever retained as the result.",
      "SHA-256 and the IPC/zstd codecs are unknown functions of their inputs.",
      ["resolved batch equals the original in schema, values and metadata (IPC round trip, codec correctness)", "the comparison of the two checksums itself (the mismatch branch returns before the parser; covered by witnesses only)", "the last-of-several-data-batches choice"])
claim("C31", "Proof that at most three fetch attempts are made whatever is configured (maxRetries in 1..2, loop invariant, call-site bound), that the first fetch is reachable only when the configured validator accepted the pointer's URL (or none is configured), that every fetch gets the same URL, validator and positive caps; that the redirect policy installed for a fetch follows a redirect only within the hop limit (and defers to a previous policy only then); that a fetch reads at most cap+1 bytes and returns at most the fetch cap (or, for a zstd body, the decompression cap) — decompressZstdCapped's bound —; and that redactExternalURL renders a URL without user info, query or fragment.",
      "net/http follows redirects through CheckRedirect (assumed); the validator's verdict is the ghost predicate validatorAccepted.",
      ["error texts never contain the query string (value flow through fmt.Errorf)", "the validator call inside the redirect policy (a call through a captured function value; its refusal path is structural)", "retry delay timing"])

claim("C01", "Proof that both ends of each wire-helper pair use the same keys and fields: WriteRequest stamps method and request version (and the protocol version exactly when one is given) on one batch carrying the parameters' own schema/columns/rows; ReadRequest reads its fields off the first batch's metadata under those keys and answers each refusal with the typed RpcError the protocol names (ProtocolError / VersionError), success only for the supported version; ReadUnaryResult reports a result only for the first batch with rows whose 'result' column is a non-empty binary column (index-safe: the column index comes from the schema's own field indices, row 0 exists), everything else — reader failure, missing or non-binary column, exception batch, log-only stream — is not a result; WriteUnaryResult refuses an envelope that is not one field and otherwise writes one one-row batch with exactly the given bytes; the token / protocol-version finders read the cursor, call and version keys and return the first non-empty value.",
      "arrow-go's IPC writer and reader being inverse is NOT assumed by any obligation: the round trip itself is exercised by the replay witnesses only.",
      ["round trip through arrow-go IPC (witnesses only)", "FindStreamTokens' walk over concatenated streams and its termination", "garbled-bytes robustness of the Arrow reader"])

claim("C21", "Proof that Exchange posts a turn only in the state 'no cursor, finished' (the cursor is cleared before the request goes out), that the only values Exchange ever stores in the cursor are the empty string or the non-empty cursor of a completely parsed response carrying exactly one data batch (and clears the finished flag only then), that Cancel only clears the cursor and only sets the finished flag, that Next stores exactly the parsed response's cursor; the stream's cursor and finished flag are written by the stream's own operations only (checked package-wide); every ambiguous outcome of an exchange turn is returned as an error with no batch; post checks the request cap before sending, reads at most cap+1 encoded bytes, decodes what it read, and turns a non-2xx status into an HTTPStatusError.",
      "no reentrancy from the transport into the stream (the owned-writes check is syntactic).",
      ["exactly the server's batches in order, tokens stripped from metadata, typed exceptions (parseIPCStream / stripClientControlMetadata)", "schema / encoding / trailing-byte rejection inside parseMain", "the decoded cap comparison in post"])

claim("C43", "Proof over every path of the OpenTelemetry hook that, whenever a propagator is configured and the dispatch carries transport metadata, the caller's trace context is extracted from that metadata (from the incoming context, whatever span it already holds) and the server span is started in the extracted context, the token carrying that span; and that OnDispatchEnd ends a recording span exactly once, after its status was set — Error exactly when the call failed, Ok otherwise — and increments the request counter by one with the matching status label.",
      "the OpenTelemetry API objects (tracer, span, propagator, counter) are unknown interface calls; only the order, arguments and conditions of the hook's calls on them are proved.",
      ["that the SDK parents the span on the extracted context (OpenTelemetry SDK behaviour)", "spans that are not recording", "duration histogram"],
      pkgs=[{"dir": "/repo/vgirpc/otel", "pattern": "."}])

# properties not claimed: reason
NOT_APPLICABLE = {
    "C11": "relational two-run equivalence between the pipe loop and the HTTP handlers routed through gob, AEAD and Arrow IPC; contracts here are single-run and per function",
    "C32": "quantifies over goroutine schedules, latencies and wall-clock termination; goroutines, channels and timers are outside the sequential subset of the engine",
    "C36": "relational equivalence between sessions with and without a segment, over histories, through Arrow IPC; not expressible as a per-function contract",
    "C40": "data-race freedom and single-flight under all interleavings; the engine has no thread or permission model",
    "C41": "release of every Arrow buffer on every path needs ownership/refcount reasoning across arrow-go internals whose borrow rules would all have to be assumed",
    "C42": "listener lifecycle under all schedules of connections versus timers (goroutines, time.AfterFunc, WaitGroup): outside the sequential subset",
}

ALL = ["C%02d" % i for i in range(1, 44)]


def main():
    here = os.path.dirname(os.path.abspath(__file__))
    checks = []
    props = {}
    for pid in ALL:
        if pid not in CLAIMED:
            continue
        c = CLAIMED[pid]
        checks.append({
            "property_id": pid,
            "quick_cmd": "./check %s --tier quick" % pid,
            "thorough_cmd": "./check %s --tier thorough" % pid,
            "evidence_file": "/verif/evidence/%s.json" % pid,
            "replay_cmd_template": "./check %s --replay {path}" % pid,
            "engine": "govc",
            "level_claimed": {"category": c.get("category", "proof"), "text": c["text"], "design_ref": "DESIGN.md §7 " + pid},
            "level_note": c["note"],
            "technique": c["technique"],
        })
        props[pid] = {"pkgs": c.get("pkgs", [ROOT]), "residual": c.get("residual", []), "assumed": c.get("assumed", [])}
        for k in ("bounded", "level", "explanation"):
            if k in c:
                props[pid][k] = c[k]
    na = []
    for pid in ALL:
        if pid in CLAIMED:
            continue
        reason = NOT_APPLICABLE.get(pid, "contract set for this property not completed in this round: no obligation set discharges yet, so nothing is claimed (this is 'not built', not 'cannot apply'; see DESIGN.md §7/§10)")
        na.append({"property_id": pid, "reason": reason})
    hooks_commits = subprocess.run(["git", "-C", "/repo", "log", "--format=%H %s"], capture_output=True, text=True).stdout.splitlines()
    src = [l.split()[0] for l in hooks_commits if " verif:" in l]
    manifest = {
        "version": 1,
        "setup_cmd": "./setup.sh",
        "hooks": {
            "guard": "verif",
            "enable": "go/packages loads /repo with -tags=verif; the tag only adds comment-only contract files (vgirpc/verif_contracts_*.go)",
            "baseline_off_cmd": "/verif/baseline_off.sh",
            "source_commits": src,
            "add_only": True,
        },
        "engines": [{
            "name": "govc", "path": "/verif/govc",
            "serves_properties": sorted(CLAIMED),
            "kind_free_text": "own deductive verifier: contracts as //@ comments in tag-guarded files inside /repo; VC generation over go/ssa of the current working tree; obligations discharged by z3 5.1.0 / z3 4.8.12 / cvc5 1.0.3",
        }],
        "checks": checks,
        "notes": "Exit codes: 0 ok (KNOWN-FINDING lines possible), 1 VIOLATION, 2 UNDECIDED (contract cannot be bound / tool failure; never a VIOLATION). known findings: /verif/known_findings.jsonl.",
        "not_applicable": na,
    }
    json.dump(manifest, open(os.path.join(here, "MANIFEST.json"), "w"), indent=1)
    json.dump(props, open(os.path.join(here, "props.json"), "w"), indent=1)
    print("claimed:", len(checks), "not claimed:", len(na))


if __name__ == "__main__":
    main()
