#!/usr/bin/env python3
"""Generates MANIFEST.json and props.json from the table below (kept in one place so the
claimed / not-applicable split, level notes and residuals cannot drift apart)."""
import json, subprocess, os

ROOT = {"dir": "/repo", "pattern": "./vgirpc"}

# property id -> dict(text, note, technique, residual[], assumed[], pkgs[])
CLAIMED = {
    "C34": dict(
        text="Proof, for all inputs and table sizes, of function contracts on the real allocator code "
             "(numAllocs, readAllocs, writeAllocs, allocateLocked, canFitLocked, freeAtLocked): the allocation "
             "table stays in bounds, sorted and pairwise disjoint under every operation, allocation is first-fit, "
             "fails only when no gap fits and then changes nothing, free removes exactly the named entry; frames "
             "prove nothing outside the header entries is written.",
        note="Trusted: govc's SSA->SMT translation, go/ssa, the SMT solvers, the byte-level definitions of "
             "encoding/binary little-endian accessors (trusted/stdlib.spec), len(s.data)==s.size (established by mmap "
             "in ShmCreate/ShmAttach, outside the subset), mutex atomicity for concurrent use. Partial correctness.",
        technique="contract-based deductive verification: weakest-precondition VCs over go/ssa, discharged by z3/cvc5",
        residual=["cross-process visibility of the mapping", "initializeHeader/validateHeader/Reset/FreeOffset wrappers (added later in this file if listed under functions_under_contract)"],
        assumed=["encoding/binary little-endian byte semantics", "len(s.data) == s.size (mmap)"],
    ),
}

# properties not claimed: reason
NOT_APPLICABLE = {
    "C11": "relational two-run equivalence between the pipe loop and the HTTP handlers routed through gob, AEAD and Arrow IPC; contracts here are single-run and per function",
    "C32": "quantifies over goroutine schedules, latencies and wall-clock termination; goroutines, channels and timers are outside the sequential subset of the engine",
    "C36": "relational equivalence between sessions with and without a segment, over histories, through Arrow IPC; not expressible as a per-function contract",
    "C40": "data-race freedom and single-flight under all interleavings; the engine has no thread or permission model",
    "C41": "release of every Arrow buffer on every path needs ownership/refcount reasoning across arrow-go internals whose borrow rules would all have to be assumed",
    "C42": "listener lifecycle under all schedules of connections versus timers (goroutines, time.AfterFunc, WaitGroup): outside the sequential subset",
}

ALL = ["C%02d" % i for i in range(1, 44)]


def main():
    here = os.path.dirname(os.path.abspath(__file__))
    checks = []
    props = {}
    for pid in ALL:
        if pid not in CLAIMED:
            continue
        c = CLAIMED[pid]
        checks.append({
            "property_id": pid,
            "quick_cmd": "./check %s --tier quick" % pid,
            "thorough_cmd": "./check %s --tier thorough" % pid,
            "evidence_file": "/verif/evidence/%s.json" % pid,
            "replay_cmd_template": "./check %s --replay {path}" % pid,
            "engine": "govc",
            "level_claimed": {"category": c.get("category", "proof"), "text": c["text"], "design_ref": "DESIGN.md §7 " + pid},
            "level_note": c["note"],
            "technique": c["technique"],
        })
        props[pid] = {"pkgs": c.get("pkgs", [ROOT]), "residual": c.get("residual", []), "assumed": c.get("assumed", [])}
    na = []
    for pid in ALL:
        if pid in CLAIMED:
            continue
        reason = NOT_APPLICABLE.get(pid, "contract set for this property not completed in this round: no obligation set discharges yet, so nothing is claimed (this is 'not built', not 'cannot apply'; see DESIGN.md §7/§10)")
        na.append({"property_id": pid, "reason": reason})
    hooks_commits = subprocess.run(["git", "-C", "/repo", "log", "--format=%H %s"], capture_output=True, text=True).stdout.splitlines()
    src = [l.split()[0] for l in hooks_commits if " verif:" in l]
    manifest = {
        "version": 1,
        "setup_cmd": "./setup.sh",
        "hooks": {
            "guard": "verif",
            "enable": "go/packages loads /repo with -tags=verif; the tag only adds comment-only contract files (vgirpc/verif_contracts_*.go)",
            "baseline_off_cmd": "/verif/baseline_off.sh",
            "source_commits": src,
            "add_only": True,
        },
        "engines": [{
            "name": "govc", "path": "/verif/govc",
            "serves_properties": sorted(CLAIMED),
            "kind_free_text": "own deductive verifier: contracts as //@ comments in tag-guarded files inside /repo; VC generation over go/ssa of the current working tree; obligations discharged by z3 5.1.0 / z3 4.8.12 / cvc5 1.0.3",
        }],
        "checks": checks,
        "notes": "Exit codes: 0 ok (KNOWN-FINDING lines possible), 1 VIOLATION, 2 UNDECIDED (contract cannot be bound / tool failure; never a VIOLATION). known findings: /verif/known_findings.jsonl.",
        "not_applicable": na,
    }
    json.dump(manifest, open(os.path.join(here, "MANIFEST.json"), "w"), indent=1)
    json.dump(props, open(os.path.join(here, "props.json"), "w"), indent=1)
    print("claimed:", len(checks), "not claimed:", len(na))


if __name__ == "__main__":
    main()
