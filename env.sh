# sourced by every script in /verif: offline Go 1.26.8 toolchain
export GOFLAGS=-mod=mod GOPROXY=off GOSUMDB=off GOTOOLCHAIN=local
export PATH=/opt/veriftools/go1.26.8/bin:$PATH
export CARGO_NET_OFFLINE=true PIP_NO_INDEX=1
