package main

// Per-function verification-condition generator: SSA CFG -> facts + obligations.
// See DESIGN.md §3.2/§3.3. One Gen per (function, pass).

import (
	"os"
	"fmt"
	"go/constant"
	"go/token"
	"go/types"
	"sort"
	"strings"

	"golang.org/x/tools/go/ssa"
)

type fact struct {
	blk *ssa.BasicBlock // nil = global (always included)
	seq int
	s   string
}

// onlyAllocFacts: the expression asserts nothing but "x existed when the call started" (!fresh(x)),
// possibly under quantifiers, conjunctions and hypotheses: true in every execution, so it may be assumed.
func onlyAllocFacts(e Expr) bool {
	switch x := e.(type) {
	case *EUnary:
		if c, ok := x.X.(*ECall); ok && x.Op == "!" && c.Fn == "fresh" {
			return true
		}
	case *EBin:
		if x.Op == "&&" {
			return onlyAllocFacts(x.L) && onlyAllocFacts(x.R)
		}
		if x.Op == "==>" {
			return onlyAllocFacts(x.R)
		}
	case *EQuant:
		return x.Forall && onlyAllocFacts(x.Body)
	}
	return false
}

type Obl struct {
	Name   string
	Kind   string
	Props  []string
	Func   string
	Blk    *ssa.BasicBlock
	Seq    int
	Goal   string
	Text   string
	Cover  bool // vacuity probe: must be SAT
	Pos    token.Pos
	g      *Gen
	Custom string // complete query body for lemma obligations (no function context)
	RegexCode, RegexRef string // regex obligations: the two patterns (for witness replay)
}

type predState struct {
	edge string
	st   *State
}

const (
	bInit = iota
	bHavoc
	bMerge
	bLoop
)

type Base struct {
	kind      int
	id        int
	blk       *ssa.BasicBlock
	preds     []predState
	mods      map[string]bool
	modAll    bool
	modLocals bool
	keep      *State
	cache     map[string]string
}

type State struct {
	m    map[string]string
	base *Base
}

func (s *State) clone() *State {
	n := &State{m: make(map[string]string, len(s.m)), base: s.base}
	for k, v := range s.m {
		n.m[k] = v
	}
	return n
}

type nameRef struct {
	val    ssa.Value
	isAddr bool
	blk    *ssa.BasicBlock
	seq    int
}

type loopInfo struct {
	head   *ssa.BasicBlock
	blocks map[*ssa.BasicBlock]bool
	ord    int
}

type Gen struct {
	c    *Ctx
	fn   *ssa.Function
	fc   *FuncContract
	pass int
	// parameter names of the interface-method contract this implementation is checked against
	// (name 0 = the interface value holding the receiver); nil otherwise
	ifaceAlias []string
	curInstr   ssa.Instruction                       // the instruction being translated
	privMaps   map[*ssa.MakeMap][]ssa.Instruction    // maps made here whose only other uses are the listed escaping ones
	blockReach map[*ssa.BasicBlock]map[*ssa.BasicBlock]bool // CFG reachability (by one or more edges)
	pathVarType map[string]types.Type // `pathvar` declarations (non-Boolean path variables)
	implIfaces []types.Type // interface types some value was type-asserted to (see implFacts)

	sortDecls []string
	sortSet   map[string]bool
	decls     []string
	declSet   map[string]bool
	keySort   map[string]string
	facts     []fact
	obls      []*Obl
	seq       int
	nfresh    int

	cur    *ssa.BasicBlock
	st     *State
	entry  *State
	vals   map[ssa.Value]string
	tuples map[ssa.Value][]string
	locs   map[ssa.Value]*Loc
	reach  map[*ssa.BasicBlock]string
	out    map[*ssa.BasicBlock]*State
	anc    map[*ssa.BasicBlock]map[*ssa.BasicBlock]bool
	order  []*ssa.BasicBlock
	loops  []*loopInfo
	loopOf map[*ssa.BasicBlock]*loopInfo // by header
	names  map[string][]nameRef
	escape map[*ssa.Alloc]bool

	// pass-1 recording of written keys per block
	written    map[*ssa.BasicBlock]map[string]bool
	writtenAll map[*ssa.BasicBlock]bool
	modsets    map[*ssa.BasicBlock]map[string]bool // header -> keys (from pass 1)
	modAll     map[*ssa.BasicBlock]bool

	allocSites  []string
	strLits     map[string]string
	tags        map[string]string
	abstracted  map[string]int
	callOrd     map[string]int
	callOrdinal map[*ssa.CallCommon]int
	retOrdinal  map[*ssa.Return]int
	curRet      *ssa.Return
	callBlocks  map[string][]*ssa.BasicBlock // blocks in which a call to each callee label was processed
	allocCounter int                         // static allocation clock (see observe/newObject)
	writtenRefs  map[*ssa.BasicBlock]map[string][]refInfo // pass 1: objects written per block and component
	panicSites map[string][]token.Pos // pass 1: positions of may-panic instructions per kind (kept across reset)
	defers      []*ssa.Defer
	usedAxioms  map[string]bool
	closures    map[ssa.Value]*ssa.MakeClosure
	trusted     map[string]bool // external contracts actually used
	unknownExt  map[string]int  // externals called with no contract
	errs        []string
	decHead     map[string]string
	axiomsCache []string
	gids        []string
	modLocs     []modLoc
	modLocsDone bool
	recording  map[string]bool
	opaqueDefs map[string]string // opaque pure func -> definitional axiom
	revealed   map[string]bool
	inlineDepth int
	recoverTerm string // "the last recover() call of this function returned non-nil", "" when there is none
}

func newGen(c *Ctx, fn *ssa.Function, fc *FuncContract) *Gen {
	g := &Gen{c: c, fn: fn, fc: fc}
	g.reset()
	return g
}

func (g *Gen) reset() {
	g.sortDecls = nil
	g.sortSet = map[string]bool{}
	g.decls = nil
	g.declSet = map[string]bool{}
	g.keySort = map[string]string{}
	g.facts = nil
	g.obls = nil
	g.seq = 0
	g.nfresh = 0
	g.vals = map[ssa.Value]string{}
	g.tuples = map[ssa.Value][]string{}
	g.locs = map[ssa.Value]*Loc{}
	g.reach = map[*ssa.BasicBlock]string{}
	g.out = map[*ssa.BasicBlock]*State{}
	g.names = map[string][]nameRef{}
	g.written = map[*ssa.BasicBlock]map[string]bool{}
	g.writtenAll = map[*ssa.BasicBlock]bool{}
	g.allocSites = nil
	g.strLits = map[string]string{}
	g.tags = map[string]string{}
	g.abstracted = map[string]int{}
	g.callOrd = map[string]int{}
	g.defers = nil
	g.recoverTerm = ""
	g.usedAxioms = map[string]bool{}
	g.implIfaces = nil
	g.closures = map[ssa.Value]*ssa.MakeClosure{}
	g.trusted = map[string]bool{}
	g.unknownExt = map[string]int{}
	g.errs = nil
	g.decHead = map[string]string{}
	g.gids = nil
	g.modLocs, g.modLocsDone = nil, false
	g.opaqueDefs = map[string]string{}
	g.revealed = map[string]bool{}
	g.callBlocks = nil
	g.allocCounter = 0
	if g.fc != nil {
		for _, r := range g.fc.Reveal {
			g.revealed[r] = true
		}
	}
}

func (g *Gen) errorf(f string, a ...any) {
	g.errs = append(g.errs, fmt.Sprintf(f, a...))
}

func (g *Gen) flag(what string) { g.abstracted[what]++ }

// ---------- declarations ----------

func (g *Gen) declare(name, sort string) string {
	if !g.declSet[name] {
		g.declSet[name] = true
		g.decls = append(g.decls, fmtf("(declare-const %s %s)", name, sort))
	}
	return name
}

func (g *Gen) declareFun(name string, args []string, ret string) string {
	if !g.declSet[name] {
		g.declSet[name] = true
		g.decls = append(g.decls, fmtf("(declare-fun %s (%s) %s)", name, strings.Join(args, " "), ret))
	}
	return name
}

func (g *Gen) fresh(prefix, sort string) string {
	g.nfresh++
	return g.declare(sym(fmtf("%s!%d", prefix, g.nfresh)), sort)
}

// assume records a fact that holds whenever the current block executes. Facts of a block are
// visible to obligations in its descendants, which may be reached along paths that bypass the
// block, so every fact is guarded by the block's reachability flag.
func (g *Gen) assume(s string) {
	g.assumeAt(g.cur, s)
}

func (g *Gen) assumeAt(b *ssa.BasicBlock, s string) {
	if s == "true" {
		return
	}
	if b != nil {
		if r, ok := g.reach[b]; ok && r != "true" {
			s = implies(r, s)
		}
	}
	g.seq++
	g.facts = append(g.facts, fact{b, g.seq, s})
}

func (g *Gen) global(s string) {
	g.facts = append(g.facts, fact{nil, 0, s})
}

func (g *Gen) axiomOnce(name string, s ...string) {
	if g.usedAxioms[name] {
		return
	}
	g.usedAxioms[name] = true
	for _, x := range s {
		g.global(x)
	}
}

func (g *Gen) oblige(kind, name, goal string, props []string, text string, pos token.Pos) *Obl {
	g.seq++
	if len(props) == 0 && g.fc != nil {
		props = g.fc.Props
	}
	o := &Obl{Name: name, Kind: kind, Props: props, Func: g.fnLabel(), Blk: g.cur, Seq: g.seq, Goal: goal, Text: text, Pos: pos, g: g}
	g.obls = append(g.obls, o)
	return o
}

func (g *Gen) fnLabel() string {
	if g.fn == nil {
		return "lemma"
	}
	return g.c.label(g.fn)
}

// ---------- sorts ----------

func (g *Gen) sortDecl(name, decl string) {
	if !g.sortSet[name] {
		g.sortSet[name] = true
		g.sortDecls = append(g.sortDecls, decl)
	}
}

func (g *Gen) structSortName(t types.Type) string {
	if n, ok := t.(*types.Named); ok {
		return sym("S." + typeKey(n))
	}
	if a, ok := t.(*types.Alias); ok {
		return g.structSortName(types.Unalias(a))
	}
	return sym("S." + typeKey(t.Underlying()))
}

func (g *Gen) sortOf(t types.Type) string {
	t = types.Unalias(t)
	switch u := t.Underlying().(type) {
	case *types.Basic:
		switch {
		case u.Info()&types.IsBoolean != 0:
			return "Bool"
		case u.Info()&types.IsInteger != 0:
			return "Int"
		case u.Info()&types.IsFloat != 0:
			return "Real"
		case u.Info()&types.IsString != 0:
			g.needStr()
			return "Str"
		case u.Kind() == types.UnsafePointer, u.Kind() == types.UntypedNil:
			return "Int"
		case u.Info()&types.IsComplex != 0:
			return "Int"
		}
		return "Int"
	case *types.Pointer, *types.Chan, *types.Signature, *types.Map:
		return "Int"
	case *types.Slice:
		g.needSlice()
		return "Slice"
	case *types.Array:
		return "(Array Int " + g.sortOf(u.Elem()) + ")"
	case *types.Struct:
		name := g.structSortName(t)
		if !g.sortSet[name] {
			g.sortSet[name] = true // reserve (no recursion through value fields in Go)
			var fs []string
			for i := 0; i < u.NumFields(); i++ {
				fs = append(fs, fmtf("(%s %s)", g.fieldAcc(name, u, i), g.sortOf(u.Field(i).Type())))
			}
			if len(fs) == 0 {
				fs = append(fs, fmtf("(%s.~unit Int)", name))
			}
			g.sortDecls = append(g.sortDecls, fmtf("(declare-datatypes ((%s 0)) (((mk.%s %s))))", name, name, strings.Join(fs, " ")))
		}
		return name
	case *types.Interface:
		if _, tp := t.(*types.TypeParam); tp {
			return "Int"
		}
		g.needIface()
		return "Iface"
	case *types.Tuple:
		return "Int"
	}
	return "Int"
}

func (g *Gen) fieldAcc(sortName string, st *types.Struct, i int) string {
	if st.Field(i).Name() == "_" {
		return sym(fmtf("%s._%d", sortName, i)) // blank fields may repeat
	}
	return sym(fmtf("%s.%s", sortName, st.Field(i).Name()))
}

func (g *Gen) needSlice() {
	g.sortDecl("Slice", "(declare-datatypes ((Slice 0)) (((mk_slice (s_arr Int) (s_off Int) (s_len Int) (s_cap Int)))))")
}
func (g *Gen) needIface() {
	g.sortDecl("Iface", "(declare-datatypes ((Iface 0)) (((mk_iface (i_tag Int) (i_val Int)))))")
}
func (g *Gen) needStr() {
	if g.sortSet["Str"] {
		return
	}
	g.sortSet["Str"] = true
	g.sortDecls = append(g.sortDecls, "(declare-sort Str 0)")
	g.decls = append(g.decls, "(declare-fun slen (Str) Int)", "(declare-fun sat (Str Int) Int)")
	g.global("(forall ((s Str)) (! (and (>= (slen s) 0) (<= (slen s) 72057594037927936)) :pattern ((slen s))))")
	g.global("(forall ((s Str) (i Int)) (! (and (<= 0 (sat s i)) (<= (sat s i) 255)) :pattern ((sat s i))))")
}

// zero value of a type as an SMT term
func (g *Gen) zero(t types.Type) string {
	t = types.Unalias(t)
	switch u := t.Underlying().(type) {
	case *types.Basic:
		switch {
		case u.Info()&types.IsBoolean != 0:
			return "false"
		case u.Info()&types.IsFloat != 0:
			return "0.0"
		case u.Info()&types.IsString != 0:
			return g.strLit("")
		}
		return "0"
	case *types.Slice:
		g.needSlice()
		return "(mk_slice 0 0 0 0)"
	case *types.Array:
		return g.constArray(g.sortOf(t), g.zero(u.Elem()))
	case *types.Struct:
		name := g.sortOf(t)
		var fs []string
		for i := 0; i < u.NumFields(); i++ {
			fs = append(fs, g.zero(u.Field(i).Type()))
		}
		if len(fs) == 0 {
			fs = []string{"0"}
		}
		return app("mk."+name, fs...)
	case *types.Interface:
		if _, tp := t.(*types.TypeParam); tp {
			return "0"
		}
		g.needIface()
		return "(mk_iface 0 0)"
	}
	return "0"
}

// constArray: the array with every element equal to elem. cvc5 accepts (as const ..) only for
// literal values, so other element terms get a named array with a defining axiom.
func (g *Gen) constArray(sort, elem string) string {
	if !strings.Contains(elem, "str!") && !strings.Contains(elem, "zarr!") {
		return fmtf("((as const %s) %s)", sort, elem)
	}
	key := "zarr:" + sort + ":" + elem
	if g.usedAxioms[key] {
		return sym("zarr!" + fmtf("%x", hashStr(key)))
	}
	g.usedAxioms[key] = true
	n := g.declare(sym("zarr!"+fmtf("%x", hashStr(key))), sort)
	g.global(fmtf("(forall ((i Int)) (! (= (select %s i) %s) :pattern ((select %s i))))", n, elem, n))
	return n
}

func hashStr(s string) uint32 {
	var h uint32 = 2166136261
	for i := 0; i < len(s); i++ {
		h = (h ^ uint32(s[i])) * 16777619
	}
	return h
}

func (g *Gen) strLit(s string) string {
	g.needStr()
	if n, ok := g.strLits[s]; ok {
		return n
	}
	name := g.declare(sym(fmtf("str!%d", len(g.strLits))), "Str")
	for _, other := range g.strLits {
		g.global(fmtf("(distinct %s %s)", name, other))
	}
	g.strLits[s] = name
	g.global(fmtf("(= (slen %s) %d)", name, len(s)))
	if len(s) <= 48 {
		for i := 0; i < len(s); i++ {
			g.global(fmtf("(= (sat %s %d) %d)", name, i, s[i]))
		}
	}
	return name
}

// typeTag returns the interface tag constant for a concrete dynamic type.
func (g *Gen) typeTag(t types.Type) string {
	k := typeKey(types.Unalias(t))
	if n, ok := g.tags[k]; ok {
		return n
	}
	n := numI(int64(len(g.tags) + 1))
	g.tags[k] = n
	g.c.typeByKey[k] = types.Unalias(t)
	// interfaces already asserted against learn about the new concrete type
	for _, it := range g.implIfaces {
		g.implFacts(it)
	}
	return n
}

// box/unbox for interface payloads
func (g *Gen) box(term string, t types.Type) string {
	s := g.sortOf(t)
	if s == "Int" {
		return term
	}
	bn := sym("box." + s)
	un := sym("unbox." + s)
	if !g.declSet[bn] {
		g.declareFun(bn, []string{s}, "Int")
		g.declareFun(un, []string{"Int"}, s)
		g.global(fmtf("(forall ((x %s)) (! (= (%s (%s x)) x) :pattern ((%s x))))", s, un, bn, bn))
	}
	return app(bn, term)
}

func (g *Gen) unbox(term string, t types.Type) string {
	s := g.sortOf(t)
	if s == "Int" {
		return term
	}
	g.box("0", types.Typ[types.Int]) // no-op; ensure declared below
	bn := sym("box." + s)
	un := sym("unbox." + s)
	if !g.declSet[bn] {
		g.declareFun(bn, []string{s}, "Int")
		g.declareFun(un, []string{"Int"}, s)
		g.global(fmtf("(forall ((x %s)) (! (= (%s (%s x)) x) :pattern ((%s x))))", s, un, bn, bn))
	}
	return app(un, term)
}

// ---------- state ----------

func (g *Gen) keyDecl(key, sort string) {
	if old, ok := g.keySort[key]; ok && old != sort {
		g.errorf("key %s has sorts %s and %s", key, old, sort)
	}
	g.keySort[key] = sort
}

func isLocalKey(k string) bool { return strings.HasPrefix(k, "L:") }

func (g *Gen) get(st *State, key string) string {
	if g.recording != nil {
		g.recording[key] = true
	}
	if v, ok := st.m[key]; ok {
		return v
	}
	v := g.resolve(st.base, key)
	return v
}

func (g *Gen) resolve(b *Base, key string) string {
	if v, ok := b.cache[key]; ok {
		return v
	}
	srt, ok := g.keySort[key]
	if !ok {
		panic("unknown key sort " + key)
	}
	var v string
	switch b.kind {
	case bInit:
		v = g.declare(sym(fmtf("%s@%d", key, b.id)), srt)
	case bHavoc:
		if isLocalKey(key) || g.c.immutable[key] || (b.mods != nil && !b.mods[key]) {
			// (an immutable field is written only inside objects still being built by the writer,
			// see checkImmutables: no call changes it for an object this function can name)
			v = g.get(b.keep, key)
		} else {
			v = g.declare(sym(fmtf("%s@%d", key, b.id)), srt)
		}
	case bLoop, bMerge:
		if b.kind == bLoop && ((b.modAll && !g.c.immutable[key] && (b.modLocals || !isLocalKey(key))) || b.mods[key]) {
			v = g.declare(sym(fmtf("%s@%d", key, b.id)), srt)
			break
		}
		var vs []string
		same := true
		for _, p := range b.preds {
			pv := g.get(p.st, key)
			vs = append(vs, pv)
			if pv != vs[0] {
				same = false
			}
		}
		if len(vs) == 0 {
			v = g.declare(sym(fmtf("%s@%d", key, b.id)), srt)
		} else if same {
			v = vs[0]
		} else {
			v = g.declare(sym(fmtf("%s@%d", key, b.id)), srt)
			for i, p := range b.preds {
				g.assumeAt(b.blk, implies(p.edge, app("=", v, vs[i])))
			}
		}
	}
	b.cache[key] = v
	return v
}

// refInfo describes which object a heap write went to (pass 1), so that loop heads can keep
// every other object of the same component unchanged (per-object loop frame).
type refInfo struct {
	val     ssa.Value // the SSA value denoting the object (or the slice whose array it is)
	arr     bool      // the object is s_arr(val)
	unknown bool
}

// sexprArgs splits "(op a b c)" into [op a b c] at top level.
func sexprArgs(s string) []string {
	if len(s) < 2 || s[0] != '(' || s[len(s)-1] != ')' {
		return nil
	}
	s = s[1 : len(s)-1]
	var out []string
	depth, start := 0, 0
	for i := 0; i <= len(s); i++ {
		if i == len(s) || (s[i] == ' ' && depth == 0) {
			if i > start {
				out = append(out, s[start:i])
			}
			start = i + 1
			continue
		}
		if s[i] == '(' {
			depth++
		} else if s[i] == ')' {
			depth--
		}
	}
	return out
}

func (g *Gen) noteWrite(key, old, v string) {
	if g.pass != 1 || g.cur == nil {
		return
	}
	info := refInfo{unknown: true}
	if a := sexprArgs(v); len(a) == 4 && a[0] == "store" && a[1] == old {
		ref := a[2]
		for val, term := range g.vals {
			if term == ref {
				info = refInfo{val: val}
				break
			}
			if "(s_arr "+term+")" == ref {
				info = refInfo{val: val, arr: true}
				break
			}
		}
	}
	if g.writtenRefs == nil {
		g.writtenRefs = map[*ssa.BasicBlock]map[string][]refInfo{}
	}
	m := g.writtenRefs[g.cur]
	if m == nil {
		m = map[string][]refInfo{}
		g.writtenRefs[g.cur] = m
	}
	m[key] = append(m[key], info)
}

func (g *Gen) set(key, v string) {
	if !isLocalKey(key) {
		if _, ok := g.keySort[key]; ok {
			g.noteWrite(key, g.get(g.st, key), v)
		}
	}
	if strings.HasPrefix(v, "(") && !isLocalKey(key) {
		// name every new heap version: keeps queries small and gives the solver atoms to match on
		if srt, ok := g.keySort[key]; ok {
			n := g.fresh(key, srt)
			g.assume(app("=", n, v))
			v = n
		}
	}
	g.st.m[key] = v
	if g.cur != nil {
		w := g.written[g.cur]
		if w == nil {
			w = map[string]bool{}
			g.written[g.cur] = w
		}
		w[key] = true
	}
}

func (g *Gen) newBase(kind int) *Base {
	g.nfresh++
	return &Base{kind: kind, id: g.nfresh, cache: map[string]string{}}
}

// havocAll forgets every heap component except non-escaping local cells.
func (g *Gen) havocAll() {
	old := g.st
	b := g.newBase(bHavoc)
	b.keep = g.st
	g.st = &State{m: map[string]string{}, base: b}
	if g.cur != nil {
		g.writtenAll[g.cur] = true
	}
	g.keepPrivateMaps(old)
}

// analyzePrivateMaps: a map made by this function (MakeMap) whose uses are only updates of it,
// lookups in it, len/range of it — and the listed ESCAPING uses (anything else: an argument of a
// call, a store, a phi, a closure binding, a conversion). Until an escaping use has been
// executed nobody else holds a reference to the map, so no call can change it.
func (g *Gen) analyzePrivateMaps() {
	g.privMaps = map[*ssa.MakeMap][]ssa.Instruction{}
	for _, b := range g.fn.Blocks {
		for _, in := range b.Instrs {
			mm, ok := in.(*ssa.MakeMap)
			if !ok || mm.Referrers() == nil {
				continue
			}
			var esc []ssa.Instruction
			for _, u := range *mm.Referrers() {
				switch u := u.(type) {
				case *ssa.MapUpdate:
					if u.Map == ssa.Value(mm) && u.Key != ssa.Value(mm) && u.Value != ssa.Value(mm) {
						continue
					}
				case *ssa.Lookup:
					if u.X == ssa.Value(mm) && u.Index != ssa.Value(mm) {
						continue
					}
				case *ssa.DebugRef:
					continue
				case *ssa.Range:
					continue
				case *ssa.Call:
					if bi, ok := u.Call.Value.(*ssa.Builtin); ok && (bi.Name() == "len" || bi.Name() == "delete") {
						continue
					}
				}
				esc = append(esc, u)
			}
			g.privMaps[mm] = esc
		}
	}
	// reachability between blocks
	g.blockReach = map[*ssa.BasicBlock]map[*ssa.BasicBlock]bool{}
	for _, b := range g.fn.Blocks {
		seen := map[*ssa.BasicBlock]bool{}
		stack := append([]*ssa.BasicBlock{}, b.Succs...)
		for len(stack) > 0 {
			x := stack[len(stack)-1]
			stack = stack[:len(stack)-1]
			if seen[x] {
				continue
			}
			seen[x] = true
			stack = append(stack, x.Succs...)
		}
		g.blockReach[b] = seen
	}
}

// mayPrecede: can instruction u have been executed when execution is at instruction c?
func (g *Gen) mayPrecede(u, c ssa.Instruction) bool {
	ub, cb := u.Block(), c.Block()
	if ub == nil || cb == nil {
		return true
	}
	if g.blockReach[ub][cb] {
		return true
	}
	if ub == cb {
		for _, in := range ub.Instrs {
			if in == u {
				return true // u comes first (or is c itself: the call that receives the map)
			}
			if in == c {
				return false
			}
		}
	}
	return false
}

// keepPrivateMaps: after a havoc, a private map that cannot have escaped yet is what it was.
func (g *Gen) keepPrivateMaps(old *State) {
	if g.curInstr == nil || g.privMaps == nil {
		return
	}
	for mm, esc := range g.privMaps {
		id, defined := g.vals[mm]
		if !defined || mm.Block() == nil || !(mm.Block() == g.curInstr.Block() || mm.Block().Dominates(g.curInstr.Block())) {
			continue
		}
		escaped := false
		for _, u := range esc {
			if u == g.curInstr {
				// the havocking call itself receives the map: from here on it is shared
				escaped = true
				break
			}
			if g.mayPrecede(u, g.curInstr) {
				escaped = true
				break
			}
		}
		if escaped {
			continue
		}
		if mm.Block() == g.curInstr.Block() {
			// made later in this block than the havocking instruction? then not yet alive
			after := false
			for _, in := range mm.Block().Instrs {
				if in == g.curInstr {
					after = true
					break
				}
				if in == ssa.Instruction(mm) {
					break
				}
			}
			if after {
				continue
			}
		}
		dk, vk, lk := g.mapKeys(mm.Type())
		for _, k := range []string{dk, vk, lk} {
			g.assume(app("=", app("select", g.get(g.st, k), id), app("select", g.get(old, k), id)))
		}
		g.abstracted["private-map-kept"]++
	}
}

// havocKeys forgets the listed components only.
func (g *Gen) havocKeys(keys map[string]bool) {
	for k := range keys {
		if srt, ok := g.keySort[k]; ok {
			g.set(k, g.fresh(k, srt))
		}
	}
}

// ---------- CFG analysis ----------

func (g *Gen) analyzeCFG() {
	fn := g.fn
	// back edges and loops
	g.loopOf = map[*ssa.BasicBlock]*loopInfo{}
	g.loops = nil
	isBack := func(u, h *ssa.BasicBlock) bool { return h.Dominates(u) }
	for _, b := range fn.Blocks {
		for _, s := range b.Succs {
			if isBack(b, s) {
				li := g.loopOf[s]
				if li == nil {
					li = &loopInfo{head: s, blocks: map[*ssa.BasicBlock]bool{s: true}}
					g.loopOf[s] = li
					g.loops = append(g.loops, li)
				}
				// natural loop: blocks reaching b without passing s
				var stack []*ssa.BasicBlock
				if !li.blocks[b] {
					li.blocks[b] = true
					stack = append(stack, b)
				}
				for len(stack) > 0 {
					x := stack[len(stack)-1]
					stack = stack[:len(stack)-1]
					for _, p := range x.Preds {
						if !li.blocks[p] {
							li.blocks[p] = true
							stack = append(stack, p)
						}
					}
				}
			}
		}
	}
	sort.Slice(g.loops, func(i, j int) bool { return g.loops[i].head.Index < g.loops[j].head.Index })
	for i, l := range g.loops {
		l.ord = i
	}
	// topological order on forward edges
	visited := map[*ssa.BasicBlock]bool{}
	var post []*ssa.BasicBlock
	var dfs func(b *ssa.BasicBlock)
	dfs = func(b *ssa.BasicBlock) {
		visited[b] = true
		for _, s := range b.Succs {
			if !visited[s] && !isBack(b, s) {
				dfs(s)
			}
		}
		post = append(post, b)
	}
	if len(fn.Blocks) > 0 {
		dfs(fn.Blocks[0])
	}
	g.order = nil
	for i := len(post) - 1; i >= 0; i-- {
		g.order = append(g.order, post[i])
	}
	// ancestors
	g.anc = map[*ssa.BasicBlock]map[*ssa.BasicBlock]bool{}
	for _, b := range g.order {
		a := map[*ssa.BasicBlock]bool{}
		for _, p := range b.Preds {
			if isBack(p, b) {
				continue
			}
			if pa, ok := g.anc[p]; ok {
				a[p] = true
				for x := range pa {
					a[x] = true
				}
			}
		}
		g.anc[b] = a
	}
	// source-order ordinals for calls (per callee label) and returns: obligation names must not
	// depend on the order in which blocks happen to be processed
	g.callOrdinal = map[*ssa.CallCommon]int{}
	g.retOrdinal = map[*ssa.Return]int{}
	type posCall struct {
		pos   token.Pos
		cc    *ssa.CallCommon
		label string
		seq   int
	}
	var pcs []posCall
	var rets []*ssa.Return
	nseq := 0
	for _, b := range fn.Blocks {
		for _, in := range b.Instrs {
			var cc *ssa.CallCommon
			switch in := in.(type) {
			case *ssa.Call:
				cc = &in.Call
			case *ssa.Defer:
				cc = &in.Call
			case *ssa.Go:
				cc = &in.Call
			case *ssa.Return:
				rets = append(rets, in)
			}
			if cc != nil {
				if bi, isB := cc.Value.(*ssa.Builtin); !isB {
					nseq++
					pcs = append(pcs, posCall{in.Pos(), cc, g.c.calleeLabel(cc), nseq})
				} else if bi.Name() == "copy" || bi.Name() == "append" {
					nseq++
					pcs = append(pcs, posCall{in.Pos(), cc, bi.Name(), nseq})
				}
			}
		}
	}
	sort.SliceStable(pcs, func(i, j int) bool {
		if pcs[i].pos != pcs[j].pos {
			return pcs[i].pos < pcs[j].pos
		}
		return pcs[i].seq < pcs[j].seq
	})
	cnt := map[string]int{}
	for _, pc := range pcs {
		cnt[pc.label]++
		g.callOrdinal[pc.cc] = cnt[pc.label]
	}
	sort.SliceStable(rets, func(i, j int) bool { return rets[i].Pos() < rets[j].Pos() })
	for i, r := range rets {
		g.retOrdinal[r] = i + 1
		if os.Getenv("VERIF_DEBUG_RETS") != "" {
			fmt.Fprintf(os.Stderr, "ret%d of %s: block %d at %s\n", i+1, g.fnLabel(), r.Block().Index, g.c.fset.Position(r.Pos()))
		}
	}
	// escape analysis for allocs
	g.escape = map[*ssa.Alloc]bool{}
	for _, b := range fn.Blocks {
		for _, in := range b.Instrs {
			if a, ok := in.(*ssa.Alloc); ok {
				g.escape[a] = a.Heap && escapes(a, a) || !a.Heap && escapes(a, a)
			}
		}
	}
}

func escapes(root ssa.Value, v ssa.Value) bool {
	refs := v.Referrers()
	if refs == nil {
		return true
	}
	for _, r := range *refs {
		switch r := r.(type) {
		case *ssa.Store:
			if r.Val == v {
				return true
			}
		case *ssa.UnOp:
			if r.Op != token.MUL {
				return true
			}
		case *ssa.FieldAddr:
			if escapes(root, r) {
				return true
			}
		case *ssa.IndexAddr:
			if r.X != v {
				return true
			}
			if escapes(root, r) {
				return true
			}
		case *ssa.DebugRef:
		case *ssa.MakeClosure:
			// captured by a function literal that is only ever called on the spot (or, inside such a
			// literal, deferred): the pointer is live only during that call, which havocs the cell
			fn, _ := r.Fn.(*ssa.Function)
			if fn == nil || !calledOnTheSpot(r, root != nil && isFreeVar(root)) {
				return true
			}
			for i, b := range r.Bindings {
				if b == v && (i >= len(fn.FreeVars) || escapes(fn.FreeVars[i], fn.FreeVars[i])) {
					return true
				}
			}
		default:
			return true
		}
	}
	return false
}

// capturedCell reports whether free variable i of fn is, at every MakeClosure that builds fn,
// bound to the address of a variable of the enclosing function (an Alloc, or the enclosing
// function's own captured cell).
func capturedCell(fn *ssa.Function, i int) bool {
	par := fn.Parent()
	if par == nil {
		return false
	}
	if _, ok := fn.FreeVars[i].Type().Underlying().(*types.Pointer); !ok {
		return false
	}
	found := false
	for _, b := range par.Blocks {
		for _, in := range b.Instrs {
			mc, ok := in.(*ssa.MakeClosure)
			if !ok || mc.Fn != fn {
				continue
			}
			if i >= len(mc.Bindings) {
				return false
			}
			switch bv := mc.Bindings[i].(type) {
			case *ssa.Alloc:
				found = true
			case *ssa.FreeVar:
				j := -1
				for k, pf := range par.FreeVars {
					if pf == bv {
						j = k
					}
				}
				if j < 0 || !capturedCell(par, j) {
					return false
				}
				found = true
			default:
				return false
			}
		}
	}
	return found
}

func isFreeVar(v ssa.Value) bool { _, ok := v.(*ssa.FreeVar); return ok }

// calledOnTheSpot: every use of the closure value is as the callee of a call (or, when nested in
// a literal that is itself called on the spot, of a defer, which runs before that literal returns).
func calledOnTheSpot(mc *ssa.MakeClosure, allowDefer bool) bool {
	refs := mc.Referrers()
	if refs == nil {
		return false
	}
	for _, r := range *refs {
		switch r := r.(type) {
		case *ssa.Call:
			if r.Call.Value != ssa.Value(mc) {
				return false
			}
			for _, a := range r.Call.Args {
				if a == ssa.Value(mc) {
					return false
				}
			}
		case *ssa.Defer:
			if !allowDefer || r.Call.Value != ssa.Value(mc) {
				return false
			}
		case *ssa.DebugRef:
		default:
			return false
		}
	}
	return true
}

func (g *Gen) edgeCond(p, b *ssa.BasicBlock) string {
	r := g.reach[p]
	if len(p.Instrs) > 0 {
		if iff, ok := p.Instrs[len(p.Instrs)-1].(*ssa.If); ok {
			c := g.val(iff.Cond)
			if p.Succs[0] == b && p.Succs[1] == b {
				return r
			}
			if p.Succs[0] == b {
				return and(r, c)
			}
			return and(r, not(c))
		}
	}
	return r
}

// ---------- driver ----------

// run translates the function: pass 1 collects loop modsets, pass 2 generates obligations.
func (g *Gen) run() {
	defer func() {
		if r := recover(); r != nil {
			g.errorf("generator panic in %s: %v", g.fnLabel(), r)
		}
	}()
	if len(g.fn.Blocks) == 0 {
		g.errorf("function %s has no body", g.fnLabel())
		return
	}
	g.analyzeCFG()
	g.analyzePrivateMaps()
	g.pass = 1
	g.translate()
	// modsets from pass 1
	modsets := map[*ssa.BasicBlock]map[string]bool{}
	modAll := map[*ssa.BasicBlock]bool{}
	for _, l := range g.loops {
		ms := map[string]bool{}
		for b := range l.blocks {
			for k := range g.written[b] {
				ms[k] = true
			}
			if g.writtenAll[b] {
				modAll[l.head] = true
			}
		}
		modsets[l.head] = ms
	}
	errs := g.errs
	g.reset()
	g.errs = nil
	_ = errs
	g.modsets, g.modAll = modsets, modAll
	g.pass = 2
	g.translate()
	// a clause pinned to one return (label ..._retN) that matched no reachable return would be
	// silently vacuous: report it as a contract-binding error instead
	if g.fc != nil {
		for _, cl := range g.fc.Clauses {
			if cl.Kind == "ensures" && retSuffixRe.MatchString(cl.Label) && !g.usedAxioms["rethit:"+cl.Label] {
				g.errorf("%s: clause [%s] names a return that does not exist or is unreachable (returns are numbered in source order; %d returns)", g.fnLabel(), cl.Label, len(g.retOrdinal))
			}
			// a postcondition over local names that could be evaluated at no return at all (a name
			// it uses no longer exists) would be silently vacuous too
			if (cl.Kind == "ensures" || cl.Kind == "objinvariant") && strings.HasPrefix(cl.Label, "local") && !retSuffixRe.MatchString(cl.Label) && len(g.retOrdinal) > 0 && !g.usedAxioms[fmtf("posthit:%p", cl)] {
				g.errorf("%s: clause [%s] could be evaluated at no return (a local name it uses is gone)", g.fnLabel(), cl.Label)
			}
			// likewise a call-site clause whose call does not occur in this function (calls made
			// inside a function literal belong to that literal, `Outer$k`, not to Outer)
			// (clauses labelled hint_* are proof aids — obligations of their own wherever they apply —
			// and may lose their anchor without the property's clauses being affected)
			if (cl.Kind == "assert" || cl.Kind == "mark" || cl.Kind == "setflag" || cl.Kind == "storeassert" || cl.Kind == "loadsetflag" || cl.Kind == "loadmark") && cl.Call != "*" && (cl.Kind == "setflag" || !strings.HasPrefix(cl.Label, "hint_")) && !g.usedAxioms[fmtf("clausehit:%p", cl)] {
				g.errorf("%s: clause `at call %s` [%s] matches no call in this function", g.fnLabel(), cl.Call, cl.Label)
			}
		}
	}
}

func (g *Gen) translate() {
	fn := g.fn
	g.cur = nil
	init := g.newBase(bInit)
	init.id = 0
	g.entry = &State{m: map[string]string{}, base: init}
	if g.fc != nil {
		for _, cl := range g.fc.Clauses {
			if cl.Kind == "pathflag" { // ghost Booleans of this activation start false
				g.keyDecl("L:pathflag."+cl.Label, "Bool")
				g.entry.m["L:pathflag."+cl.Label] = "false"
			}
			if cl.Kind == "pathvar" { // ghost variables of this activation start at the zero value
				ty, err := g.c.parseType(cl.Text)
				if err != nil {
					g.errorf("%s: pathvar %s: %v", g.fnLabel(), cl.Label, err)
					continue
				}
				if g.pathVarType == nil {
					g.pathVarType = map[string]types.Type{}
				}
				g.pathVarType[cl.Label] = ty
				g.keyDecl("L:pathflag."+cl.Label, g.sortOf(ty))
				g.entry.m["L:pathflag."+cl.Label] = g.zero(ty)
			}
		}
	}
	g.st = g.entry.clone()

	// parameters and free variables
	for _, p := range fn.Params {
		g.bindInput(p, "p_"+p.Name())
	}
	for i, p := range fn.FreeVars {
		g.bindInput(p, "fv_"+p.Name())
		if capturedCell(fn, i) {
			// Go semantics: a captured variable lives in a cell allocated by the enclosing
			// function; the closure's free variable is the address of that cell, never nil
			g.global(fmtf("(> %s 0)", g.vals[p]))
		}
	}
	g.cur = fn.Blocks[0]
	g.emitSpecAxioms()
	// requires
	if g.fc != nil {
		env := g.funcEnv(g.entry, g.entry, nil)
		for i, cl := range g.fc.Clauses {
			if cl.Kind != "requires" && cl.Kind != "objinvariant" && cl.Kind != "entryfact" {
				continue
			}
			if cl.Kind == "entryfact" && !onlyAllocFacts(cl.E) {
				g.errorf("%s: entryfact may only conclude !fresh(...) facts: %s", g.fnLabel(), cl.Text)
				continue
			}
			if cl.Kind == "objinvariant" && !g.c.isOwner(g.fnLabel()) {
				g.errorf("%s: objinvariant in a function that owns no encapsulated field", g.fnLabel())
				continue
			}
			tv, err := env.evalBool(cl.E)
			if err != nil {
				g.errorf("%s: %s #%d: %v", g.fnLabel(), cl.Kind, i, err)
				continue
			}
			g.assume(tv)
		}
	}
	g.cur = nil

	for _, b := range g.order {
		g.cur = b
		isHead := g.loopOf[b] != nil
		// reach + entry state
		if b == fn.Blocks[0] {
			g.reach[b] = "true"
			g.st = g.st // entry state (after requires)
		} else {
			var edges []string
			var preds []predState
			for _, p := range b.Preds {
				if p.Dominates(b) && b.Dominates(p) && p != b {
					// impossible
				}
				if b.Dominates(p) { // back edge
					continue
				}
				if _, done := g.reach[p]; !done {
					continue // unreachable pred
				}
				e := g.edgeCond(p, b)
				edges = append(edges, e)
				preds = append(preds, predState{e, g.out[p]})
			}
			r := g.declare(sym(fmtf("reach.%d", b.Index)), "Bool")
			g.assume(app("=", r, or(edges...)))
			g.reach[b] = r
			if isHead {
				nb := g.newBase(bLoop)
				nb.blk = b
				nb.preds = preds
				if g.pass == 1 {
					nb.modAll = true
					nb.modLocals = true
					nb.mods = map[string]bool{}
				} else {
					nb.mods = g.modsets[b]
					nb.modAll = g.modAll[b]
				}
				g.st = &State{m: map[string]string{}, base: nb}
			} else if len(preds) == 1 {
				g.st = preds[0].st.clone()
			} else {
				nb := g.newBase(bMerge)
				nb.blk = b
				nb.preds = preds
				g.st = &State{m: map[string]string{}, base: nb}
			}
		}
		// phis
		var phis []*ssa.Phi
		for _, in := range b.Instrs {
			if p, ok := in.(*ssa.Phi); ok {
				phis = append(phis, p)
			} else if _, ok := in.(*ssa.DebugRef); !ok {
				break
			}
		}
		for _, p := range phis {
			name := g.declare(sym("v_"+p.Name()), g.sortOf(p.Type()))
			g.vals[p] = name
			g.assume(g.typeFacts(name, p.Type()))
			if p.Comment != "" {
				g.seq++
				g.names[p.Comment] = append(g.names[p.Comment], nameRef{p, false, b, g.seq})
				if p.Comment == "rangeint.iter" {
					g.names["rangeiter"] = append(g.names["rangeiter"], nameRef{p, false, b, g.seq})
				}
			}
		}
		// source variables bound to a phi of this block (e.g. `for ci := range n`) are nameable
		// at the block head, where loop invariants are evaluated
		for _, in := range b.Instrs {
			if dr, ok := in.(*ssa.DebugRef); ok && !dr.IsAddr {
				if ph, isPhi := dr.X.(*ssa.Phi); isPhi && ph.Block() == b {
					if obj, ok := dr.Object().(*types.Var); ok && !obj.IsField() {
						g.seq++
						g.names[obj.Name()] = append(g.names[obj.Name()], nameRef{ph, false, b, g.seq})
					}
				}
			}
		}
		if isHead {
			g.loopHead(b, phis)
		} else {
			for _, p := range phis {
				for i, pb := range b.Preds {
					if _, done := g.reach[pb]; !done {
						continue
					}
					g.assume(implies(g.edgeCond(pb, b), app("=", g.vals[p], g.val(p.Edges[i]))))
				}
			}
		}
		// instructions
		for _, in := range b.Instrs {
			if _, ok := in.(*ssa.Phi); ok {
				continue
			}
			g.curInstr = in
			g.instr(in)
		}
		g.curInstr = nil
		g.out[b] = g.st
		// back edges out of b: invariant preservation
		for _, s := range b.Succs {
			if s.Dominates(b) {
				g.backEdge(b, s)
			}
		}
	}
	g.cur = nil
}

func (g *Gen) bindInput(p ssa.Value, name string) {
	if tup, ok := p.Type().(*types.Tuple); ok {
		_ = tup
		return
	}
	n := g.declare(sym(name), g.sortOf(p.Type()))
	g.vals[p] = n
	g.global(g.typeFacts(n, p.Type()))
	g.observe(n, p.Type())
}

// typeFacts returns facts every value of type t satisfies.
func (g *Gen) typeFacts(term string, t types.Type) string {
	t = types.Unalias(t)
	if isInt(t) {
		return rangeFact(term, t)
	}
	switch u := t.Underlying().(type) {
	case *types.Slice:
		// no object exceeds 2^56 bytes (assumption: far above any 64-bit platform's address
		// space); slices of zero-size elements are only bounded by int
		bound := "9223372036854775807"
		if sz := types.SizesFor("gc", "amd64"); sz != nil {
			if _, isTP := u.Elem().(*types.TypeParam); !isTP && sz.Sizeof(u.Elem()) > 0 {
				bound = "72057594037927936"
			}
		}
		return fmtf("(and (<= 0 (s_off %s)) (<= (s_off %s) %s) (<= 0 (s_len %s)) (<= (s_len %s) (s_cap %s)) (<= (s_cap %s) %s) (>= (s_arr %s) 0) (=> (= (s_arr %s) 0) (= (s_cap %s) 0)))", term, term, bound, term, term, term, term, bound, term, term, term)
	case *types.Pointer, *types.Map, *types.Chan, *types.Signature:
		return fmtf("(>= %s 0)", term)
	case *types.Interface:
		if _, tp := t.(*types.TypeParam); tp {
			return "true"
		}
		return fmtf("(and (>= (i_tag %s) 0) (=> (= (i_tag %s) 0) (= (i_val %s) 0)))", term, term, term)
	case *types.Struct:
		var fs []string
		sn := g.sortOf(t)
		for i := 0; i < u.NumFields(); i++ {
			ft := u.Field(i).Type()
			if isInt(ft) || isSlice(ft) {
				fs = append(fs, g.typeFacts(app(g.fieldAcc(sn, u, i), term), ft))
			}
		}
		return and(fs...)
	}
	return "true"
}

// ---------- loops ----------

func (g *Gen) loopClauses(ord int, kind string) []*Clause {
	var cs []*Clause
	if g.fc == nil {
		return nil
	}
	for _, c := range g.fc.Clauses {
		if c.Kind == kind && c.Loop == ord {
			cs = append(cs, c)
		}
	}
	return cs
}

func (g *Gen) loopHead(h *ssa.BasicBlock, phis []*ssa.Phi) {
	li := g.loopOf[h]
	invs := g.loopClauses(li.ord, "invariant")
	// inv-init on each entry edge
	if g.pass == 2 {
		for pi, p := range h.Preds {
			if h.Dominates(p) {
				continue
			}
			if _, done := g.reach[p]; !done {
				continue
			}
			edge := g.edgeCond(p, h)
			sub := map[ssa.Value]string{}
			for _, ph := range phis {
				sub[ph] = g.val(ph.Edges[pi])
			}
			env := g.pointEnv(g.out[p], h, sub)
			for k, c := range invs {
				t, err := env.evalBool(c.E)
				if err != nil {
					g.errorf("%s: loop %d invariant #%d (init): %v", g.fnLabel(), li.ord, k, err)
					continue
				}
				o := g.oblige("inv-init", fmtf("%s/inv-init#loop%d.%d", g.fnLabel(), li.ord, k), implies(edge, t), c.Props, c.Text, h.Instrs[0].Pos())
				o.Blk = h
			}
			for _, ph := range phis {
				if y := counterBound(ph, li); y != nil && counterInit(ph, li) != nil {
					o := g.oblige("inv-init", fmtf("%s/inv-init#loop%d.bound_%s", g.fnLabel(), li.ord, sym(ph.Comment)), implies(edge, app("<", sub[ph], g.val(y))), nil, "counter "+ph.Comment+" stays below the loop bound", h.Instrs[0].Pos())
					o.Blk = h
				}
			}
			for _, key := range g.loopFrameKeys(h) {
				o := g.oblige("inv-init", fmtf("%s/loopframe-init#loop%d.%s", g.fnLabel(), li.ord, sym(key)),
					implies(edge, g.frameFact(key, g.get(g.out[p], key), g.get(g.entry, key), g.fnModLocs(), true)), nil, "loop frame: "+modsText(g.fc), h.Instrs[0].Pos())
				o.Blk = h
			}
		}
	}
	// the function's frame condition is an invariant of every loop (checked on entry and on every back edge)
	for _, key := range g.loopFrameKeys(h) {
		g.assume(g.frameFact(key, g.get(g.st, key), g.get(g.entry, key), g.fnModLocs(), true))
	}
	g.perObjectLoopFrame(h, li)
	// assume invariants at head (phis are fresh consts, state is the loop base)
	env := g.pointEnv(g.st, h, nil)
	for k, c := range invs {
		t, err := env.evalBool(c.E)
		if err != nil {
			g.errorf("%s: loop %d invariant #%d: %v", g.fnLabel(), li.ord, k, err)
			continue
		}
		g.assume(t)
	}
	for k, c := range g.loopClauses(li.ord, "decreases") {
		t, err := env.evalInt(c.E)
		if err != nil {
			g.errorf("%s: loop %d decreases: %v", g.fnLabel(), li.ord, err)
			continue
		}
		g.decHead[fmtf("%d.%d", li.ord, k)] = t
	}
	// automatic rangeindex fact: -1 <= idx (SSA pattern; checked like an invariant below)
	for _, ph := range phis {
		if ph.Comment == "rangeindex" {
			g.assume(app(">=", g.vals[ph], "(- 1)"))
			if bound := rangeIndexBound(ph); bound != nil {
				// idx < len: the SSA range pattern (idx' = idx+1; idx' < len) keeps it; checked on
				// every back edge like any invariant (init: -1 < len holds as len >= 0)
				g.assume(app("<", g.vals[ph], g.val(bound)))
			}
		} else if v0 := counterInit(ph, li); v0 != nil {
			// automatic counter fact: a variable only ever incremented in the loop stays >= its
			// initial value (absent overflow: the step is an obligation on every back edge)
			g.assume(app(">=", g.vals[ph], g.val(v0)))
			if y := counterBound(ph, li); y != nil {
				g.assume(app("<", g.vals[ph], g.val(y)))
			}
		}
	}
}

// counterBound recognises the bottom-tested counting loop (`for i := range n`, and `for` loops the
// SSA builder rotates): every in-loop edge into the phi carries next = phi+k and comes from a block
// ending in `if next < Y goto head`, Y computed outside the loop. Then phi < Y is invariant.
func counterBound(ph *ssa.Phi, li *loopInfo) ssa.Value {
	var y ssa.Value
	h := ph.Block()
	for i, e := range ph.Edges {
		pred := h.Preds[i]
		if !li.blocks[pred] {
			continue
		}
		if len(pred.Instrs) == 0 {
			return nil
		}
		iff, ok := pred.Instrs[len(pred.Instrs)-1].(*ssa.If)
		if !ok || pred.Succs[0] != h || pred.Succs[1] == h {
			return nil
		}
		bo, ok := iff.Cond.(*ssa.BinOp)
		if !ok || bo.Op != token.LSS || bo.X != e {
			return nil
		}
		if in, isInstr := bo.Y.(ssa.Instruction); isInstr && li.blocks[in.Block()] {
			return nil
		}
		if y != nil && y != bo.Y {
			return nil
		}
		y = bo.Y
	}
	return y
}

// counterInit recognises `for i := v0; ...; i += k` (k a positive constant): the phi has one
// edge from outside the loop carrying v0 and every edge from inside carries phi+k or phi.
func counterInit(ph *ssa.Phi, li *loopInfo) ssa.Value {
	if b, ok := ph.Type().Underlying().(*types.Basic); !ok || b.Info()&types.IsInteger == 0 {
		return nil
	}
	var v0 ssa.Value
	for i, e := range ph.Edges {
		pred := ph.Block().Preds[i]
		if !li.blocks[pred] {
			if v0 != nil && v0 != e {
				return nil
			}
			if in, isInstr := e.(ssa.Instruction); isInstr && li.blocks[in.Block()] {
				return nil
			}
			v0 = e
			continue
		}
		if e == ssa.Value(ph) {
			continue
		}
		if !incrementOf(ph, e, 4) {
			return nil
		}
	}
	// only for counters whose increments cannot overflow: the loop is left as soon as the
	// counter reaches a bound (tested at the head, `i < n`, or at the bottom, see counterBound)
	if counterBound(ph, li) != nil {
		return v0
	}
	h := ph.Block()
	if len(h.Instrs) > 0 {
		if iff, ok := h.Instrs[len(h.Instrs)-1].(*ssa.If); ok {
			if bo, ok := iff.Cond.(*ssa.BinOp); ok && bo.Op == token.LSS && bo.X == ssa.Value(ph) && li.blocks[h.Succs[0]] && !li.blocks[h.Succs[1]] {
				return v0
			}
		}
	}
	return nil
}

// incrementOf: e is ph, or ph plus positive constants (possibly through inner phis), e.g. the
// `i++` of the loop statement after an `i++` inside the body.
func incrementOf(ph *ssa.Phi, e ssa.Value, depth int) bool {
	if e == ssa.Value(ph) {
		return true
	}
	if depth == 0 {
		return false
	}
	switch e := e.(type) {
	case *ssa.BinOp:
		if e.Op != token.ADD {
			return false
		}
		c, isC := e.Y.(*ssa.Const)
		if !isC || c.Value == nil || constant.Sign(c.Value) <= 0 {
			return false
		}
		return incrementOf(ph, e.X, depth-1)
	case *ssa.Phi:
		for _, x := range e.Edges {
			if !incrementOf(ph, x, depth-1) {
				return false
			}
		}
		return len(e.Edges) > 0
	}
	return false
}

// rangeIndexBound finds the loop bound of a `for range` index phi: the value len in the header's
// `idx+1 < len` test, when len is computed outside the loop.
func rangeIndexBound(ph *ssa.Phi) ssa.Value {
	b := ph.Block()
	var next ssa.Value
	for _, in := range b.Instrs {
		if bo, ok := in.(*ssa.BinOp); ok && bo.Op == token.ADD && bo.X == ph {
			if c, isC := bo.Y.(*ssa.Const); isC && c.Value != nil && c.Value.ExactString() == "1" {
				next = bo
			}
		}
	}
	if next == nil {
		return nil
	}
	for _, in := range b.Instrs {
		if bo, ok := in.(*ssa.BinOp); ok && bo.Op == token.LSS && bo.X == next {
			if li, isInstr := bo.Y.(ssa.Instruction); isInstr {
				if li.Block() == b || !li.Block().Dominates(b) {
					return nil
				}
			}
			return bo.Y
		}
	}
	return nil
}

func (g *Gen) backEdge(u, h *ssa.BasicBlock) {
	if g.pass != 2 {
		return
	}
	li := g.loopOf[h]
	invs := g.loopClauses(li.ord, "invariant")
	idx := -1
	// several back edges (continue statements): number them by block index so names are unique
	nback, rank := 0, 0
	for i, p := range h.Preds {
		if p == u {
			idx = i
		}
		if h.Dominates(p) {
			nback++
			if p.Index < u.Index {
				rank++
			}
		}
	}
	esuf := ""
	if nback > 1 {
		esuf = fmtf("@edge%d", rank+1)
	}
	edge := g.edgeCond(u, h)
	sub := map[ssa.Value]string{}
	for _, in := range h.Instrs {
		if ph, ok := in.(*ssa.Phi); ok {
			sub[ph] = g.val(ph.Edges[idx])
		}
	}
	env := g.pointEnv(g.st, h, sub)
	for k, c := range invs {
		t, err := env.evalBool(c.E)
		if err != nil {
			g.errorf("%s: loop %d invariant #%d (step): %v", g.fnLabel(), li.ord, k, err)
			continue
		}
		g.oblige("inv-step", fmtf("%s/inv-step#loop%d.%d%s", g.fnLabel(), li.ord, k, esuf), implies(edge, t), c.Props, c.Text, u.Instrs[len(u.Instrs)-1].Pos())
	}
	// `loop k onrepeat`: what must hold whenever the loop goes round again (evaluated at the back
	// edge, with the variables of the iteration that is ending in scope)
	if reps := g.loopClauses(li.ord, "onrepeat"); len(reps) > 0 {
		envU := g.pointEnv(g.st, u, nil)
		envU.seqMax = g.seq + 1
		for k, c := range reps {
			t, err := envU.evalBool(c.E)
			if err != nil {
				g.errorf("%s: loop %d onrepeat #%d: %v", g.fnLabel(), li.ord, k, err)
				continue
			}
			name := fmtf("%s/onrepeat#loop%d.%d%s", g.fnLabel(), li.ord, k, esuf)
			if c.Label != "" {
				name = fmtf("%s/onrepeat#loop%d.%s%s", g.fnLabel(), li.ord, c.Label, esuf)
			}
			g.oblige("onrepeat", name, implies(edge, t), c.Props, c.Text, u.Instrs[len(u.Instrs)-1].Pos())
		}
	}
	for _, in := range h.Instrs {
		if ph, ok := in.(*ssa.Phi); ok && ph.Comment == "rangeindex" {
			goal := app(">=", sub[ph], "(- 1)")
			if bound := rangeIndexBound(ph); bound != nil {
				goal = and(goal, app("<", sub[ph], g.val(bound)))
			}
			g.oblige("inv-step", fmtf("%s/inv-step#loop%d.rangeindex%s", g.fnLabel(), li.ord, esuf), implies(edge, goal), nil, "-1 <= rangeindex < len", ph.Pos())
		} else if ok {
			if v0 := counterInit(ph, li); v0 != nil && sub[ph] != g.vals[ph] {
				goal := app(">=", sub[ph], g.val(v0))
				if y := counterBound(ph, li); y != nil {
					goal = and(goal, app("<", sub[ph], g.val(y)))
				}
				g.oblige("inv-step", fmtf("%s/inv-step#loop%d.counter_%s%s", g.fnLabel(), li.ord, sym(ph.Comment), esuf), implies(edge, goal), nil, "counter "+ph.Comment+" stays between its initial value and the loop bound", ph.Pos())
			}
		}
	}
	for _, key := range g.loopFrameKeys(h) {
		g.oblige("inv-step", fmtf("%s/loopframe-step#loop%d.%s%s", g.fnLabel(), li.ord, sym(key), esuf),
			implies(edge, g.frameFact(key, g.get(g.st, key), g.get(g.entry, key), g.fnModLocs(), true)), nil, "loop frame: "+modsText(g.fc), u.Instrs[len(u.Instrs)-1].Pos())
	}
	// decreases
	for k, c := range g.loopClauses(li.ord, "decreases") {
		t0, ok := g.decHead[fmtf("%d.%d", li.ord, k)]
		t1, err1 := env.evalInt(c.E)
		if !ok || err1 != nil {
			g.errorf("%s: loop %d decreases: %v", g.fnLabel(), li.ord, err1)
			continue
		}
		g.oblige("decreases", fmtf("%s/decreases#loop%d.%d%s", g.fnLabel(), li.ord, k, esuf), implies(edge, and(app(">=", t0, "0"), app("<", t1, t0))), c.Props, c.Text, u.Instrs[len(u.Instrs)-1].Pos())
	}
}

// perObjectLoopFrame: for each array-shaped heap component written in the loop only through
// stores to identifiable objects (pass 1), every OTHER object that existed at loop entry keeps
// its contents. Objects allocated inside the loop are excluded by the allocation clock.
func (g *Gen) perObjectLoopFrame(h *ssa.BasicBlock, li *loopInfo) {
	if g.pass != 2 || g.modAll[h] || g.st.base == nil || g.st.base.kind != bLoop {
		return
	}
	var keys []string
	for k := range g.modsets[h] {
		if !isLocalKey(k) && strings.HasPrefix(g.keySort[k], "(Array Int") {
			keys = append(keys, k)
		}
	}
	sort.Strings(keys)
	for _, key := range keys {
		var invRefs []string
		ok := true
		for b := range li.blocks {
			for _, info := range g.writtenRefs[b][key] {
				if info.unknown || info.val == nil {
					ok = false
					break
				}
				inLoop := false
				if in, isInstr := info.val.(ssa.Instruction); isInstr && in.Block() != nil && li.blocks[in.Block()] {
					inLoop = true
				}
				if inLoop {
					// only objects created inside the loop may be written through loop-local values
					switch info.val.(type) {
					case *ssa.Alloc, *ssa.MakeSlice, *ssa.MakeMap, *ssa.MakeChan, *ssa.MakeClosure:
						if info.arr != isSlice(info.val.Type()) {
							ok = false
						}
					default:
						ok = false
					}
					continue
				}
				term := g.val(info.val)
				if info.arr {
					term = app("s_arr", term)
				}
				invRefs = append(invRefs, term)
			}
			if !ok {
				break
			}
		}
		if !ok {
			continue
		}
		// value at loop entry (merge of the entry edges)
		base := g.st.base
		var vs []string
		same := true
		for _, p := range base.preds {
			pv := g.get(p.st, key)
			vs = append(vs, pv)
			if pv != vs[0] {
				same = false
			}
		}
		if len(vs) == 0 {
			continue
		}
		entry := vs[0]
		if !same {
			entry = g.fresh(key+".entry", g.keySort[key])
			for i, p := range base.preds {
				g.assume(implies(p.edge, app("=", entry, vs[i])))
			}
		}
		g.declareFun("atime", []string{"Int"}, "Int")
		var ex []string
		seen := map[string]bool{}
		for _, r := range invRefs {
			if !seen[r] {
				seen[r] = true
				ex = append(ex, app("=", "lf_r", r))
			}
		}
		now := g.get(g.st, key)
		g.assume(fmtf("(forall ((lf_r Int)) (! (=> (and (<= (atime lf_r) %d) (not %s)) (= (select %s lf_r) (select %s lf_r))) :pattern ((select %s lf_r))))",
			g.allocCounter, or(ex...), now, entry, now))
	}
}

// fnModLocs: the modifies clause of the function under verification, evaluated at entry.
func (g *Gen) fnModLocs() []modLoc {
	if g.modLocsDone {
		return g.modLocs
	}
	g.modLocsDone = true
	if g.fc == nil || !hasModifies(g.fc) {
		g.modLocs = []modLoc{{all: true}}
		return g.modLocs
	}
	envE := g.funcEnv(g.entry, g.entry, nil)
	for _, cl := range g.fc.Clauses {
		if cl.Kind != "modifies" {
			continue
		}
		ls, err := envE.evalMods(cl.Mods)
		if err != nil {
			g.errorf("%s: modifies: %v", g.fnLabel(), err)
			continue
		}
		g.modLocs = append(g.modLocs, ls...)
	}
	return g.modLocs
}

// loopFrameKeys: heap components havocked at loop head h for which the function's frame
// condition is carried as an automatic loop invariant.
func (g *Gen) loopFrameKeys(h *ssa.BasicBlock) []string {
	if g.pass != 2 || g.fc == nil || g.modAll[h] {
		return nil
	}
	for _, l := range g.fnModLocs() {
		if l.all {
			return nil
		}
	}
	var keys []string
	for k := range g.modsets[h] {
		if !isLocalKey(k) {
			keys = append(keys, k)
		}
	}
	sort.Strings(keys)
	return keys
}
