package main

// Calls: builtins, contracts at call sites, postcondition and frame checking, defers.

import (
	"fmt"
	"go/token"
	"go/types"
	"regexp"
	"sort"
	"strings"

	"golang.org/x/tools/go/ssa"
)

func (g *Gen) call(in *ssa.Call, cc *ssa.CallCommon) {
	res := g.doCall(cc, in.Pos(), in.Name())
	g.bindResults(in, res)
	g.afterCallClauses(in, cc)
}

// afterCallClauses: `at call L setflag F expr` — the path flag F takes the value of expr, evaluated
// right after the call with its results (result, resultN) and arguments (argN) in scope.
func (g *Gen) afterCallClauses(in *ssa.Call, cc *ssa.CallCommon) {
	if g.fc == nil || g.inlineDepth != 0 {
		return
	}
	if _, isB := cc.Value.(*ssa.Builtin); isB {
		return
	}
	label := g.c.calleeLabel(cc)
	n := g.callOrdinal[cc]
	for _, cl := range g.fc.Clauses {
		if cl.Kind != "setflag" || (cl.Call != label && cl.Call != fmtf("%s#%d", label, n)) {
			continue
		}
		key := "L:pathflag." + cl.Label
		if _, ok := g.keySort[key]; !ok {
			g.errorf("%s: setflag of undeclared pathflag %s", g.fnLabel(), cl.Label)
			continue
		}
		g.usedAxioms[fmtf("clausehit:%p", cl)] = true
		env := g.pointEnv(g.st, g.cur, nil)
		off := 0
		if cc.IsInvoke() {
			env.vars["arg0"] = TV{g.val(cc.Value), cc.Value.Type()}
			off = 1
		}
		for i, a := range cc.Args {
			env.vars[fmtf("arg%d", i+off)] = TV{g.val(a), a.Type()}
		}
		if tup, ok := in.Type().(*types.Tuple); ok {
			for i, t := range g.tuples[in] {
				env.results = append(env.results, TV{t, tup.At(i).Type()})
			}
		} else {
			env.results = []TV{{g.val(in), in.Type()}}
		}
		var t string
		var err error
		if _, isVar := g.pathVarType[cl.Label]; isVar {
			var tv TV
			tv, err = env.eval(cl.E)
			t = tv.t
			if err == nil && g.sortOf(tv.ty) != g.keySort[key] {
				err = fmt.Errorf("value of type %s does not fit pathvar %s", tv.ty, cl.Label)
			}
		} else {
			t, err = env.evalBool(cl.E)
		}
		if err != nil {
			g.errorf("%s: setflag %s at call %s: %v", g.fnLabel(), cl.Label, label, err)
			continue
		}
		g.set(key, t)
	}
}

func (g *Gen) bindResults(in ssa.Value, res []string) {
	if tup, ok := in.Type().(*types.Tuple); ok {
		for len(res) < tup.Len() {
			res = append(res, g.freshOf("res", tup.At(len(res)).Type()))
		}
		g.tuples[in] = res
		return
	}
	if len(res) == 0 {
		g.defineFresh(in)
		return
	}
	g.define(in, res[0])
}

func sigResults(cc *ssa.CallCommon) []types.Type {
	sig := cc.Signature()
	var out []types.Type
	if sig == nil {
		return nil
	}
	for i := 0; i < sig.Results().Len(); i++ {
		out = append(out, sig.Results().At(i).Type())
	}
	return out
}

func (g *Gen) freshResults(cc *ssa.CallCommon, prefix string) []string {
	var out []string
	for _, t := range sigResults(cc) {
		out = append(out, g.freshOf(prefix, t))
	}
	return out
}


// callSiteClauses: the `at call <label> assert` and `at call <label> mark` clauses of the function
// under verification that name this call site.
func (g *Gen) callSiteClauses(label string, n int, args []TV, pos token.Pos) {
	// call-site assertions of the function under verification
	if g.fc != nil && g.pass == 2 && g.inlineDepth == 0 {
		k := 0
		for _, cl := range g.fc.Clauses {
			if cl.Kind != "assert" {
				continue
			}
			if cl.Call == "*" {
				if containsStr(cl.Except, label) || containsStr(cl.Except, fmtf("%s#%d", label, n)) {
					continue
				}
			} else if cl.Call != label && cl.Call != fmtf("%s#%d", label, n) {
				continue
			}
			if cl.After != "" {
				dominated := false
				for _, b := range g.callBlocks[cl.After] {
					if b == g.cur || b.Dominates(g.cur) {
						dominated = true
					}
				}
				if !dominated {
					continue
				}
			}
			k++
			g.usedAxioms[fmtf("clausehit:%p", cl)] = true
			env := g.pointEnv(g.st, g.cur, nil)
			for i, a := range args {
				env.vars[fmtf("arg%d", i)] = a
			}
			t, err := env.evalBool(cl.E)
			if err != nil {
				if cl.Call == "*" && strings.Contains(err.Error(), "unknown name") {
					// a gate variable that does not exist (yet) at this call: the gate was not passed
					t = "false"
				} else {
					g.errorf("%s: at call %s: %v", g.fnLabel(), label, err)
					continue
				}
			}
			oname := fmtf("%s/assert@%s#%d.%d", g.fnLabel(), label, n, k)
			if cl.Label != "" {
				// named by its label, so that adding a clause for the same call site elsewhere does
				// not rename it (known findings and replays are matched by obligation name)
				oname = fmtf("%s/assert@%s#%d.%s", g.fnLabel(), label, n, cl.Label)
			}
			g.oblige("assert", oname, t, cl.Props, cl.Text, pos)
			if !isRecordedFinding(oname) {
				g.assume(t)
			}
		}
	}

	if g.fc != nil && g.inlineDepth == 0 {
		for _, cl := range g.fc.Clauses {
			if cl.Kind != "mark" {
				continue
			}
			if cl.Call == "*" {
				if containsStr(cl.Except, label) || containsStr(cl.Except, fmtf("%s#%d", label, n)) {
					continue
				}
			} else if cl.Call != label && cl.Call != fmtf("%s#%d", label, n) {
				continue
			}
			key := "L:pathflag." + cl.Label
			if _, ok := g.keySort[key]; !ok {
				g.errorf("%s: mark of undeclared pathflag %s", g.fnLabel(), cl.Label)
				continue
			}
			g.usedAxioms[fmtf("clausehit:%p", cl)] = true
			g.set(key, "true")
		}
	}
}

// siteLabel: the name call-site clauses use for this call.
func (g *Gen) siteLabel(cc *ssa.CallCommon) string {
	label := g.c.calleeLabel(cc)
	if label == "dynamic" {
		// a call through a local variable holding a function value: name it after the variable
		for nm, refs := range g.names {
			for _, r := range refs {
				if r.val == cc.Value && !r.isAddr {
					label = "local:" + nm
				}
			}
		}
	}
	return label
}

func (g *Gen) doCall(cc *ssa.CallCommon, pos token.Pos, name string) []string {
	if b, ok := cc.Value.(*ssa.Builtin); ok {
		if bn := b.Name(); (bn == "copy" || bn == "append") && g.fc != nil {
			// call-site clauses may name the builtins copy and append (`at call copy#2 assert ...`)
			var bargs []TV
			for _, a := range cc.Args {
				bargs = append(bargs, TV{g.val(a), a.Type()})
			}
			if n := g.callOrdinal[cc]; n != 0 {
				g.callSiteClauses(bn, n, bargs, pos)
			}
		}
		return g.builtin(b, cc, pos, name)
	}
	label := g.siteLabel(cc)
	n := g.callOrdinal[cc]
	if n == 0 {
		g.callOrd[label]++
		n = 1000 + g.callOrd[label]
	}

	// argument terms (receiver first for invoke)
	var args []TV
	if cc.IsInvoke() {
		args = append(args, TV{g.val(cc.Value), cc.Value.Type()})
	}
	for _, a := range cc.Args {
		args = append(args, TV{g.val(a), a.Type()})
	}

	g.callSiteClauses(label, n, args, pos)

	if g.callBlocks == nil {
		g.callBlocks = map[string][]*ssa.BasicBlock{}
	}
	g.callBlocks[label] = append(g.callBlocks[label], g.cur)

	if mc, ok := cc.Value.(*ssa.MakeClosure); ok {
		// a literal called on the spot may write the local cells it captures
		for _, b := range mc.Bindings {
			if a, ok := b.(*ssa.Alloc); ok && !g.escape[a] {
				g.locOf(a)
				prefix := "L:" + a.Name() + "."
				hk := map[string]bool{}
				for k := range g.keySort {
					if strings.HasPrefix(k, prefix) {
						hk[k] = true
					}
				}
				g.havocKeys(hk)
			}
		}
	}

	fc := g.c.contracts[label]
	callee := cc.StaticCallee()
	if fc != nil && fc.MayPanic && g.fc != nil && g.fc.NoPanic && g.pass == 2 && g.inlineDepth == 0 &&
		(len(g.fc.NoPanicKinds) == 0 || containsStr(g.fc.NoPanicKinds, "call")) &&
		!(containsStr(g.fc.NoPanicKinds, "recovered") && g.recoverArmedHere()) {
		// the callee is declared `maypanic`: a panic-free caller may reach this call only behind a
		// recovering defer (nopanic(..., call, recovered)); otherwise the call must be unreachable
		g.oblige("nopanic", fmtf("%s/nopanic#call@%s#%d", g.fnLabel(), label, n), "false", g.fc.NoPanicProps, "call of a function that may panic ("+label+") outside a recovering defer", pos)
	}
	if fc != nil {
		var names []string
		if fc.Extern || callee == nil || len(fc.Params) > 0 {
			names = fc.Params
		} else {
			for _, p := range callee.Params {
				names = append(names, p.Name())
			}
			if mc, ok := cc.Value.(*ssa.MakeClosure); ok {
				// direct call of a closure: bindings are the free variables
				var fv []TV
				for i, b := range mc.Bindings {
					fv = append(fv, TV{g.val(b), b.Type()})
					_ = i
				}
				_ = fv
			}
		}
		if len(names) != len(args) {
			g.errorf("%s: contract %s names %d parameters, call has %d", g.fnLabel(), label, len(names), len(args))
		} else {
			if fc.Extern {
				g.trusted[label] = true
			}
			return g.applyContract(fc, names, args, cc, label, n, pos)
		}
	}
	// no contract: sound over-approximation
	if callee != nil && callee.Pkg == g.c.pkg {
		g.flag("call-no-contract:" + label)
	} else {
		g.unknownExt[label]++
	}
	if g.c.effectFree(label, cc) {
		g.havocArgs(cc)
		return g.freshResults(cc, "r_"+name)
	}
	g.havocAll()
	return g.freshResults(cc, "r_"+name)
}

func (g *Gen) applyContract(fc *FuncContract, names []string, args []TV, cc *ssa.CallCommon, label string, n int, pos token.Pos) []string {
	pre := g.st
	formals := map[string]TV{}
	for i, nm := range names {
		formals[nm] = args[i]
	}
	envPre := &Env{g: g, st: pre, old: pre, vars: map[string]TV{}, args: formals}
	_, isLit := cc.Value.(*ssa.MakeClosure)
	if isLit {
		// a function literal called (or deferred) where it is created: the variables it captures
		// are variables of this function, so the names in its contract resolve here
		envPre.fn, envPre.point, envPre.seqMax = g.fn, g.cur, g.seq+1
	}
	k := 0
	for _, cl := range fc.Clauses {
		if cl.Kind != "requires" {
			continue
		}
		k++
		t, err := envPre.evalBool(cl.E)
		if err != nil {
			g.errorf("%s: requires of %s: %v", g.fnLabel(), label, err)
			continue
		}
		if g.pass == 2 && g.inlineDepth == 0 {
			props := cl.Props
			if len(props) == 0 {
				props = fc.Props
			}
			if fc.Extern && g.fc != nil {
				// preconditions of external functions (in-range indices etc.) count toward the
				// properties the calling function is verified for
				props = g.fc.Props
				if g.fc.NoPanic && len(g.fc.NoPanicProps) > 0 {
					props = unionProps(props, g.fc.NoPanicProps)
				}
			}
			g.oblige("pre", fmtf("%s/pre@%s#%d.%d", g.fnLabel(), label, n, k), t, props, cl.Text, pos)
		}
		g.assume(t)
	}
	// frame
	g.st = pre.clone()
	var locs []modLoc
	for _, cl := range fc.Clauses {
		if cl.Kind != "modifies" {
			continue
		}
		ls, err := envPre.evalMods(cl.Mods)
		if err != nil {
			g.errorf("%s: modifies of %s: %v", g.fnLabel(), label, err)
			continue
		}
		locs = append(locs, ls...)
	}
	all := !hasModifies(fc) && !fc.Extern // no modifies clause on a package function: frame unknown
	keys := map[string]bool{}
	for _, l := range locs {
		if l.all {
			all = true
		}
		keys[l.key] = true
	}
	if all {
		g.havocAll()
	} else {
		var ks []string
		for k := range keys {
			ks = append(ks, k)
		}
		sort.Strings(ks)
		for _, key := range ks {
			before := g.get(pre, key)
			now := g.fresh(key, g.keySort[key])
			g.set(key, now)
			g.assume(g.frameFact(key, now, before, locs, false))
		}
	}
	// results
	var res []string
	rts := sigResults(cc)
	if fc.Pure {
		tv, err := g.pureApp(fc, tvTerms(args))
		if err == nil && len(rts) == 1 {
			res = []string{tv.t}
			g.assume(g.typeFacts(tv.t, rts[0]))
		}
	}
	if res == nil {
		for i, t := range rts {
			if fc.Fresh && i == 0 {
				// a freshly allocated result is not an observation of an existing object
				n := g.fresh("r_"+sym(label), g.sortOf(t))
				g.assume(g.typeFacts(n, t))
				res = append(res, n)
				continue
			}
			res = append(res, g.freshOf("r_"+sym(label), t))
		}
	}
	if fc.Fresh && len(rts) >= 1 {
		id := g.newObject("fresh_" + sym(label))
		if isSlice(rts[0]) {
			g.assume(app("=", app("s_arr", res[0]), id))
		} else if isIface(rts[0]) {
			// a fresh object behind an interface value: nothing to identify (its payload is opaque)
		} else {
			g.assume(app("=", res[0], id))
		}
		// the new object's contents are its own: give its fields (elements) new, unconstrained values
		// instead of letting the postcondition constrain what the OLD heap holds at that address
		// (quantified invariants over all references would otherwise see the future object)
		if pt, ok := types.Unalias(rts[0]).Underlying().(*types.Pointer); ok {
			if su, ok := types.Unalias(pt.Elem()).Underlying().(*types.Struct); ok {
				for i := 0; i < su.NumFields(); i++ {
					key := g.fieldKey(types.Unalias(pt.Elem()), i)
					nv := g.freshOf("ff_"+su.Field(i).Name(), su.Field(i).Type())
					g.set(key, app("store", g.get(g.st, key), res[0], nv))
				}
			}
		} else if sl, ok := types.Unalias(rts[0]).Underlying().(*types.Slice); ok {
			key := g.elemKey(sl.Elem())
			nv := g.fresh("fe", "(Array Int "+g.sortOf(sl.Elem())+")")
			g.set(key, app("store", g.get(g.st, key), id, nv))
		}
	}
	envPost := &Env{g: g, st: g.st, old: pre, vars: map[string]TV{}, args: formals}
	if isLit {
		envPost.fn, envPost.point, envPost.seqMax = g.fn, g.cur, g.seq+1
	}
	for i, t := range rts {
		envPost.results = append(envPost.results, TV{res[i], t})
		nm := ""
		if sig := cc.Signature(); sig != nil {
			nm = sig.Results().At(i).Name()
		}
		envPost.resName = append(envPost.resName, nm)
	}
	if envPost.results == nil {
		envPost.results = []TV{}
	}
	// the executions this engine follows are the ones in which no panic is in flight (panics are
	// the business of `nopanic`): at every call it models, the callee's recover() returns nil
	envPost.vars["recovered"] = TV{"false", tyBool}
	for _, cl := range fc.Clauses {
		if (cl.Kind != "ensures" && cl.Kind != "establishes") || strings.HasPrefix(cl.Label, "local") {
			continue
		}
		t, err := envPost.evalBool(cl.E)
		if err != nil {
			g.errorf("%s: ensures of %s: %v", g.fnLabel(), label, err)
			continue
		}
		g.assume(t)
	}
	return res
}

func tvTerms(a []TV) []string {
	var out []string
	for _, x := range a {
		out = append(out, x.t)
	}
	return out
}

func unionProps(a, b []string) []string {
	seen := map[string]bool{}
	var out []string
	for _, x := range append(append([]string{}, a...), b...) {
		if !seen[x] {
			seen[x] = true
			out = append(out, x)
		}
	}
	sort.Strings(out)
	return out
}

// pureApp: application of an `extern pure` function as an uninterpreted function of its arguments.
func (g *Gen) pureApp(fc *FuncContract, args []string) (TV, error) {
	fn := g.c.fnByLabel[fc.Target]
	var sorts []string
	var rt types.Type
	if fn != nil {
		for _, p := range fn.Params {
			sorts = append(sorts, g.sortOf(p.Type()))
		}
		if fn.Signature.Results().Len() != 1 {
			return TV{}, fmt.Errorf("pure extern %s must have one result", fc.Target)
		}
		rt = fn.Signature.Results().At(0).Type()
	} else if sig := g.c.externSig(fc.Target); sig != nil {
		if sig.Recv() != nil {
			sorts = append(sorts, g.sortOf(sig.Recv().Type()))
		}
		for i := 0; i < sig.Params().Len(); i++ {
			sorts = append(sorts, g.sortOf(sig.Params().At(i).Type()))
		}
		rt = sig.Results().At(0).Type()
	} else {
		return TV{}, fmt.Errorf("pure extern %s: unknown signature", fc.Target)
	}
	if len(sorts) != len(args) {
		return TV{}, fmt.Errorf("pure extern %s: %d args, want %d", fc.Target, len(args), len(sorts))
	}
	name := g.declareFun(sym("xf."+fc.Target), sorts, g.sortOf(rt))
	t := name
	if len(args) > 0 {
		t = app(name, args...)
	}
	return TV{t, rt}, nil
}

// ---------- builtins ----------

func (g *Gen) builtin(b *ssa.Builtin, cc *ssa.CallCommon, pos token.Pos, name string) []string {
	arg := func(i int) string { return g.val(cc.Args[i]) }
	switch b.Name() {
	case "len", "cap":
		x := arg(0)
		t := types.Unalias(cc.Args[0].Type())
		switch u := t.Underlying().(type) {
		case *types.Slice:
			if b.Name() == "cap" {
				return []string{app("s_cap", x)}
			}
			return []string{app("s_len", x)}
		case *types.Array:
			return []string{numI(u.Len())}
		case *types.Pointer:
			if a, ok := u.Elem().Underlying().(*types.Array); ok {
				return []string{numI(a.Len())}
			}
		case *types.Basic:
			if isString(t) {
				return []string{app("slen", x)}
			}
		case *types.Map:
			_, _, lk := g.mapKeys(t)
			r := g.fresh("maplen", "Int")
			g.assume(app("=", r, app("ite", app("=", x, "0"), "0", app("select", g.get(g.st, lk), x))))
			g.assume(app(">=", r, "0"))
			return []string{r}
		}
		g.flag("len-generic")
		r := g.fresh("len", "Int")
		g.assume(app(">=", r, "0"))
		return []string{r}
	case "append":
		return []string{g.appendOp(cc, name)}
	case "copy":
		return []string{g.copyOp(cc)}
	case "delete":
		dk, _, lk := g.mapKeys(cc.Args[0].Type())
		m, k := arg(0), arg(1)
		d := g.get(g.st, dk)
		had := and(app("distinct", m, "0"), app("select", app("select", d, m), k))
		l := g.get(g.st, lk)
		g.set(lk, app("store", l, m, app("ite", had, app("-", app("select", l, m), "1"), app("select", l, m))))
		g.set(dk, app("store", d, m, app("store", app("select", d, m), k, "false")))
		return nil
	case "clear":
		t := types.Unalias(cc.Args[0].Type())
		if mt, ok := t.Underlying().(*types.Map); ok {
			dk, _, lk := g.mapKeys(t)
			m := arg(0)
			g.set(dk, app("store", g.get(g.st, dk), m, fmtf("((as const (Array %s Bool)) false)", g.sortOf(mt.Key()))))
			g.set(lk, app("store", g.get(g.st, lk), m, "0"))
			return nil
		}
		g.flag("clear-slice")
		g.havocAll()
		return nil
	case "min", "max":
		op := "<="
		if b.Name() == "max" {
			op = ">="
		}
		r := arg(0)
		for i := 1; i < len(cc.Args); i++ {
			r = app("ite", app(op, r, arg(i)), r, arg(i))
		}
		return []string{r}
	case "print", "println", "close":
		return nil
	case "recover":
		g.flag("recover")
		rr := g.freshResults(cc, "recover")
		if len(rr) == 1 {
			// `recovered` in this function's postconditions: this recover() call stopped a panic
			g.recoverTerm = app("distinct", rr[0], g.zero(sigResults(cc)[0]))
		}
		return rr
	case "ssa:wrapnilchk":
		g.mayPanic("nil", app("distinct", arg(0), "0"), pos)
		return []string{arg(0)}
	case "panic":
		return nil
	}
	g.flag("builtin:" + b.Name())
	return g.freshResults(cc, "bi")
}

func (g *Gen) appendOp(cc *ssa.CallCommon, name string) string {
	s := g.val(cc.Args[0])
	st := types.Unalias(cc.Args[0].Type()).Underlying().(*types.Slice)
	et := st.Elem()
	key := g.elemKey(et)
	esort := g.sortOf(et)
	E := g.get(g.st, key)
	yT := types.Unalias(cc.Args[1].Type())
	y := g.val(cc.Args[1])
	var n string
	srcAt := func(k string) string { return "" }
	if isString(yT) {
		n = app("slen", y)
		srcAt = func(k string) string { return app("sat", y, k) }
	} else {
		n = app("s_len", y)
		srcAt = func(k string) string {
			return app("select", app("select", E, app("s_arr", y)), app("+", app("s_off", y), k))
		}
	}
	newLen := g.fresh("newlen", "Int")
	g.assume(app("=", newLen, app("+", app("s_len", s), n)))
	grow := g.fresh("grow", "Bool")
	g.assume(app("=", grow, app(">", newLen, app("s_cap", s))))
	id := g.newObject("app_" + name)
	capF := g.fresh("cap", "Int")
	g.assume(app(">=", capF, newLen))
	rarr, roff, rcap := g.fresh("apparr_id", "Int"), g.fresh("appoff", "Int"), g.fresh("appcap", "Int")
	g.assume(app("=", rarr, app("ite", grow, id, app("s_arr", s))))
	g.assume(app("=", roff, app("ite", grow, "0", app("s_off", s))))
	g.assume(app("=", rcap, app("ite", grow, capF, app("s_cap", s))))
	r := app("mk_slice", rarr, roff, newLen, rcap)
	A := g.fresh("apparr", "(Array Int "+esort+")")
	mid := g.fresh("appmid", "Int")
	g.assume(app("=", mid, app("+", roff, app("s_len", s))))
	end := g.fresh("append", "Int")
	g.assume(app("=", end, app("+", roff, newLen)))
	// one fact per index j of the result's backing array (pattern: any read of A)
	oldElem := fmtf("(select (select %s (s_arr %s)) (+ (s_off %s) (- j %s)))", E, s, s, roff)
	newElem := srcAt(fmtf("(- j %s)", mid))
	inPlace := fmtf("(select (select %s (s_arr %s)) j)", E, s)
	g.assume(fmtf("(forall ((j Int)) (! (and (=> (and (<= %s j) (< j %s)) (= (select %s j) %s)) (=> (and (<= %s j) (< j %s)) (= (select %s j) %s)) (=> (and (not %s) (or (< j %s) (>= j %s))) (= (select %s j) %s))) :pattern ((select %s j))))",
		roff, mid, A, oldElem, mid, end, A, newElem, grow, roff, end, A, inPlace, A))
	// the same facts, reachable from a read of the OLD array (so that "x is in s" carries over to
	// the result without the solver having to guess an index), and the first appended element as a
	// ground fact
	g.assume(fmtf("(forall ((k Int)) (! (=> (and (<= (s_off %s) k) (< k (+ (s_off %s) (s_len %s)))) (= (select %s (+ %s (- k (s_off %s)))) (select (select %s (s_arr %s)) k))) :pattern ((select (select %s (s_arr %s)) k))))",
		s, s, s, A, roff, s, E, s, E, s))
	g.assume(fmtf("(=> (> %s (s_len %s)) (= (select %s %s) %s))", newLen, s, A, mid, srcAt("0")))
	g.set(key, app("store", E, rarr, A))
	return r
}

func (g *Gen) copyOp(cc *ssa.CallCommon) string {
	d := g.val(cc.Args[0])
	dt := types.Unalias(cc.Args[0].Type()).Underlying().(*types.Slice)
	et := dt.Elem()
	key := g.elemKey(et)
	esort := g.sortOf(et)
	E := g.get(g.st, key)
	yT := types.Unalias(cc.Args[1].Type())
	y := g.val(cc.Args[1])
	var srcLen string
	var srcAt func(k string) string
	if isString(yT) {
		srcLen = app("slen", y)
		srcAt = func(k string) string { return app("sat", y, k) }
	} else {
		srcLen = app("s_len", y)
		srcAt = func(k string) string {
			return app("select", app("select", E, app("s_arr", y)), app("+", app("s_off", y), k))
		}
	}
	n := g.fresh("copied", "Int")
	g.assume(app("=", n, app("ite", app("<=", app("s_len", d), srcLen), app("s_len", d), srcLen)))
	A := g.fresh("cparr", "(Array Int "+esort+")")
	doff := g.fresh("cpoff", "Int")
	g.assume(app("=", doff, app("s_off", d)))
	dend := g.fresh("cpend", "Int")
	g.assume(app("=", dend, app("+", doff, n)))
	g.assume(fmtf("(forall ((j Int)) (! (and (=> (and (<= %s j) (< j %s)) (= (select %s j) %s)) (=> (or (< j %s) (>= j %s)) (= (select %s j) (select (select %s (s_arr %s)) j)))) :pattern ((select %s j))))",
		doff, dend, A, srcAt(fmtf("(- j %s)", doff)), doff, dend, A, E, d, A))
	g.set(key, app("store", E, app("s_arr", d), A))
	return n
}

// ---------- postconditions and frames ----------

func (g *Gen) checkPost(res []string, pos token.Pos) {
	rn := g.retOrdinal[g.curRet]
	if rn == 0 {
		g.callOrd["ret"]++
		rn = 1000 + g.callOrd["ret"]
	}
	env := g.funcEnv(g.st, g.entry, res)
	// local variables of the function are nameable in `ensures [local...]` clauses (resolved at
	// the return point); such clauses are checked here and not assumed by callers
	env.point, env.seqMax = g.cur, g.seq+1
	if env.results == nil {
		env.results = []TV{}
	}
	if g.recoverTerm != "" {
		env.vars["recovered"] = TV{g.recoverTerm, tyBool}
	} else {
		env.vars["recovered"] = TV{"false", tyBool}
	}
	k := 0
	for _, cl := range g.fc.Clauses {
		if cl.Kind != "ensures" && cl.Kind != "objinvariant" {
			continue
		}
		k++
		if m := retSuffixRe.FindStringSubmatch(cl.Label); m != nil {
			if m[1] != fmtf("%d", rn) {
				continue // clause restricted to one return (label ..._retN, N in source order)
			}
			g.usedAxioms["rethit:"+cl.Label] = true
		}
		t, err := env.evalBool(cl.E)
		if err != nil {
			if strings.HasPrefix(cl.Label, "local") && strings.Contains(err.Error(), "unknown name") && !retSuffixRe.MatchString(cl.Label) {
				continue // the local variable is not in scope at this return
			}
			g.errorf("%s: ensures #%d: %v", g.fnLabel(), k, err)
			continue
		}
		g.usedAxioms[fmtf("posthit:%p", cl)] = true
		name := fmtf("%s/post#%d@ret%d", g.fnLabel(), k, rn)
		if cl.Label != "" {
			name = fmtf("%s/post#%s@ret%d", g.fnLabel(), cl.Label, rn)
		}
		g.oblige("post", name, t, cl.Props, cl.Text, pos)
		// later postconditions at this return may use earlier ones as lemmas (each is an
		// obligation of its own, so nothing is assumed that is not also checked)
		g.assume(t)
	}
	if g.fc.Fresh && len(res) > 0 {
		// `fresh`: the (first) result is an object allocated by this call
		g.declareFun("alloc0", []string{"Int"}, "Bool")
		rt := g.fn.Signature.Results().At(0).Type()
		t := not(app("alloc0", res[0]))
		if isSlice(rt) {
			t = not(app("alloc0", app("s_arr", res[0])))
		}
		g.oblige("post", fmtf("%s/post#fresh@ret%d", g.fnLabel(), rn), t, nil, "fresh: result is newly allocated", pos)
	}
	// frame
	envE := g.funcEnv(g.entry, g.entry, nil)
	var locs []modLoc
	for _, cl := range g.fc.Clauses {
		if cl.Kind != "modifies" {
			continue
		}
		ls, err := envE.evalMods(cl.Mods)
		if err != nil {
			g.errorf("%s: modifies: %v", g.fnLabel(), err)
			continue
		}
		locs = append(locs, ls...)
	}
	if !hasModifies(g.fc) {
		return // no frame claimed: callers havoc everything
	}
	for _, l := range locs {
		if l.all {
			return
		}
	}
	var keys []string
	for k := range g.keySort {
		if !isLocalKey(k) {
			keys = append(keys, k)
		}
	}
	sort.Strings(keys)
	for _, key := range keys {
		now, before := g.get(g.st, key), g.get(g.entry, key)
		if now == before {
			continue
		}
		g.oblige("frame", fmtf("%s/frame#%s@ret%d", g.fnLabel(), sym(key), rn), g.frameFact(key, now, before, locs, true), nil, "modifies only: "+modsText(g.fc), pos)
	}
}

func modsText(fc *FuncContract) string {
	var s []string
	for _, c := range fc.Clauses {
		if c.Kind == "modifies" {
			s = append(s, c.Text)
		}
	}
	if len(s) == 0 {
		return "nothing"
	}
	return strings.Join(s, ", ")
}

// ---------- defers ----------

func (g *Gen) runDefers(in *ssa.RunDefers) {
	for i := len(g.defers) - 1; i >= 0; i-- {
		d := g.defers[i]
		db := d.Block()
		if db == g.cur || db.Dominates(g.cur) {
			g.doCall(&d.Call, d.Pos(), "defer")
		} else if g.anc[g.cur][db] {
			g.flag("conditional-defer")
			g.havocAll()
		}
	}
}

// recoversAll: the deferred call is a function literal whose entry block calls recover(), so
// every panic raised after the defer statement is stopped in this frame.
func recoversAll(d *ssa.Defer) bool {
	var fn *ssa.Function
	switch v := d.Call.Value.(type) {
	case *ssa.MakeClosure:
		fn, _ = v.Fn.(*ssa.Function)
	case *ssa.Function:
		fn = v
	}
	if fn == nil || len(fn.Blocks) == 0 {
		return false
	}
	for _, in := range fn.Blocks[0].Instrs {
		if c, ok := in.(*ssa.Call); ok {
			if b, ok := c.Call.Value.(*ssa.Builtin); ok && b.Name() == "recover" {
				return true
			}
		}
	}
	return false
}

// ---------- axioms from the spec files ----------

func (g *Gen) emitSpecAxioms() {
	// axioms are added lazily at query-build time (see relevantAxioms)
}

// relevantAxioms evaluates the spec-file axioms that mention a ghost or extern symbol
// this function's translation has declared; iterates to a fixpoint.
func (g *Gen) relevantAxioms() []string {
	var out []string
	done := map[string]bool{}
	for changed := true; changed; {
		changed = false
		for _, ax := range g.c.axioms {
			if done[ax.Name] {
				continue
			}
			used := false
			for _, s := range g.c.axiomSyms[ax.Name] {
				if g.declSet[sym("ghost."+s)] {
					used = true
				}
				if ef, ok := g.c.specFuncs[s]; ok && g.declSet[sym("xf."+ef.Target)] {
					used = true
				}
			}
			if !used {
				continue
			}
			done[ax.Name] = true
			changed = true
			env := &Env{g: g, st: g.entry, old: g.entry, vars: map[string]TV{}}
			body := ax.Concl
			if len(ax.Vars) > 0 {
				body = &EQuant{Forall: true, Vars: ax.Vars, Body: ax.Concl}
			}
			t, err := env.evalBool(body)
			if err != nil {
				g.errorf("axiom %s: %v", ax.Name, err)
				continue
			}
			out = append(out, t)
		}
	}
	return out
}

// havocArgs forgets the heap components directly reachable (one level, by type) from the
// pointer-, slice- and map-typed arguments of a call.
func (g *Gen) havocArgs(cc *ssa.CallCommon) {
	keys := map[string]bool{}
	var vals []ssa.Value
	if !cc.IsInvoke() {
		vals = append(vals, cc.Args...)
	} else {
		vals = append(vals, cc.Args...)
	}
	for _, a := range vals {
		t := types.Unalias(a.Type())
		switch u := t.Underlying().(type) {
		case *types.Slice:
			keys[g.elemKey(u.Elem())] = true
		case *types.Map:
			d, v, l := g.mapKeys(t)
			keys[d], keys[v], keys[l] = true, true, true
		case *types.Pointer:
			pt := types.Unalias(u.Elem())
			switch pu := pt.Underlying().(type) {
			case *types.Struct:
				for i := 0; i < pu.NumFields(); i++ {
					keys[g.fieldKey(pt, i)] = true
				}
			case *types.Array:
				keys[g.elemKey(pu.Elem())] = true
			default:
				keys[g.scalarKey(pt)] = true
			}
		case *types.Interface:
			// dynamic content unknown: if the operand is a MakeInterface of a pointer, one level
			if mi, ok := a.(*ssa.MakeInterface); ok {
				if p, ok := types.Unalias(mi.X.Type()).Underlying().(*types.Pointer); ok {
					pt := types.Unalias(p.Elem())
					if pu, ok := pt.Underlying().(*types.Struct); ok {
						for i := 0; i < pu.NumFields(); i++ {
							keys[g.fieldKey(pt, i)] = true
						}
					} else if _, ok := pt.Underlying().(*types.Array); !ok {
						keys[g.scalarKey(pt)] = true
					}
				}
			}
		}
	}
	g.havocKeys(keys)
}

var retSuffixRe = regexp.MustCompile(`_ret(\d+)$`)

func hasModifies(fc *FuncContract) bool {
	for _, c := range fc.Clauses {
		if c.Kind == "modifies" {
			return true
		}
	}
	return false
}
