package main

// Regular-expression lemmas.
//
// The contract files state facts about the package-level regular expressions of the code under
// verification (e.g. "semverRegex matches exactly MAJOR.MINOR.PATCH"). Those facts are written
// against a REFERENCE pattern that appears in the contract (`regex <var> [Cxx] == `...``); the
// obligation generated here is that the pattern the code compiles today denotes the same
// language as the reference — decided by the SMT solvers' theory of regular languages over
// strings, for all strings, no bound. A refactor that keeps the language (\d -> [0-9]) still
// passes; a change of the language fails with a witness string, which is replayed on the real
// Go regexp engine (both patterns compiled with the standard library and run on the witness).
//
// Search semantics: (*Regexp).MatchString is an unanchored search, so the language compared is
// Σ* R Σ* unless R starts with \A / ^ (and/or ends with \z / $) — those anchors are supported
// at the two ends of the pattern or of each top-level alternative, nowhere else (anything else
// is a binding error: UNDECIDED, never a pass). Capture groups: the number of groups must
// agree and the language of every group's sub-pattern must agree too (this pins what
// FindStringSubmatch hands out for unambiguous patterns; it is not a proof of identical
// submatch positions for ambiguous ones, and the evidence says so).

import (
	"fmt"
	"regexp"
	"regexp/syntax"
	"strconv"
	"strings"
	"unicode"

	"golang.org/x/tools/go/ssa"
)

type RegexDecl struct {
	Var   string
	Props []string
	Ref   string
	Text  string
}

const smtMaxChar = 0x2FFFF

func smtChar(r rune) string {
	if r > smtMaxChar {
		r = smtMaxChar
	}
	return fmt.Sprintf("\"\\u{%x}\"", r)
}

func smtStrLit(rs []rune) string {
	var sb strings.Builder
	sb.WriteByte('"')
	for _, r := range rs {
		fmt.Fprintf(&sb, "\\u{%x}", r)
	}
	sb.WriteByte('"')
	return sb.String()
}

func reUnion(xs []string) string {
	if len(xs) == 0 {
		return "re.none"
	}
	if len(xs) == 1 {
		return xs[0]
	}
	return "(re.union " + strings.Join(xs, " ") + ")"
}

func reConcat(xs []string) string {
	if len(xs) == 0 {
		return "(str.to_re \"\")"
	}
	if len(xs) == 1 {
		return xs[0]
	}
	return "(re.++ " + strings.Join(xs, " ") + ")"
}

func foldOrbit(r rune) []rune {
	out := []rune{r}
	for f := unicode.SimpleFold(r); f != r; f = unicode.SimpleFold(f) {
		out = append(out, f)
	}
	return out
}

// reBody translates an anchor-free regexp/syntax tree to an SMT-LIB RegLan term.
func reBody(re *syntax.Regexp, groups map[int]string) (string, error) {
	switch re.Op {
	case syntax.OpNoMatch:
		return "re.none", nil
	case syntax.OpEmptyMatch:
		return "(str.to_re \"\")", nil
	case syntax.OpLiteral:
		if re.Flags&syntax.FoldCase != 0 {
			var parts []string
			for _, r := range re.Rune {
				var alts []string
				for _, f := range foldOrbit(r) {
					alts = append(alts, "(str.to_re "+smtChar(f)+")")
				}
				parts = append(parts, reUnion(alts))
			}
			return reConcat(parts), nil
		}
		return "(str.to_re " + smtStrLit(re.Rune) + ")", nil
	case syntax.OpCharClass:
		var alts []string
		for i := 0; i+1 < len(re.Rune); i += 2 {
			lo, hi := re.Rune[i], re.Rune[i+1]
			if lo > smtMaxChar {
				continue
			}
			if hi > smtMaxChar {
				hi = smtMaxChar
			}
			if lo == hi {
				alts = append(alts, "(str.to_re "+smtChar(lo)+")")
			} else {
				alts = append(alts, "(re.range "+smtChar(lo)+" "+smtChar(hi)+")")
			}
		}
		return reUnion(alts), nil
	case syntax.OpAnyChar:
		return "re.allchar", nil
	case syntax.OpAnyCharNotNL:
		return "(re.diff re.allchar (str.to_re \"\\u{a}\"))", nil
	case syntax.OpCapture:
		t, err := reBody(re.Sub[0], groups)
		if err != nil {
			return "", err
		}
		if groups != nil {
			groups[re.Cap] = t
		}
		return t, nil
	case syntax.OpStar, syntax.OpPlus, syntax.OpQuest:
		t, err := reBody(re.Sub[0], groups)
		if err != nil {
			return "", err
		}
		op := map[syntax.Op]string{syntax.OpStar: "re.*", syntax.OpPlus: "re.+", syntax.OpQuest: "re.opt"}[re.Op]
		return "(" + op + " " + t + ")", nil
	case syntax.OpRepeat:
		t, err := reBody(re.Sub[0], groups)
		if err != nil {
			return "", err
		}
		if re.Max < 0 {
			return "(re.++ ((_ re.loop " + strconv.Itoa(re.Min) + " " + strconv.Itoa(re.Min) + ") " + t + ") (re.* " + t + "))", nil
		}
		return "((_ re.loop " + strconv.Itoa(re.Min) + " " + strconv.Itoa(re.Max) + ") " + t + ")", nil
	case syntax.OpConcat:
		var parts []string
		for _, s := range re.Sub {
			t, err := reBody(s, groups)
			if err != nil {
				return "", err
			}
			parts = append(parts, t)
		}
		return reConcat(parts), nil
	case syntax.OpAlternate:
		var parts []string
		for _, s := range re.Sub {
			t, err := reBody(s, groups)
			if err != nil {
				return "", err
			}
			parts = append(parts, t)
		}
		return reUnion(parts), nil
	}
	return "", fmt.Errorf("unsupported regexp construct %s in %q (anchors are supported only at the two ends of the pattern or of a top-level alternative)", re.Op, re.String())
}

// reSearch: the language of strings on which an unanchored search for re succeeds.
func reSearch(re *syntax.Regexp, groups map[int]string) (string, error) {
	switch re.Op {
	case syntax.OpAlternate:
		var parts []string
		for _, s := range re.Sub {
			t, err := reSearch(s, groups)
			if err != nil {
				return "", err
			}
			parts = append(parts, t)
		}
		return reUnion(parts), nil
	case syntax.OpCapture:
		// a capture around the whole pattern: anchors may sit inside it
		if len(re.Sub) == 1 && hasAnchor(re.Sub[0]) {
			t, err := reSearch(re.Sub[0], groups)
			if err == nil && groups != nil {
				groups[re.Cap] = t
			}
			return t, err
		}
	}
	subs := []*syntax.Regexp{re}
	if re.Op == syntax.OpConcat {
		subs = re.Sub
	}
	begin, end := false, false
	for len(subs) > 0 && subs[0].Op == syntax.OpBeginText {
		begin = true
		subs = subs[1:]
	}
	for len(subs) > 0 && subs[len(subs)-1].Op == syntax.OpEndText {
		end = true
		subs = subs[:len(subs)-1]
	}
	var parts []string
	if !begin {
		parts = append(parts, "re.all")
	}
	for _, s := range subs {
		t, err := reBody(s, groups)
		if err != nil {
			return "", err
		}
		parts = append(parts, t)
	}
	if !end {
		parts = append(parts, "re.all")
	}
	return reConcat(parts), nil
}

func hasAnchor(re *syntax.Regexp) bool {
	switch re.Op {
	case syntax.OpBeginText, syntax.OpEndText, syntax.OpBeginLine, syntax.OpEndLine, syntax.OpWordBoundary, syntax.OpNoWordBoundary:
		return true
	}
	for _, s := range re.Sub {
		if hasAnchor(s) {
			return true
		}
	}
	return false
}

type regexLang struct {
	search string
	groups map[int]string
	ncap   int
}

func regexLanguage(pattern string) (*regexLang, error) {
	re, err := syntax.Parse(pattern, syntax.Perl)
	if err != nil {
		return nil, err
	}
	l := &regexLang{groups: map[int]string{}, ncap: re.MaxCap()}
	l.search, err = reSearch(re, l.groups)
	if err != nil {
		return nil, err
	}
	return l, nil
}

// codeRegexPattern finds the constant pattern a package-level regexp variable is initialised
// with: the package initialiser stores regexp.MustCompile("<const>") into it, once.
func (c *Ctx) codeRegexPattern(varName string) (string, error) {
	gv, ok := c.pkg.Members[varName].(*ssa.Global)
	if !ok {
		return "", fmt.Errorf("no package-level variable %s", varName)
	}
	var found []string
	for _, m := range c.pkg.Members {
		fn, ok := m.(*ssa.Function)
		if !ok {
			continue
		}
		var visit func(f *ssa.Function)
		visit = func(f *ssa.Function) {
			for _, b := range f.Blocks {
				for _, in := range b.Instrs {
					st, ok := in.(*ssa.Store)
					if !ok || st.Addr != ssa.Value(gv) {
						continue
					}
					call, ok := st.Val.(*ssa.Call)
					if !ok {
						found = append(found, "?")
						continue
					}
					callee := call.Call.StaticCallee()
					if callee == nil || callee.Pkg == nil || callee.Pkg.Pkg.Path() != "regexp" || (callee.Name() != "MustCompile" && callee.Name() != "Compile") || len(call.Call.Args) != 1 {
						found = append(found, "?")
						continue
					}
					k, ok := call.Call.Args[0].(*ssa.Const)
					if !ok {
						found = append(found, "?")
						continue
					}
					found = append(found, constantString(k))
				}
			}
			for _, af := range f.AnonFuncs {
				visit(af)
			}
		}
		visit(fn)
	}
	if len(found) != 1 || found[0] == "?" {
		return "", fmt.Errorf("variable %s is not initialised exactly once with regexp.MustCompile(<constant>) (%d stores found)", varName, len(found))
	}
	return found[0], nil
}

func constantString(k *ssa.Const) string {
	s := k.Value.ExactString()
	if u, err := strconv.Unquote(s); err == nil {
		return u
	}
	return s
}

func regexQuery(name, a, b string) string {
	return "(set-option :produce-models true)\n(set-logic ALL)\n; obligation: " + name + "\n(declare-const witness String)\n" +
		"(assert (not (= (str.in_re witness " + a + ") (str.in_re witness " + b + "))))\n(check-sat)\n(get-model)\n"
}

// regexObligations: one obligation for the search language and one per capture group.
func regexObligations(c *Ctx, rd *RegexDecl) ([]*Obl, error) {
	code, err := c.codeRegexPattern(rd.Var)
	if err != nil {
		return nil, err
	}
	lc, err := regexLanguage(code)
	if err != nil {
		return nil, fmt.Errorf("code pattern %q: %v", code, err)
	}
	lr, err := regexLanguage(rd.Ref)
	if err != nil {
		return nil, fmt.Errorf("reference pattern %q: %v", rd.Ref, err)
	}
	mk := func(name, a, b, what string) *Obl {
		return &Obl{Name: name, Kind: "regex", Props: rd.Props, Text: what, Seq: 1 << 30, Custom: regexQuery(name, a, b),
			RegexCode: code, RegexRef: rd.Ref}
	}
	var out []*Obl
	out = append(out, mk("regex/"+rd.Var+"/language", lc.search, lr.search,
		fmt.Sprintf("MatchString language of %s (code pattern %q) == language of the reference pattern %q", rd.Var, code, rd.Ref)))
	if lc.ncap != lr.ncap {
		out = append(out, &Obl{Name: "regex/" + rd.Var + "/groups", Kind: "regex", Props: rd.Props, Seq: 1 << 30,
			Text:   fmt.Sprintf("%s has %d capture groups in the code, %d in the reference pattern", rd.Var, lc.ncap, lr.ncap),
			Custom: "(set-logic ALL)\n(declare-const witness String)\n(assert (= witness \"\"))\n(check-sat)\n(get-model)\n", RegexCode: code, RegexRef: rd.Ref})
		return out, nil
	}
	for i := 1; i <= lr.ncap; i++ {
		out = append(out, mk(fmt.Sprintf("regex/%s/group%d", rd.Var, i), lc.groups[i], lr.groups[i],
			fmt.Sprintf("capture group %d of %s: same sub-language in the code pattern and in the reference pattern", i, rd.Var)))
	}
	return out, nil
}

var witnessRe = regexp.MustCompile(`\(define-fun witness \(\) String\s+"((?:[^"]|"")*)"\)`)

// regexWitness decodes the solver's witness string and replays it on the real regexp engine.
func regexWitness(o *Obl, model string) (bool, string) {
	m := witnessRe.FindStringSubmatch(model)
	if m == nil {
		return false, ""
	}
	raw := strings.ReplaceAll(m[1], `""`, `"`)
	// decode \u{h..} and \uhhhh escapes
	esc := regexp.MustCompile(`\\u\{([0-9a-fA-F]+)\}|\\u([0-9a-fA-F]{4})`)
	w := esc.ReplaceAllStringFunc(raw, func(s string) string {
		mm := esc.FindStringSubmatch(s)
		h := mm[1]
		if h == "" {
			h = mm[2]
		}
		n, _ := strconv.ParseInt(h, 16, 32)
		return string(rune(n))
	})
	rc, err1 := regexp.Compile(o.RegexCode)
	rr, err2 := regexp.Compile(o.RegexRef)
	if err1 != nil || err2 != nil {
		return false, fmt.Sprintf("witness %q; patterns do not compile: %v %v", w, err1, err2)
	}
	a, b := rc.MatchString(w), rr.MatchString(w)
	detail := fmt.Sprintf("input %q: regexp.MustCompile(%q).MatchString = %v, reference %q gives %v", w, o.RegexCode, a, o.RegexRef, b)
	if strings.Contains(o.Name, "/group") {
		// group sub-language witnesses are not whole inputs: report them, unconfirmed
		return false, "group witness " + detail
	}
	return a != b, detail
}
