package main

// Query construction and solver racing (DESIGN §3.7).

import (
	"bytes"
	"context"
	"crypto/sha256"
	"encoding/hex"
	"os"
	"os/exec"
	"path/filepath"
	"regexp"
	"strings"
	"sync"
	"syscall"
	"time"
)

type Result struct {
	Obl     *Obl
	Verdict string // unsat | sat | unknown
	Solver  string
	Secs    float64
	Model   string
	File    string
	Log     []string
	Agree   []string // thorough: solvers that answered unsat
}

func (o *Obl) query(withGoal bool) string {
	if o.Custom != "" {
		return o.Custom
	}
	g := o.g
	var sb strings.Builder
	sb.WriteString("(set-option :produce-models true)\n(set-logic ALL)\n")
	sb.WriteString("; obligation: " + o.Name + "\n; clause: " + strings.ReplaceAll(o.Text, "\n", " ") + "\n")
	for _, d := range g.sortDecls {
		sb.WriteString(d + "\n")
	}
	for _, d := range g.decls {
		sb.WriteString(d + "\n")
	}
	for _, f := range g.facts {
		if f.blk == nil {
			sb.WriteString("(assert " + f.s + ")\n")
		}
	}
	var onames []string
	for name := range g.opaqueDefs {
		onames = append(onames, name)
	}
	sortStrings(onames)
	for _, name := range onames {
		if g.revealed[name] && g.opaqueDefs[name] != "" {
			sb.WriteString("(assert " + g.opaqueDefs[name] + ")\n")
		}
	}
	for _, a := range g.axiomsCache {
		sb.WriteString("(assert " + a + ")\n")
	}
	anc := g.anc[o.Blk]
	for _, f := range g.facts {
		if f.blk == nil || f.seq >= o.Seq {
			continue
		}
		if f.blk == o.Blk || anc[f.blk] {
			sb.WriteString("(assert " + f.s + ")\n")
		}
	}
	if o.Blk != nil {
		sb.WriteString("(assert " + g.reach[o.Blk] + ")\n")
	}
	if withGoal {
		sb.WriteString("(assert (not " + o.Goal + "))\n")
	}
	sb.WriteString("(check-sat)\n(get-model)\n")
	return sb.String()
}

type solverSpec struct {
	name string
	argv func(file string, secs int) []string
}

var solvers = []solverSpec{
	{"z3-new", func(f string, t int) []string { return []string{"z3-new", "-T:" + itoa(t), f} }},
	{"z3", func(f string, t int) []string { return []string{"/usr/bin/z3", "-T:" + itoa(t), f} }},
	{"cvc5", func(f string, t int) []string {
		return []string{"cvc5", "--enum-inst", "--tlimit=" + itoa(t*1000), f}
	}},
}

func itoa(i int) string { return fmtf("%d", i) }

type solverAnswer struct {
	solver  string
	verdict string
	out     string
	secs    float64
}

func runSolver(ctx context.Context, sp solverSpec, file string, secs int) solverAnswer {
	start := time.Now()
	argv := sp.argv(file, secs)
	cmd := exec.CommandContext(ctx, argv[0], argv[1:]...)
	cmd.SysProcAttr = &syscall.SysProcAttr{Setpgid: true}
	cmd.Cancel = func() error { return syscall.Kill(-cmd.Process.Pid, syscall.SIGKILL) }
	var out bytes.Buffer
	cmd.Stdout = &out
	cmd.Stderr = &out
	_ = cmd.Run()
	s := out.String()
	first := strings.TrimSpace(strings.SplitN(s, "\n", 2)[0])
	v := "unknown"
	if first == "unsat" || first == "sat" {
		v = first
	} else if strings.HasPrefix(first, "(error") && !strings.Contains(first, "timeout") {
		v = "error: " + first
	}
	return solverAnswer{sp.name, v, s, time.Since(start).Seconds()}
}

// solve races the solvers on one obligation. tier: quick (first definite answer) or
// thorough (two solvers must agree on unsat, none may say sat).
func solve(o *Obl, workdir string, timeout int, thorough bool) *Result {
	q := o.query(!o.Cover)
	h := sha256.Sum256([]byte(q))
	file := filepath.Join(workdir, fileSafe(o.Name)+"."+hex.EncodeToString(h[:4])+".smt2")
	_ = os.MkdirAll(workdir, 0o755)
	_ = os.WriteFile(file, []byte(q), 0o644)
	res := &Result{Obl: o, File: file, Verdict: "unknown"}
	start := time.Now()
	ctx, cancel := context.WithCancel(context.Background())
	defer cancel()
	// Stage 0 (quick tier): the same query with every quantified ASSUMPTION dropped. Fewer
	// assumptions can only make the goal harder, so `unsat` here proves the full obligation; it
	// keeps ground goals (bounds, decisions) from drowning in quantifier instantiation.
	if !thorough && !o.Cover {
		var sb strings.Builder
		lines := strings.Split(q, "\n")
		dropped := 0
		for i, ln := range lines {
			isGoal := strings.HasPrefix(ln, "(assert (not ") && i >= len(lines)-4
			if strings.HasPrefix(ln, "(assert ") && !isGoal && (strings.Contains(ln, "(forall ") || strings.Contains(ln, "(exists ")) {
				dropped++
				continue
			}
			sb.WriteString(ln + "\n")
		}
		if dropped > 0 {
			f0 := strings.TrimSuffix(file, ".smt2") + ".qf.smt2"
			_ = os.WriteFile(f0, []byte(sb.String()), 0o644)
			a := runSolver(ctx, solvers[0], f0, 3)
			res.Log = append(res.Log, fmtf("%s[no quantified assumptions]: %s (%.2fs)", a.solver, a.verdict, a.secs))
			if a.verdict == "unsat" {
				res.Verdict, res.Solver, res.Secs = "unsat", a.solver+"(ground)", time.Since(start).Seconds()
				res.Agree = []string{a.solver}
				return res
			}
		}
	}
	answers := make(chan solverAnswer, len(solvers))
	var wg sync.WaitGroup
	launch := func(sp solverSpec) {
		wg.Add(1)
		go func() {
			defer wg.Done()
			answers <- runSolver(ctx, sp, file, timeout)
		}()
	}
	launch(solvers[0])
	launched := 1
	stagger := time.NewTimer(1500 * time.Millisecond)
	if thorough {
		stagger.Reset(0)
	}
	pending := 1
	var sats, unsats []solverAnswer
	for pending > 0 {
		select {
		case <-stagger.C:
			for launched < len(solvers) {
				launch(solvers[launched])
				launched++
				pending++
			}
		case a := <-answers:
			pending--
			res.Log = append(res.Log, fmtf("%s: %s (%.2fs)", a.solver, a.verdict, a.secs))
			switch a.verdict {
			case "unsat":
				unsats = append(unsats, a)
			case "sat":
				sats = append(sats, a)
			}
			if a.verdict == "unknown" && launched < len(solvers) {
				for launched < len(solvers) {
					launch(solvers[launched])
					launched++
					pending++
				}
			}
			if !thorough && (len(sats) > 0 || len(unsats) > 0) {
				pending = 0
			}
			if thorough && (len(sats) > 0 || len(unsats) >= 2) {
				pending = 0
			}
		}
	}
	cancel()
	go func() { wg.Wait() }()
	res.Secs = time.Since(start).Seconds()
	nerr := 0
	for _, l := range res.Log {
		if strings.Contains(l, ": error: ") {
			nerr++
		}
	}
	switch {
	case nerr > 0 && nerr == len(res.Log) && len(sats) == 0 && len(unsats) == 0:
		res.Verdict = "error"
	case len(sats) > 0 && len(unsats) > 0:
		res.Verdict = "unknown"
		res.Log = append(res.Log, "SOLVER DISAGREEMENT")
	case len(sats) > 0:
		res.Verdict, res.Solver, res.Model = "sat", sats[0].solver, sats[0].out
	case len(unsats) > 0:
		res.Verdict, res.Solver = "unsat", unsats[0].solver
		if thorough && len(unsats) < 2 {
			res.Log = append(res.Log, "only one solver proved it")
		}
		for _, u := range unsats {
			res.Agree = append(res.Agree, u.solver)
		}
	}
	return res
}

var modelRe = regexp.MustCompile(`\(define-fun ([^ ]+) \(\) ([^\n]+?)\n\s+([^\n]+)\)`)

// modelValues extracts the nullary definitions of a z3 model: name -> value text.
func modelValues(model string) map[string]string {
	out := map[string]string{}
	for _, m := range modelRe.FindAllStringSubmatch(model, -1) {
		out[m[1]] = strings.TrimSpace(m[3])
	}
	return out
}

func fileSafe(s string) string { return strings.ReplaceAll(sym(s), "/", "__") }
