package main

// Replay of solver counterexamples against the real code (DESIGN §5.3).
// Per-function replay builders are registered in replayBuilders; a function without a
// builder reports the model only (the VIOLATION line then ends with no-failing-input-found).

func tryReplay(prop string, r *Result, model map[string]string) (bool, string) {
	return false, ""
}
