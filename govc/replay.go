package main

// Replay of failed obligations against the real code (DESIGN §5.3).
//
// A replay is an in-package Go test injected with `go test -overlay` (nothing is written into
// /repo). /verif/replay_map.json maps obligation-name prefixes to hand-written replay tests in
// /verif/replays_src; the solver's model values for the function's inputs are handed to the
// test in the VERIF_MODEL environment variable (JSON: SMT constant name -> value), so a test can
// use the counterexample the solver found and fall back to its built-in witnesses otherwise.
// The replay CONFIRMS a violation iff the test fails on the current tree.

import (
	"encoding/json"
	"flag"
	"fmt"
	"os"
	"os/exec"
	"path/filepath"
	"strings"
	"time"
)

type replayEntry struct {
	Property   string `json:"property"`
	Obligation string `json:"obligation"` // prefix of the obligation name
	Test       string `json:"test"`       // file under /verif/replays_src
	Dir        string `json:"dir"`        // module directory (default /repo)
	Pkg        string `json:"pkg"`        // package pattern (default ./vgirpc)
}

func loadReplayMap(verif string) []replayEntry {
	var m []replayEntry
	b, err := os.ReadFile(filepath.Join(verif, "replay_map.json"))
	if err != nil {
		return nil
	}
	_ = json.Unmarshal(b, &m)
	return m
}

var verifDir = "/verif"

func findReplay(prop, obligation string) *replayEntry {
	var best *replayEntry
	for _, e := range loadReplayMap(verifDir) {
		e := e
		if e.Property != prop || !strings.HasPrefix(obligation, e.Obligation) {
			continue
		}
		if best == nil || len(e.Obligation) > len(best.Obligation) {
			best = &e
		}
	}
	return best
}

// runReplayTest injects the test into the package and runs it. confirmed = the test failed,
// i.e. the real code exhibits the violation.
func runReplayTest(e *replayEntry, model map[string]string) (confirmed bool, output string) {
	dir, pkg := e.Dir, e.Pkg
	if dir == "" {
		dir = "/repo"
	}
	dir = repoDir(dir)
	if pkg == "" {
		pkg = "./vgirpc"
	}
	src := filepath.Join(verifDir, "replays_src", e.Test)
	if _, err := os.Stat(src); err != nil {
		return false, "replay test missing: " + src
	}
	pkgDir := filepath.Join(dir, strings.TrimPrefix(pkg, "./"))
	tmp, err := os.MkdirTemp("", "verif-replay-")
	if err != nil {
		return false, err.Error()
	}
	defer os.RemoveAll(tmp)
	ov := map[string]map[string]string{"Replace": {filepath.Join(pkgDir, "zz_verif_replay_test.go"): src}}
	ob, _ := json.Marshal(ov)
	ovf := filepath.Join(tmp, "ov.json")
	os.WriteFile(ovf, ob, 0o644)
	mb, _ := json.Marshal(model)
	cmd := exec.Command("bash", "-c", fmt.Sprintf("ulimit -v 8000000; cd %q && go test -overlay %q -vet=off -count=1 -timeout 120s -run '^TestVerifReplay$' %s", dir, ovf, pkg))
	cmd.Env = append(os.Environ(), "VERIF_MODEL="+string(mb))
	done := make(chan struct{})
	var out []byte
	go func() { out, _ = cmd.CombinedOutput(); close(done) }()
	select {
	case <-done:
	case <-time.After(180 * time.Second):
		if cmd.Process != nil {
			cmd.Process.Kill()
		}
		return false, "replay timed out"
	}
	s := string(out)
	if len(s) > 6000 {
		s = s[:6000] + "\n...(truncated)"
	}
	failed := strings.Contains(s, "--- FAIL: TestVerifReplay")
	if !failed && !strings.Contains(s, "[build failed]") && !strings.Contains(s, "[setup failed]") && strings.Contains(s, "FAIL\t") &&
		(strings.Contains(s, "fatal error:") || strings.Contains(s, "panic:")) {
		// the test binary died (runtime fatal error or an unrecovered panic) while running the
		// witnesses against the real code: that is a failure of the code, not of the harness
		failed = true
	}
	return failed, s
}

func tryReplay(prop string, r *Result, model map[string]string) (bool, string) {
	e := findReplay(prop, r.Obl.Name)
	if e == nil {
		return false, ""
	}
	ok, out := runReplayTest(e, model)
	return ok, "replay test " + e.Test + ":\n" + out
}

// cmdReplay re-runs the replay recorded in a replay file.
func cmdReplay(args []string) int {
	fs := flag.NewFlagSet("replay", flag.ExitOnError)
	prop := fs.String("prop", "", "property id")
	file := fs.String("file", "", "replay file written by a failed check")
	fs.Parse(args)
	b, err := os.ReadFile(*file)
	if err != nil {
		fmt.Println("cannot read replay file:", err)
		return 2
	}
	var rep map[string]any
	if err := json.Unmarshal(b, &rep); err != nil {
		fmt.Println("bad replay file:", err)
		return 2
	}
	obl, _ := rep["obligation"].(string)
	fmt.Printf("obligation: %s\nclause: %v\nverdict: %v (solver %v)\nsmt query: %v\n", obl, rep["clause"], rep["verdict"], rep["solver"], rep["smt_file"])
	e := findReplay(*prop, obl)
	if e == nil {
		fmt.Println("no executable replay is registered for this obligation; the solver output is in the replay file (no-failing-input-found)")
		return 1
	}
	model := map[string]string{}
	if mi, ok := rep["model_inputs"].(map[string]any); ok {
		for k, v := range mi {
			model[k] = fmt.Sprint(v)
		}
	}
	ok, out := runReplayTest(e, model)
	fmt.Println(out)
	if ok {
		fmt.Printf("VIOLATION property=%s replay=%s\n", *prop, *file)
		return 1
	}
	fmt.Println("replay did not reproduce a failure on the current tree")
	return 0
}
