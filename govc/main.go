package main

// govc: contract-based deductive verification of Go functions via go/ssa -> SMT.
//
//   govc check -prop C34 -tier quick            decide one property
//   govc list                                   list contracts / obligations per property
//   govc dump  -func '(*ShmSegment).allocateLocked'   print SSA of a function

import (
	"go/token"
	"encoding/json"
	"flag"
	"fmt"
	"os"
	"os/exec"
	"path/filepath"
	"sort"
	"strconv"
	"strings"
	"sync"
	"sync/atomic"
	"time"

	"golang.org/x/tools/go/ssa"
)

type pkgRef struct {
	Dir     string `json:"dir"`
	Pattern string `json:"pattern"`
}

type boundedSpec struct {
	Test  string `json:"test"`  // file under /verif/bounded
	Dir   string `json:"dir"`   // module directory (default /repo)
	Pkg   string `json:"pkg"`   // package pattern (default ./vgirpc)
	Bound string `json:"bound"` // the stated bound
}

type propConf struct {
	Pkgs        []pkgRef      `json:"pkgs"`
	Residual    []string      `json:"residual"`
	Assumed     []string      `json:"assumed"`
	Bounded     []boundedSpec `json:"bounded"`
	Level       string        `json:"level"`       // evidence level (default proof)
	Explanation string        `json:"explanation"` // for level other
}

// recordedFindings: the obligation names the committed ledger lists as failing on the unchanged tree.
// Such an assertion is NOT assumed after its program point: assuming a condition that is known to be
// false there would make every later obligation on the path vacuously true.
var recordedFindings []string

func loadRecordedFindings(verif string) {
	recordedFindings = nil
	b, err := os.ReadFile(filepath.Join(verif, "known_findings.jsonl"))
	if err != nil {
		return
	}
	for _, ln := range strings.Split(string(b), "\n") {
		var k knownFinding
		if json.Unmarshal([]byte(strings.TrimSpace(ln)), &k) == nil && k.Kind == "finding" {
			recordedFindings = append(recordedFindings, k.Obligation)
		}
	}
}

func isRecordedFinding(name string) bool {
	for _, k := range recordedFindings {
		if k == name || (strings.HasSuffix(k, "*") && strings.HasPrefix(name, strings.TrimSuffix(k, "*"))) {
			return true
		}
	}
	return false
}

type knownFinding struct {
	Kind       string `json:"kind"` // finding | fixed
	Property   string `json:"property"`
	Obligation string `json:"obligation"` // obligation name (prefix match allowed with trailing *)
	What       string `json:"what"`
	Commit     string `json:"commit,omitempty"`
	Replay     string `json:"replay,omitempty"`
}

func main() {
	if len(os.Args) < 2 {
		fmt.Fprintln(os.Stderr, "usage: govc check|list|dump ...")
		os.Exit(2)
	}
	switch os.Args[1] {
	case "check":
		os.Exit(cmdCheck(os.Args[2:]))
	case "dump":
		os.Exit(cmdDump(os.Args[2:]))
	case "replay":
		os.Exit(cmdReplay(os.Args[2:]))
	default:
		fmt.Fprintln(os.Stderr, "unknown command", os.Args[1])
		os.Exit(2)
	}
}

func cmdDump(args []string) int {
	fs := flag.NewFlagSet("dump", flag.ExitOnError)
	repo := fs.String("repo", "/repo", "module directory")
	pkg := fs.String("pkg", "./vgirpc", "package pattern")
	fn := fs.String("func", "", "function label")
	fs.Parse(args)
	c, err := load(*repo, *pkg, "verif")
	if err != nil {
		fmt.Fprintln(os.Stderr, err)
		return 2
	}
	if *fn == "" {
		var ls []string
		for l := range c.fnByLabel {
			ls = append(ls, l)
		}
		sort.Strings(ls)
		for _, l := range ls {
			fmt.Println(l)
		}
		return 0
	}
	f := c.fnByLabel[*fn]
	if f == nil {
		fmt.Fprintln(os.Stderr, "no such function")
		return 2
	}
	f.WriteTo(os.Stdout)
	return 0
}

type oblReport struct {
	Name    string   `json:"name"`
	Kind    string   `json:"kind"`
	Verdict string   `json:"verdict"`
	Solver  string   `json:"solver,omitempty"`
	Secs    float64  `json:"secs"`
	Clause  string   `json:"clause,omitempty"`
	Where   string   `json:"where,omitempty"`
	Agree   []string `json:"agree,omitempty"`
}

func cmdCheck(args []string) int {
	fs := flag.NewFlagSet("check", flag.ExitOnError)
	prop := fs.String("prop", "", "property id")
	tier := fs.String("tier", "quick", "quick|thorough")
	verif := fs.String("verif", "/verif", "verification directory")
	only := fs.String("only", "", "only obligations whose name contains this")
	onlyFn := fs.String("func", "", "only this function")
	timeout := fs.Int("timeout", 20, "per-obligation solver timeout (s)")
	par := fs.Int("j", 6, "obligations in parallel")
	verbose := fs.Bool("v", false, "verbose")
	noEvidence := fs.Bool("no-evidence", false, "do not write evidence")
	audit := fs.Bool("audit", false, "consistency audit: ask cvc5 (enumerative instantiation) and z3 whether the ASSUMPTIONS of each obligation context are contradictory, instead of solving the obligations")
	fs.Parse(args)
	verifDir = *verif
	loadRecordedFindings(*verif)
	start := time.Now()
	seed := 0
	if s := os.Getenv("VERIF_SEED"); s != "" {
		seed, _ = strconv.Atoi(s)
	}
	if *prop == "" {
		fmt.Fprintln(os.Stderr, "-prop required")
		return 2
	}
	undecided := func(reason string) int {
		fmt.Printf("UNDECIDED property=%s reason=%s\n", *prop, strings.ReplaceAll(reason, "\n", " | "))
		return 2
	}
	// property configuration
	confs := map[string]propConf{}
	if b, err := os.ReadFile(filepath.Join(*verif, "props.json")); err == nil {
		if err := json.Unmarshal(b, &confs); err != nil {
			return undecided("props.json: " + err.Error())
		}
	}
	conf := confs[*prop]
	if len(conf.Pkgs) == 0 {
		conf.Pkgs = []pkgRef{{"/repo", "./vgirpc"}}
	}
	for i := range conf.Pkgs {
		conf.Pkgs[i].Dir = repoDir(conf.Pkgs[i].Dir)
	}
	var trustedFiles []string
	ms, _ := filepath.Glob(filepath.Join(*verif, "trusted", "*.spec"))
	trustedFiles = append(trustedFiles, ms...)

	workdir := filepath.Join(*verif, "work", *prop)
	if w := os.Getenv("VERIF_WORK"); w != "" {
		workdir = w
	}
	os.RemoveAll(workdir)

	var allObls []*Obl
	var gens []*Gen
	funcsUnder := []map[string]any{}
	var genErrs []string
	stale := map[string][]string{} // function label -> why its contract could not be bound to the current code
	trusted := map[string]bool{}
	unknownExt := map[string]int{}
	abstracted := map[string]int{}
	var uncheckedCallers []string
	var boundaryCallers []string
	immutNote := map[string]bool{}
	for _, pr := range conf.Pkgs {
		c, err := load(pr.Dir, pr.Pattern, "verif")
		if err != nil {
			return undecided("load " + pr.Dir + " " + pr.Pattern + ": " + err.Error())
		}
		if err := c.loadSpecs(trustedFiles); err != nil {
			return undecided("contracts: " + err.Error())
		}
		// a declaration (immutable / encapsulated) that no longer fits the code is a stale contract:
		// the property's replay witnesses decide, like for a function whose clauses cannot be bound
		if de := append(c.checkImmutables(), c.checkEncapsulated()...); len(de) > 0 {
			stale["<declarations>"] = append(stale["<declarations>"], de...)
		}
		for k := range c.immutable {
			immutNote[k] = true
		}
		// functions under contract for this property
		var labels []string
		for label, fc := range c.contracts {
			if fc.Extern || !hasProp(fc, *prop) {
				continue
			}
			labels = append(labels, label)
		}
		// modularity: a `requires` of a function verified for this property is only as good as its
		// call sites; contracted callers are verified too (their pre@ obligations count toward
		// this property), callers with no contract at all are reported as unchecked
		withReq := map[string]bool{}
		boundaryReq := map[string]bool{}
		for _, l := range labels {
			for _, cl := range c.contracts[l].Clauses {
				if cl.Kind == "requires" && containsStr(cl.Props, *prop) {
					if c.contracts[l].Boundary {
						// representation invariant of a data structure, assumed at the entry of its
						// public operations: callers outside the structure are listed, not verified
						boundaryReq[l] = true
					} else {
						withReq[l] = true
					}
				}
			}
		}
		if len(boundaryReq) > 0 {
			inL := map[string]bool{}
			for _, l := range labels {
				inL[l] = true
			}
			for callerLabel, fn := range c.fnByLabel {
				if inL[callerLabel] {
					continue
				}
				for _, b := range fn.Blocks {
					for _, in := range b.Instrs {
						if ci, ok := in.(ssa.CallInstruction); ok {
							if callee := ci.Common().StaticCallee(); callee != nil && boundaryReq[c.label(callee)] {
								boundaryCallers = append(boundaryCallers, callerLabel+" calls "+c.label(callee))
							}
						}
					}
				}
			}
		}
		if len(withReq) > 0 {
			inLabels := map[string]bool{}
			for _, l := range labels {
				inLabels[l] = true
			}
			for callerLabel, fn := range c.fnByLabel {
				callsOne := ""
				for _, b := range fn.Blocks {
					for _, in := range b.Instrs {
						if ci, ok := in.(ssa.CallInstruction); ok {
							if callee := ci.Common().StaticCallee(); callee != nil && withReq[c.label(callee)] {
								callsOne = c.label(callee)
							}
						}
					}
				}
				if callsOne == "" || inLabels[callerLabel] {
					continue
				}
				if fc2 := c.contracts[callerLabel]; fc2 != nil && !fc2.Extern {
					labels = append(labels, callerLabel)
					inLabels[callerLabel] = true
				} else {
					uncheckedCallers = append(uncheckedCallers, callerLabel+" calls "+callsOne)
				}
			}
		}
		sort.Strings(labels)
		for _, label := range labels {
			fc := c.contracts[label]
			if *onlyFn != "" && label != *onlyFn {
				continue
			}
			fn := c.fnByLabel[label]
			if fn == nil {
				if impls := c.implementersOf(label); len(impls) > 0 && hasEnsures(fc) {
					// a contract on an interface method: every implementation in this package must
					// refine it (behavioural subtyping); the obligations are named <impl>/post#iface_...
					for _, im := range impls {
						sfc := &FuncContract{Target: c.label(im), Props: fc.Props, File: fc.File}
						for _, cl := range fc.Clauses {
							if cl.Kind == "ensures" {
								cc := *cl
								cc.Label = "iface_" + label + "_" + cl.Label
								sfc.Clauses = append(sfc.Clauses, &cc)
							}
						}
						g := newGen(c, im, sfc)
						g.ifaceAlias = fc.Params
						g.run()
						if len(g.errs) > 0 {
							stale[label] = append(stale[label], g.errs...)
						}
						gens = append(gens, g)
						nob := 0
						for _, o := range g.obls {
							if containsStr(o.Props, *prop) {
								allObls = append(allObls, o)
								nob++
							}
						}
						funcsUnder = append(funcsUnder, map[string]any{"function": c.label(im) + " (refines " + label + ")", "obligations": nob})
					}
					continue
				}
				if isAbstractTarget(label) {
					continue
				}
				// a function under contract is gone: the contract file is out of date. As for every
				// other binding failure the property's replay witnesses decide (a witness that fails
				// on the code is a violation; otherwise the check is UNDECIDED)
				stale["<declarations>"] = append(stale["<declarations>"], "contract names unknown function "+label)
				continue
			}
			g := newGen(c, fn, fc)
			g.run()
			if g.pass == 2 {
				g.axiomsCache = g.relevantAxioms()
			}
			// loop ordinal sanity
			for _, cl := range fc.Clauses {
				if (cl.Kind == "invariant" || cl.Kind == "decreases" || cl.Kind == "onrepeat") && cl.Loop >= len(g.loops) {
					g.errorf("%s: contract names loop %d but the function has %d loops", label, cl.Loop, len(g.loops))
				}
			}
			for _, cl := range fc.Clauses {
				if cl.Kind != "noblock" {
					continue
				}
				props := cl.Props
				if len(props) == 0 {
					props = fc.Props
				}
				var blocking []string
				var scan func(f *ssa.Function)
				scan = func(f *ssa.Function) {
					for _, b := range f.Blocks {
						for _, in := range b.Instrs {
							switch in := in.(type) {
							case *ssa.Send:
								blocking = append(blocking, "send at "+c.fset.Position(in.Pos()).String())
							case *ssa.Select:
								if in.Blocking {
									blocking = append(blocking, "select without default at "+c.fset.Position(in.Pos()).String())
								}
							case *ssa.UnOp:
								if in.Op == token.ARROW {
									blocking = append(blocking, "receive at "+c.fset.Position(in.Pos()).String())
								}
							}
						}
					}
				}
				scan(fn)
				q := "(set-logic ALL)\n(assert false)\n(check-sat)\n"
				what := "no blocking channel operation in " + label
				if len(blocking) > 0 {
					q = "(set-logic ALL)\n(declare-const witness Int)\n(assert (= witness 0))\n(check-sat)\n(get-model)\n"
					what += ": " + strings.Join(blocking, "; ")
				}
				if containsStr(props, *prop) {
					allObls = append(allObls, &Obl{Name: label + "/noblock", Kind: "noblock", Props: props, Func: label, Text: what, Seq: 1 << 30, Custom: q})
				}
			}
			if len(g.errs) > 0 {
				// the contract no longer fits the function (a loop, variable or call it names is gone):
				// not a violation by itself. What could still be generated is solved; a failure in
				// this function counts as VIOLATION only if a replay witness fails on the real code.
				stale[label] = append(stale[label], g.errs...)
			}
			gens = append(gens, g)
			n := 0
			for _, b := range fn.Blocks {
				n += len(b.Instrs)
			}
			nob := 0
			for _, o := range g.obls {
				if containsStr(o.Props, *prop) {
					allObls = append(allObls, o)
					nob++
				}
			}
			funcsUnder = append(funcsUnder, map[string]any{"function": label, "ssa_instructions": n, "loops": len(g.loops), "obligations": nob, "nopanic": fc.NoPanic})
			for k := range g.trusted {
				trusted[k] = true
			}
			for k, v := range g.unknownExt {
				unknownExt[k] += v
			}
			for k, v := range g.abstracted {
				abstracted[label+": "+k] += v
			}
		}
		// lemmas
		for _, lm := range c.lemmas {
			if !containsStr(lm.Props, *prop) {
				continue
			}
			o, err := lemmaObligation(c, lm)
			if err != nil {
				genErrs = append(genErrs, "lemma "+lm.Name+": "+err.Error())
				continue
			}
			allObls = append(allObls, o)
		}
		// constant package-level maps (decided syntactically over the package)
		for _, cm := range c.constMaps {
			if !containsStr(cm.Props, *prop) {
				continue
			}
			if c.pkg.Members[cm.Var] == nil {
				continue // another package of this run
			}
			q := "(set-logic ALL)\n(assert false)\n(check-sat)\n"
			what := "constmap " + cm.Text
			if probs := c.checkConstMap(cm); len(probs) > 0 {
				q = "(set-logic ALL)\n(declare-const witness Int)\n(assert (= witness 0))\n(check-sat)\n(get-model)\n"
				what += ": " + strings.Join(probs, "; ")
			}
			allObls = append(allObls, &Obl{Name: "constmap/" + cm.Var, Kind: "constmap", Props: cm.Props, Text: what, Seq: 1 << 30, Custom: q})
		}
		// route tables (decided syntactically over the package)
		for i, rt := range c.routes {
			if !containsStr(rt.Props, *prop) {
				continue
			}
			q := "(set-logic ALL)\n(assert false)\n(check-sat)\n"
			what := "routetable " + rt.Text
			if probs := c.checkRouteTable(rt, *prop); len(probs) > 0 {
				// the declared table no longer fits the code: like any stale declaration, the replay
				// witnesses registered under "routetable/" decide (a new route that authenticates
				// first is not a violation; one that answers a rejected request is)
				stale["routetable"] = append(stale["routetable"], probs...)
				continue
			}
			allObls = append(allObls, &Obl{Name: fmtf("routetable/%d", i+1), Kind: "routetable", Props: rt.Props, Text: what, Seq: 1 << 30, Custom: q})
		}
		// regular-expression lemmas
		for _, rd := range c.regexes {
			if !containsStr(rd.Props, *prop) {
				continue
			}
			os, err := regexObligations(c, rd)
			if err != nil {
				genErrs = append(genErrs, "regex "+rd.Var+": "+err.Error())
				continue
			}
			allObls = append(allObls, os...)
		}
	}
	if len(genErrs) > 0 {
		return undecided(strings.Join(genErrs, "\n"))
	}
	if *only != "" {
		var f []*Obl
		for _, o := range allObls {
			if strings.Contains(o.Name, *only) {
				f = append(f, o)
			}
		}
		allObls = f
	}
	if len(allObls) == 0 && len(stale) == 0 {
		return undecided("no obligations generated for " + *prop + " (vacuous check)")
	}
	if *audit {
		return auditContexts(allObls, workdir, *par)
	}
	// solve
	results := make([]*Result, len(allObls))
	var retries int32
	var wg sync.WaitGroup
	sem := make(chan struct{}, *par)
	for i, o := range allObls {
		wg.Add(1)
		go func(i int, o *Obl) {
			defer wg.Done()
			sem <- struct{}{}
			defer func() { <-sem }()
			if isKnownFinding(*verif, *prop, o.Name) {
				// a recorded finding: one short attempt, no retry (it is reported as KNOWN-FINDING either way)
				results[i] = solve(o, workdir, 3, false)
				return
			}
			results[i] = solve(o, workdir, *timeout, *tier == "thorough")
		}(i, o)
	}
	wg.Wait()
	// second pass: an obligation no solver decided (usually a timeout on a loaded machine) is
	// tried again with three times the budget and a quarter of the parallelism, so that it does
	// not compete with the rest of the run; at most 64 of them, in obligation order
	sem2 := make(chan struct{}, max(1, *par/4))
	for i, o := range allObls {
		r := results[i]
		if r == nil || r.Verdict != "unknown" || isKnownFinding(*verif, *prop, o.Name) {
			continue
		}
		if atomic.AddInt32(&retries, 1) > 64 {
			break
		}
		wg.Add(1)
		go func(i int, o *Obl, r *Result) {
			defer wg.Done()
			sem2 <- struct{}{}
			defer func() { <-sem2 }()
			r2 := solve(o, workdir, *timeout*3, *tier == "thorough")
			r2.Log = append(r.Log, r2.Log...)
			results[i] = r2
		}(i, o, r)
	}
	wg.Wait()

	// known findings
	var known []knownFinding
	if b, err := os.ReadFile(filepath.Join(*verif, "known_findings.jsonl")); err == nil {
		for _, ln := range strings.Split(string(b), "\n") {
			ln = strings.TrimSpace(ln)
			if ln == "" {
				continue
			}
			var k knownFinding
			if err := json.Unmarshal([]byte(ln), &k); err == nil {
				known = append(known, k)
			}
		}
	}
	matchKnown := func(name string) *knownFinding {
		for i := range known {
			k := &known[i]
			if k.Kind != "finding" || k.Property != *prop {
				continue
			}
			if k.Obligation == name || (strings.HasSuffix(k.Obligation, "*") && strings.HasPrefix(name, strings.TrimSuffix(k.Obligation, "*"))) {
				return k
			}
		}
		return nil
	}

	var reports []oblReport
	staleFailed := map[string][]string{}
	var toolErrs []string
	discharged, violations, knownHits := 0, 0, 0
	solverSecs := 0.0
	bySolver := map[string]int{}
	exit := 0
	replayDir := filepath.Join(*verif, "replays", *prop)
	printedKnown := map[string]bool{}
	for _, r := range results {
		o := r.Obl
		where := ""
		if o.g != nil && o.Pos.IsValid() {
			p := o.g.c.fset.Position(o.Pos)
			where = fmt.Sprintf("%s:%d", filepath.Base(p.Filename), p.Line)
		}
		rep := oblReport{Name: o.Name, Kind: o.Kind, Verdict: r.Verdict, Solver: r.Solver, Secs: r.Secs, Clause: o.Text, Where: where, Agree: r.Agree}
		solverSecs += r.Secs
		ok := r.Verdict == "unsat"
		if o.Cover {
			ok = r.Verdict == "sat"
		}
		if ok && *tier == "thorough" && !o.Cover && len(r.Agree) < 2 {
			rep.Verdict = "unsat(1 solver)"
		}
		if ok {
			discharged++
			bySolver[r.Solver]++
		} else if k := matchKnown(o.Name); k != nil {
			knownHits++
			rep.Verdict = "known-finding"
			if !printedKnown[k.Obligation] {
				printedKnown[k.Obligation] = true
				fmt.Printf("KNOWN-FINDING: property=%s %s [obligation %s]\n", *prop, k.What, k.Obligation)
			}
		} else if r.Verdict == "error" {
			toolErrs = append(toolErrs, o.Name+": "+strings.Join(r.Log, "; "))
		} else if len(stale[o.Func]) > 0 {
			// decided below, by replay, together with the function's unbindable clauses
			staleFailed[o.Func] = append(staleFailed[o.Func], o.Name+" ("+r.Verdict+")")
			rep.Verdict = "stale-contract:" + r.Verdict
		} else {
			violations++
			exit = 1
			os.MkdirAll(replayDir, 0o755)
			rp := filepath.Join(replayDir, fileSafe(o.Name)+".json")
			suffix := writeReplay(rp, *prop, r, where)
			fmt.Printf("VIOLATION property=%s replay=%s%s\n", *prop, rp, suffix)
			fmt.Printf("  failed obligation: %s (%s) at %s: %s\n", o.Name, r.Verdict, where, o.Text)
		}
		if *verbose {
			fmt.Printf("  %-70s %-8s %-7s %.2fs %v\n", o.Name, rep.Verdict, r.Solver, r.Secs, r.Log)
		}
		reports = append(reports, rep)
	}
	// functions whose contract is out of date: run the replay witnesses registered for them
	var staleUndecided []string
	{
		var sl []string
		for l := range stale {
			sl = append(sl, l)
		}
		sort.Strings(sl)
		ranTest := map[string]bool{}
		// a witness attached to a recorded finding fails on the unchanged tree: it decides nothing here
		findingWitness := map[string]bool{}
		for _, k := range known {
			if k.Kind == "finding" && k.Replay != "" {
				findingWitness[filepath.Base(k.Replay)] = true
			}
		}
		for _, l := range sl {
			reason := strings.Join(stale[l], "; ")
			// every replay test registered for this function (under the function itself or under
			// one of its obligations) is a witness; the first that fails on the code decides
			var e *replayEntry
			confirmed := false
			out := ""
			for _, re := range loadReplayMap(verifDir) {
				re := re
				if re.Property != *prop || confirmed || ranTest[re.Test] || findingWitness[re.Test] {
					continue
				}
				if !strings.HasPrefix(re.Obligation, l+"/") && !(re.Obligation != "" && strings.HasPrefix(l+"/", re.Obligation)) {
					continue
				}
				ranTest[re.Test] = true
				if e == nil {
					e = &re
				}
				if ok, o := runReplayTest(&re, map[string]string{}); ok {
					confirmed, out, e = true, o, &re
				} else if out == "" {
					out = o
				}
			}
			if l == "<declarations>" {
				// no single function: every replay test registered for the property is a witness
				for _, re := range loadReplayMap(verifDir) {
					re := re
					if re.Property != *prop || ranTest[re.Test] || confirmed {
						continue
					}
					ranTest[re.Test] = true
					if ok, o := runReplayTest(&re, map[string]string{}); ok {
						confirmed, out, e = true, o, &re
					}
				}
			}
			if confirmed {
				violations++
				exit = 1
				os.MkdirAll(replayDir, 0o755)
				rp := filepath.Join(replayDir, "stale__"+fileSafe(l)+".json")
				rb, _ := json.MarshalIndent(map[string]any{"property": *prop, "obligation": l + "/contract-binding", "kind": "stale contract, replay witnesses",
					"contract_binding_errors": stale[l], "failed_obligations_in_function": staleFailed[l], "replayed_on_code": true,
					"failing_input": "replay test " + e.Test + ":\n" + out}, "", " ")
				os.WriteFile(rp, rb, 0o644)
				fmt.Printf("VIOLATION property=%s replay=%s\n", *prop, rp)
				fmt.Printf("  %s changed shape (%s); the property's replay witnesses fail on the real code: %s\n", l, firstLine(reason), firstLine(failLine(out)))
			} else {
				staleUndecided = append(staleUndecided, l+": "+reason)
			}
		}
	}
	if len(staleUndecided) > 0 && exit == 0 {
		return undecided("contract cannot be bound to the changed code and no replay witness fails on it: " + strings.Join(staleUndecided, " | "))
	}
	if len(toolErrs) > 0 && exit == 0 {
		return undecided("solver rejected generated queries (tool failure, not a violation): " + strings.Join(toolErrs, " | "))
	}
	// bounded stand-ins (labelled bounded, reported separately, never counted as proved)
	var boundedReports []map[string]any
	for _, bs := range conf.Bounded {
		rep, failed := runBounded(*verif, *prop, bs)
		boundedReports = append(boundedReports, rep)
		if failed {
			violations++
			exit = 1
			os.MkdirAll(replayDir, 0o755)
			rp := filepath.Join(replayDir, "bounded__"+fileSafe(bs.Test)+".json")
			rb, _ := json.MarshalIndent(map[string]any{"property": *prop, "obligation": "bounded:" + bs.Test, "kind": "bounded stand-in",
				"bound": bs.Bound, "replayed_on_code": true, "failing_input": rep["output"]}, "", " ")
			os.WriteFile(rp, rb, 0o644)
			fmt.Printf("VIOLATION property=%s replay=%s\n", *prop, rp)
			fmt.Printf("  bounded stand-in %s failed on the real code: %v\n", bs.Test, firstLine(fmt.Sprint(rep["output"])))
		}
	}
	// thorough tier: besides requiring two solvers per obligation, run every replay witness
	// registered for the property against the real code (DESIGN §12.4). The witnesses are
	// concrete executions, not proof: they are reported separately and never counted among the
	// obligations. A witness attached to a recorded finding is expected to fail and is skipped.
	var witnessReports []map[string]any
	if *tier == "thorough" && os.Getenv("VERIF_NO_WITNESS") == "" {
		findingTests := map[string]bool{}
		for _, k := range known {
			if k.Kind == "finding" && k.Property == *prop && k.Replay != "" {
				findingTests[filepath.Base(k.Replay)] = true
			}
		}
		ran := map[string]bool{}
		for _, re := range loadReplayMap(verifDir) {
			re := re
			if re.Property != *prop || ran[re.Test] {
				continue
			}
			ran[re.Test] = true
			wr := map[string]any{"test": re.Test, "label": "WITNESS (concrete executions on the real code; not counted in obligations/discharged)"}
			if findingTests[re.Test] {
				wr["result"] = "skipped: witness of a recorded finding"
				witnessReports = append(witnessReports, wr)
				continue
			}
			t0 := time.Now()
			failed, out := runReplayTest(&re, map[string]string{})
			if failed {
				// timing-sensitive witnesses must fail twice before they count
				failed, out = runReplayTest(&re, map[string]string{})
			}
			wr["wall_s"] = round2(time.Since(t0).Seconds())
			wr["result"] = map[bool]string{true: "FAILED", false: "passed"}[failed]
			if !failed && !strings.Contains(out, "ok  ") {
				wr["result"] = "did not run"
				wr["output"] = out
			}
			witnessReports = append(witnessReports, wr)
			if failed {
				violations++
				exit = 1
				os.MkdirAll(replayDir, 0o755)
				rp := filepath.Join(replayDir, "witness__"+fileSafe(re.Test)+".json")
				rb, _ := json.MarshalIndent(map[string]any{"property": *prop, "obligation": "witness:" + re.Test, "kind": "replay witness (thorough tier)",
					"replayed_on_code": true, "failing_input": "replay test " + re.Test + ":\n" + out}, "", " ")
				os.WriteFile(rp, rb, 0o644)
				fmt.Printf("VIOLATION property=%s replay=%s\n", *prop, rp)
				fmt.Printf("  replay witness %s fails on the real code: %s\n", re.Test, firstLine(failLine(out)))
			}
		}
	}
	wall := time.Since(start).Seconds()
	fmt.Printf("property %s tier %s: %d obligations, %d discharged, %d known-finding, %d violated (%.1fs wall, %.1fs solver)\n",
		*prop, *tier, len(allObls), discharged, knownHits, violations, wall, solverSecs)

	if !*noEvidence && os.Getenv("VERIF_NO_EVIDENCE") == "" {
		var samples []any
		for i, r := range reports {
			if i%maxInt(1, len(reports)/6) == 0 {
				samples = append(samples, r)
			}
		}
		var tb []string
		tb = append(tb, "govc generator: go/ssa (x/tools v0.50.0) -> SMT-LIB translation of DESIGN.md §3.3", "go/types + go/ssa front end of go1.26.8", "SMT solvers z3 5.1.0 (z3-new), z3 4.8.12, cvc5 1.0.3")
		var tl []string
		for k := range trusted {
			tl = append(tl, k)
		}
		sort.Strings(tl)
		for _, k := range tl {
			tb = append(tb, "assumed contract (trusted/*.spec): "+k)
		}
		var ue []string
		for k, v := range unknownExt {
			ue = append(ue, fmt.Sprintf("%s x%d", k, v))
		}
		sort.Strings(ue)
		var abs []string
		for k, v := range abstracted {
			abs = append(abs, fmt.Sprintf("%s x%d", k, v))
		}
		sort.Strings(abs)
		assumptions := []string{
			"integers: SMT Int with exact machine wraparound per Go type; contract arithmetic is mathematical",
			"partial correctness: termination is not proved except where a decreases obligation is listed",
			"no string or slice is longer than 2^56 elements (the length of a concatenation or conversion that would be longer is clamped there)",
			"sync.Mutex critical sections are atomic (no interleaving is modelled)",
			"Go memory safety (no unsafe in functions under contract)",
			"calls without a contract are over-approximated: results unconstrained, reachable heap havocked",
		}
		assumptions = append(assumptions, conf.Assumed...)
		sort.Strings(boundaryCallers)
		sort.Strings(uncheckedCallers)
		for k := range immutNote {
			assumptions = append(assumptions, "immutable field "+k+": checked syntactically over the package (written only into the writer's own fresh allocation); reflect/unsafe writes and concurrent publication are not considered")
		}
		if len(boundaryCallers) > 0 {
			assumptions = append(assumptions, "representation invariant assumed at the entry of the data structure's boundary operations; their outside callers are not verified: "+strings.Join(boundaryCallers, "; "))
		}
		ev := map[string]any{
			"property_id": *prop, "tier": *tier, "seed": seed, "level": levelOr(conf.Level, "proof"),
			"coverage": map[string]any{
				"obligations": len(allObls) - knownHits, "discharged": discharged,
				"known_finding_obligations":                knownHits,
				"checker_cmd":                              "./check " + *prop + " --tier " + *tier,
				"trusted_base":                             tb,
				"functions_under_contract":                 funcsUnder,
				"obligation_results":                       reports,
				"discharged_by_solver":                     bySolver,
				"solver_time_s":                            round2(solverSecs),
				"external_calls_without_contract_havocked": ue,
				"abstracted_constructs":                    abs,
				"residual_not_covered":                     conf.Residual,
				"samples":                                  samples,
				"bounded_stand_ins":                        boundedReports,
				"witness_replays":                          witnessReports,
				"callers_without_contract_whose_preconditions_are_unchecked": uncheckedCallers,
				"api_boundary_invariant_assumed_at_entry_callers_unchecked":  boundaryCallers,
				"explanation":                              conf.Explanation,
			},
			"assumptions": assumptions,
			"wall_s":      round2(wall),
			"violations":  violations,
		}
		b, _ := json.MarshalIndent(ev, "", " ")
		os.MkdirAll(filepath.Join(*verif, "evidence"), 0o755)
		os.WriteFile(filepath.Join(*verif, "evidence", *prop+".json"), b, 0o644)
	}
	return exit
}

func levelOr(a, b string) string {
	if a != "" {
		return a
	}
	return b
}

func firstLine(s string) string {
	for _, l := range strings.Split(s, "\n") {
		if strings.Contains(l, "_test.go:") {
			return strings.TrimSpace(l)
		}
	}
	if i := strings.Index(s, "\n"); i > 0 {
		return s[:i]
	}
	return s
}

// runBounded runs a bounded exhaustive stand-in (an in-package test injected by overlay) against
// the current tree. It is labelled bounded and never counted among the discharged obligations.
func runBounded(verif, prop string, bs boundedSpec) (map[string]any, bool) {
	dir, pkg := bs.Dir, bs.Pkg
	if dir == "" {
		dir = "/repo"
	}
	dir = repoDir(dir)
	if pkg == "" {
		pkg = "./vgirpc"
	}
	src := filepath.Join(verif, "bounded", bs.Test)
	rep := map[string]any{"test": bs.Test, "bound": bs.Bound, "label": "BOUNDED (not a proof; not counted in obligations/discharged)"}
	tmp, err := os.MkdirTemp("", "verif-bounded-")
	if err != nil {
		rep["output"] = err.Error()
		return rep, false
	}
	defer os.RemoveAll(tmp)
	pkgDir := filepath.Join(dir, strings.TrimPrefix(pkg, "./"))
	ov := map[string]map[string]string{"Replace": {filepath.Join(pkgDir, "zz_verif_bounded_test.go"): src}}
	ob, _ := json.Marshal(ov)
	ovf := filepath.Join(tmp, "ov.json")
	os.WriteFile(ovf, ob, 0o644)
	outf := filepath.Join(tmp, "counts.json")
	t0 := time.Now()
	cmd := exec.Command("bash", "-c", fmt.Sprintf("cd %q && go test -overlay %q -vet=off -count=1 -timeout 600s -run '^TestVerifBounded$' %s", dir, ovf, pkg))
	cmd.Env = append(os.Environ(), "VERIF_BOUNDED_OUT="+outf)
	out, _ := cmd.CombinedOutput()
	rep["wall_s"] = round2(time.Since(t0).Seconds())
	s := string(out)
	if len(s) > 4000 {
		s = s[:4000] + "\n...(truncated)"
	}
	if b, err := os.ReadFile(outf); err == nil {
		var counts map[string]any
		if json.Unmarshal(b, &counts) == nil {
			rep["counts"] = counts
		}
	}
	failed := strings.Contains(s, "--- FAIL: TestVerifBounded")
	built := strings.Contains(s, "ok  ") || failed
	rep["result"] = map[bool]string{true: "FAILED", false: "passed"}[failed]
	if !built {
		rep["result"] = "did not run"
	}
	if failed || !built {
		rep["output"] = s
	}
	return rep, failed
}

var knownCache []knownFinding
var knownLoaded bool
var knownMu sync.Mutex

// isKnownFinding: is this obligation listed as a recorded (unrepaired) finding?
func isKnownFinding(verif, prop, name string) bool {
	knownMu.Lock()
	defer knownMu.Unlock()
	if !knownLoaded {
		knownLoaded = true
		if b, err := os.ReadFile(filepath.Join(verif, "known_findings.jsonl")); err == nil {
			for _, ln := range strings.Split(string(b), "\n") {
				var k knownFinding
				if json.Unmarshal([]byte(strings.TrimSpace(ln)), &k) == nil && k.Kind == "finding" {
					knownCache = append(knownCache, k)
				}
			}
		}
	}
	for _, k := range knownCache {
		if k.Property == prop && (k.Obligation == name || (strings.HasSuffix(k.Obligation, "*") && strings.HasPrefix(name, strings.TrimSuffix(k.Obligation, "*")))) {
			return true
		}
	}
	return false
}

func round2(f float64) float64 { return float64(int(f*100+0.5)) / 100 }
func maxInt(a, b int) int {
	if a > b {
		return a
	}
	return b
}

func hasProp(fc *FuncContract, p string) bool {
	if containsStr(fc.Props, p) {
		return true
	}
	for _, c := range fc.Clauses {
		if containsStr(c.Props, p) {
			return true
		}
	}
	return false
}

func containsStr(xs []string, s string) bool {
	for _, x := range xs {
		if x == s {
			return true
		}
	}
	return false
}

// isAbstractTarget: contracts for interface methods, struct-field function values etc.
// have no body to verify.
func hasEnsures(fc *FuncContract) bool {
	for _, cl := range fc.Clauses {
		if cl.Kind == "ensures" {
			return true
		}
	}
	return false
}

func isAbstractTarget(label string) bool {
	return strings.HasPrefix(label, "field:") || strings.HasPrefix(label, "param:") || strings.HasPrefix(label, "captured:") ||
		strings.HasPrefix(label, "var:") || label == "dynamic" || (!strings.HasPrefix(label, "(") && strings.Contains(label, ".") && !strings.Contains(label, "$"))
}

// repoDir: VERIF_REPO=<dir> runs a check against a scratch copy of the repository instead of
// /repo (used by the seeded-defect selftest so that it does not touch /repo's working tree; the
// registered commands never set it).
func repoDir(d string) string {
	if r := os.Getenv("VERIF_REPO"); r != "" && (d == "/repo" || strings.HasPrefix(d, "/repo/")) {
		return r + strings.TrimPrefix(d, "/repo")
	}
	return d
}

func failLine(out string) string {
	for _, ln := range strings.Split(out, "\n") {
		t := strings.TrimSpace(ln)
		if strings.Contains(t, "_test.go:") {
			return t
		}
	}
	return out
}

func writeReplay(path, prop string, r *Result, where string) string {
	suffix := " no-failing-input-found"
	rep := map[string]any{
		"property":         prop,
		"obligation":       r.Obl.Name,
		"kind":             r.Obl.Kind,
		"clause":           r.Obl.Text,
		"where":            where,
		"verdict":          r.Verdict,
		"solver":           r.Solver,
		"solver_log":       r.Log,
		"smt_file":         r.File,
		"failing_input":    nil,
		"replayed_on_code": false,
	}
	if r.Verdict == "sat" {
		mv := modelValues(r.Model)
		inputs := map[string]string{}
		for k, v := range mv {
			if strings.HasPrefix(k, "p_") || strings.HasPrefix(k, "fv_") {
				inputs[k] = v
			}
		}
		rep["model_inputs"] = inputs
		m := r.Model
		if len(m) > 20000 {
			m = m[:20000] + "\n...(truncated)"
		}
		rep["solver_model"] = m
		if r.Obl.Kind == "regex" {
			if ok, detail := regexWitness(r.Obl, r.Model); ok {
				rep["replayed_on_code"] = true
				rep["failing_input"] = detail
				suffix = ""
			} else if detail != "" {
				rep["replay_attempt"] = detail
			}
		} else if ok, detail := tryReplay(prop, r, mv); ok {
			rep["replayed_on_code"] = true
			rep["failing_input"] = detail
			suffix = ""
		} else if detail != "" {
			rep["replay_attempt"] = detail
		}
	}
	if r.Verdict != "sat" && r.Obl.Kind != "regex" {
		// no model: the registered replay test still carries its own witnesses
		if ok, detail := tryReplay(prop, r, map[string]string{}); ok {
			rep["replayed_on_code"] = true
			rep["failing_input"] = detail
			suffix = ""
		} else if detail != "" {
			rep["replay_attempt"] = detail
		}
	}
	b, _ := json.MarshalIndent(rep, "", " ")
	os.WriteFile(path, b, 0o644)
	return suffix
}

// lemmaObligation builds a stand-alone obligation from a lemma of the contract file.
func lemmaObligation(c *Ctx, lm *Lemma) (*Obl, error) {
	g := newGen(c, nil, nil)
	g.pass = 2
	init := g.newBase(bInit)
	init.id = 0
	g.entry = &State{m: map[string]string{}, base: init}
	g.st = g.entry
	g.anc = map[*ssa.BasicBlock]map[*ssa.BasicBlock]bool{}
	env := &Env{g: g, st: g.entry, old: g.entry, vars: map[string]TV{}}
	// universally quantified variables become constants of the negated goal
	for _, v := range lm.Vars {
		ty, err := c.parseType(v.Type)
		if err != nil {
			return nil, err
		}
		name := g.declare(sym("lv_"+v.Name), g.sortOf(ty))
		vty := ty
		if isInt(ty) {
			vty = tyInt
		} else {
			g.global(g.typeFacts(name, ty))
		}
		env.vars[v.Name] = TV{name, vty}
	}
	t, err := env.evalBool(lm.Concl)
	if err != nil {
		return nil, err
	}
	if len(g.errs) > 0 {
		return nil, fmt.Errorf("%s", strings.Join(g.errs, "; "))
	}
	g.axiomsCache = g.relevantAxioms()
	o := &Obl{Name: "lemma/" + lm.Name, Kind: "lemma", Props: lm.Props, Goal: t, Text: lm.Text, g: g, Seq: 1 << 30}
	return o, nil
}

// auditContexts: the assumptions an obligation is proved under (axioms, assumed contracts, path
// facts) must themselves be satisfiable, otherwise everything is provable. The solvers race on
// every obligation with pattern-guided instantiation, which seldom stumbles over a contradiction
// between two axioms; here each distinct context (function, block, latest obligation) is handed,
// WITHOUT a goal, to cvc5 with enumerative instantiation and to z3. `unsat` = contradictory context.
func auditContexts(obls []*Obl, workdir string, par int) int {
	type key struct {
		f string
		b *ssa.BasicBlock
	}
	last := map[key]*Obl{}
	for _, o := range obls {
		if o.Custom != "" || o.g == nil || o.Cover {
			continue
		}
		k := key{o.Func, o.Blk}
		if p := last[k]; p == nil || o.Seq > p.Seq {
			last[k] = o
		}
	}
	var list []*Obl
	for _, o := range last {
		list = append(list, o)
	}
	sort.Slice(list, func(i, j int) bool { return list[i].Name < list[j].Name })
	os.MkdirAll(workdir, 0o755)
	bad := int32(0)
	var mu sync.Mutex
	var wg sync.WaitGroup
	sem := make(chan struct{}, par)
	for i, o := range list {
		wg.Add(1)
		go func(i int, o *Obl) {
			defer wg.Done()
			sem <- struct{}{}
			defer func() { <-sem }()
			q := strings.Replace(o.query(false), "(get-model)\n", "", 1)
			// include the obligation's own goal as an assumption too: later obligations assume it
			file := filepath.Join(workdir, fmtf("audit_%d.smt2", i))
			os.WriteFile(file, []byte(q), 0o644)
			for _, argv := range [][]string{{"cvc5", "--enum-inst", "--tlimit=8000", file}, {"z3-new", "-T:5", file}} {
				out, _ := exec.Command(argv[0], argv[1:]...).CombinedOutput()
				first := strings.TrimSpace(strings.SplitN(string(out), "\n", 2)[0])
				if first == "unsat" {
					// dead code (a block no execution reaches) is contradictory on ground facts alone:
					// that is a fact about the code, not about the axioms
					var sb strings.Builder
					for _, ln := range strings.Split(q, "\n") {
						if strings.HasPrefix(ln, "(assert ") && (strings.Contains(ln, "(forall ") || strings.Contains(ln, "(exists ")) {
							continue
						}
						sb.WriteString(ln + "\n")
					}
					gf := strings.TrimSuffix(file, ".smt2") + ".ground.smt2"
					os.WriteFile(gf, []byte(sb.String()), 0o644)
					gout, _ := exec.Command("z3-new", "-T:10", gf).CombinedOutput()
					os.Remove(gf)
					if strings.TrimSpace(strings.SplitN(string(gout), "\n", 2)[0]) == "unsat" {
						mu.Lock()
						fmt.Printf("unreachable block (ground facts alone are contradictory): context of %s\n", o.Name)
						mu.Unlock()
						os.Remove(file)
						return
					}
					mu.Lock()
					fmt.Printf("INCONSISTENT context of %s (%s): %s\n", o.Name, argv[0], file)
					mu.Unlock()
					atomic.AddInt32(&bad, 1)
					return
				}
			}
			os.Remove(file)
		}(i, o)
	}
	wg.Wait()
	fmt.Printf("audit: %d contexts, %d contradictory\n", len(list), bad)
	if bad > 0 {
		return 1
	}
	return 0
}
