package main

// Evaluation of contract expressions into SMT terms, in a given heap state.
// Arithmetic in contracts is mathematical (unbounded Int): no wrap, ever.

import (
	"go/token"
	"fmt"
	"go/constant"
	"go/types"
	"math/big"
	"strings"

	"golang.org/x/tools/go/ssa"
)

type TV struct {
	t  string
	ty types.Type
}

var (
	tyInt  = types.Typ[types.UntypedInt]
	tyBool = types.Typ[types.Bool]
)

type Env struct {
	g       *Gen
	vars    map[string]TV
	st, old *State
	point   *ssa.BasicBlock
	seqMax  int
	sub     map[ssa.Value]string
	results []TV
	resName []string
	fn      *ssa.Function // function whose parameter names are in scope (nil: none)
	depth   int
	args    map[string]TV // callee formals when applying a contract at a call site
}

func (e *Env) with(name string, tv TV) *Env {
	n := *e
	n.vars = map[string]TV{}
	for k, v := range e.vars {
		n.vars[k] = v
	}
	n.vars[name] = tv
	return &n
}

func (e *Env) inState(st *State) *Env {
	n := *e
	n.st = st
	return &n
}

// funcEnv: names = parameters of g.fn (+ results when given).
func (g *Gen) funcEnv(st, old *State, results []string) *Env {
	env := &Env{g: g, st: st, old: old, fn: g.fn, vars: map[string]TV{}}
	if results != nil {
		sig := g.fn.Signature
		for i := 0; i < sig.Results().Len(); i++ {
			env.results = append(env.results, TV{results[i], sig.Results().At(i).Type()})
			env.resName = append(env.resName, sig.Results().At(i).Name())
		}
	}
	return env
}

// pointEnv: names resolved at a program point (loop head / call site).
func (g *Gen) pointEnv(st *State, at *ssa.BasicBlock, sub map[ssa.Value]string) *Env {
	return &Env{g: g, st: st, old: g.entry, fn: g.fn, point: at, seqMax: g.seq + 1, sub: sub, vars: map[string]TV{}}
}

func (e *Env) evalBool(x Expr) (string, error) {
	tv, err := e.eval(x)
	if err != nil {
		return "", err
	}
	if !isBool(tv.ty) {
		return "", fmt.Errorf("expected bool, got %s in %s", tv.ty, x)
	}
	return tv.t, nil
}

func (e *Env) evalInt(x Expr) (string, error) {
	tv, err := e.eval(x)
	if err != nil {
		return "", err
	}
	return tv.t, nil
}

func (e *Env) ssaVal(v ssa.Value) string {
	if s, ok := e.sub[v]; ok {
		return s
	}
	return e.g.val(v)
}

// sameVar: the value v is a load from the cell a (so both DebugRefs denote one source variable)
func sameVar(a, v ssa.Value) bool {
	if u, ok := v.(*ssa.UnOp); ok && u.Op == token.MUL && u.X == a {
		return true
	}
	return false
}

func (e *Env) ident(name string) (TV, error) {
	g := e.g
	if tv, ok := e.vars[name]; ok {
		return tv, nil
	}
	if tv, ok := e.args[name]; ok {
		return tv, nil
	}
	if len(g.ifaceAlias) > 0 && e.args == nil && g.fn != nil {
		// verifying an implementation against its interface's contract: the contract's first
		// parameter is the interface value holding this receiver, the others are the parameters
		for i, n := range g.ifaceAlias {
			if n != name || i >= len(g.fn.Params) {
				continue
			}
			p := g.fn.Params[i]
			if i == 0 {
				g.needIface()
				return TV{app("mk_iface", g.typeTag(p.Type()), g.box(g.val(p), p.Type())), types.NewInterfaceType(nil, nil)}, nil
			}
			return TV{g.val(p), p.Type()}, nil
		}
	}
	if e.results != nil {
		if name == "result" && len(e.results) >= 1 {
			return e.results[0], nil
		}
		if strings.HasPrefix(name, "result") {
			var i int
			if _, err := fmt.Sscanf(name, "result%d", &i); err == nil && i < len(e.results) {
				return e.results[i], nil
			}
		}
		for i, n := range e.resName {
			if n == name && n != "" {
				return e.results[i], nil
			}
		}
	}
	if e.point != nil {
		// latest dominating definition of the source variable
		var best *nameRef
		for i := range g.names[name] {
			r := &g.names[name][i]
			if r.seq >= e.seqMax {
				continue
			}
			if r.blk == e.point || r.blk.Dominates(e.point) {
				if best == nil || r.seq > best.seq {
					best = r
				}
			}
		}
		if best != nil && !best.isAddr && e.fn != nil {
			// (named results and other variables that live in a cell appear as `new T (name)`)
			var cell *ssa.Alloc
			n := 0
			for _, b := range e.fn.Blocks {
				for _, in := range b.Instrs {
					if a, ok := in.(*ssa.Alloc); ok && a.Comment == name {
						cell = a
						n++
					}
				}
			}
			if n == 1 && (cell.Block() == e.point || cell.Block().Dominates(e.point)) {
				l := g.locOf(cell)
				return TV{g.loadIn(e.st, l), l.ty}, nil
			}
		}
		if best != nil && !best.isAddr {
			// the variable lives in a memory cell (captured by a literal, address taken, named
			// result written by a deferred literal): its value NOW is the content of that cell in
			// the state the expression is evaluated in, not what the last load happened to see
			for i := range g.names[name] {
				r := &g.names[name][i]
				if r.isAddr && r.seq < e.seqMax && (r.blk == e.point || r.blk.Dominates(e.point)) {
					if _, isAlloc := r.val.(*ssa.Alloc); isAlloc && sameVar(r.val, best.val) {
						best = r
						break
					}
				}
			}
		}
		if best != nil {
			if best.isAddr {
				l := g.locOf(best.val)
				return TV{g.loadIn(e.st, l), l.ty}, nil
			}
			return TV{e.ssaVal(best.val), best.val.Type()}, nil
		}
	}
	if e.fn != nil && e.point != nil {
		// a variable that lives in a cell but is never referred to by name in the source after
		// its declaration (a named result only written by `return x` and by a deferred literal)
		var cell *ssa.Alloc
		n := 0
		for _, b := range e.fn.Blocks {
			for _, in := range b.Instrs {
				if a, ok := in.(*ssa.Alloc); ok && a.Comment == name {
					cell = a
					n++
				}
			}
		}
		if n == 1 && (cell.Block() == e.point || cell.Block().Dominates(e.point)) {
			if _, known := g.vals[cell]; known {
				l := g.locOf(cell)
				return TV{g.loadIn(e.st, l), l.ty}, nil
			}
		}
	}
	if e.fn != nil {
		for _, p := range e.fn.Params {
			if p.Name() == name {
				return TV{g.val(p), p.Type()}, nil
			}
		}
		for _, p := range e.fn.FreeVars {
			if p.Name() == name {
				// free variables are pointers to the captured variable
				if _, isPtr := p.Type().Underlying().(*types.Pointer); isPtr {
					l := g.locOf(p)
					return TV{g.loadIn(e.st, l), l.ty}, nil
				}
				return TV{g.val(p), p.Type()}, nil
			}
		}
	}
	// path flag of the function under verification
	if _, ok := g.keySort["L:pathflag."+name]; ok {
		if ty, ok := g.pathVarType[name]; ok {
			return TV{g.get(e.st, "L:pathflag."+name), ty}, nil
		}
		return TV{g.get(e.st, "L:pathflag."+name), tyBool}, nil
	}
	// ghost variable
	if gd, ok := g.c.ghosts[name]; ok && gd.IsVar {
		ty, err := g.c.parseType(gd.Ret)
		if err != nil {
			return TV{}, err
		}
		key := "H:" + name
		g.keyDecl(key, g.sortOf(ty))
		return TV{g.get(e.st, key), ty}, nil
	}
	// package-level constant or variable
	if obj := g.c.tpkg.Scope().Lookup(name); obj != nil {
		switch o := obj.(type) {
		case *types.Const:
			if o.Val().Kind() == constant.Int {
				n, _ := new(big.Int).SetString(o.Val().ExactString(), 10)
				return TV{num(n), o.Type()}, nil
			}
			if o.Val().Kind() == constant.String {
				return TV{g.strLit(constant.StringVal(o.Val())), o.Type()}, nil
			}
			if o.Val().Kind() == constant.Bool {
				return TV{fmt.Sprint(constant.BoolVal(o.Val())), tyBool}, nil
			}
		case *types.Var:
			if gv, ok := g.c.pkg.Members[name].(*ssa.Global); ok {
				l := g.locOf(gv)
				return TV{g.loadIn(e.st, l), l.ty}, nil
			}
		}
	}
	return TV{}, fmt.Errorf("unknown name %q", name)
}

func parseIntLit(s string) (*big.Int, bool) {
	n := new(big.Int)
	if strings.HasPrefix(s, "0x") {
		return n.SetString(s[2:], 16)
	}
	return n.SetString(s, 10)
}

func (e *Env) eval(x Expr) (TV, error) {
	g := e.g
	switch x := x.(type) {
	case *EInt:
		n, ok := parseIntLit(x.V)
		if !ok {
			return TV{}, fmt.Errorf("bad integer %s", x.V)
		}
		return TV{num(n), tyInt}, nil
	case *EBool:
		return TV{fmt.Sprint(x.V), tyBool}, nil
	case *EStr:
		return TV{g.strLit(x.V), types.Typ[types.String]}, nil
	case *ENil:
		return TV{"0", types.Typ[types.UntypedNil]}, nil
	case *EIdent:
		return e.ident(x.Name)
	case *EUnary:
		v, err := e.eval(x.X)
		if err != nil {
			return TV{}, err
		}
		if x.Op == "!" {
			return TV{not(v.t), tyBool}, nil
		}
		if x.Op == "*" { // *p: the value a pointer points at (heap pointers; p is assumed non-nil by partial correctness)
			pt, ok := types.Unalias(v.ty).Underlying().(*types.Pointer)
			if !ok {
				return TV{}, fmt.Errorf("*%s: not a pointer", x.X)
			}
			l := g.heapLoc(v.t, pt.Elem())
			return TV{g.loadIn(e.st, l), types.Unalias(pt.Elem())}, nil
		}
		if isFloat(v.ty) {
			return TV{app("-", v.t), v.ty}, nil
		}
		return TV{app("-", v.t), tyInt}, nil
	case *EBin:
		return e.evalBin(x)
	case *ECond:
		c, err := e.evalBool(x.C)
		if err != nil {
			return TV{}, err
		}
		a, err := e.eval(x.A)
		if err != nil {
			return TV{}, err
		}
		b, err := e.eval(x.B)
		if err != nil {
			return TV{}, err
		}
		return TV{app("ite", c, a.t, b.t), a.ty}, nil
	case *EField:
		tv, err := e.evalField(x)
		return e.typed(tv), err
	case *EIndex:
		tv, err := e.evalIndex(x)
		return e.typed(tv), err
	case *ESlice:
		v, err := e.eval(x.X)
		if err != nil {
			return TV{}, err
		}
		lo := "0"
		if x.Lo != nil {
			lo, err = e.evalInt(x.Lo)
			if err != nil {
				return TV{}, err
			}
		}
		if isString(v.ty) {
			hi := app("slen", v.t)
			if x.Hi != nil {
				hi, err = e.evalInt(x.Hi)
				if err != nil {
					return TV{}, err
				}
			}
			return TV{g.ssub(v.t, lo, hi), v.ty}, nil
		}
		if !isSlice(v.ty) {
			return TV{}, fmt.Errorf("slicing non-slice %s", x.X)
		}
		hi := app("s_len", v.t)
		if x.Hi != nil {
			hi, err = e.evalInt(x.Hi)
			if err != nil {
				return TV{}, err
			}
		}
		return TV{app("mk_slice", app("s_arr", v.t), app("+", app("s_off", v.t), lo), app("-", hi, lo), app("-", app("s_cap", v.t), lo)), v.ty}, nil
	case *EQuant:
		ne := e
		var binders []string
		for _, qv := range x.Vars {
			ty, err := g.c.parseType(qv.Type)
			if err != nil {
				return TV{}, err
			}
			name := sym("q_" + qv.Name)
			binders = append(binders, fmtf("(%s %s)", name, g.sortOf(ty)))
			vty := ty
			if isInt(ty) {
				vty = tyInt
			}
			ne = ne.with(qv.Name, TV{name, vty})
		}
		body, err := ne.evalBool(x.Body)
		if err != nil {
			return TV{}, err
		}
		q := "exists"
		if x.Forall {
			q = "forall"
		}
		return TV{fmtf("(%s (%s) %s)", q, strings.Join(binders, " "), body), tyBool}, nil
	case *ETypeIs:
		v, err := e.eval(x.X)
		if err != nil {
			return TV{}, err
		}
		if !isIface(v.ty) {
			return TV{}, fmt.Errorf("typeof of non-interface %s", x.X)
		}
		ty, err := g.c.parseType(x.Type)
		if err != nil {
			return TV{}, err
		}
		var t string
		if isIface(ty) {
			fn := g.declareFun(sym("impl."+typeKey(ty)), []string{"Int"}, "Bool")
			g.implFacts(ty)
			t = and(app("distinct", app("i_tag", v.t), "0"), app(fn, app("i_tag", v.t)))
		} else {
			t = app("=", app("i_tag", v.t), g.typeTag(ty))
		}
		if x.Neg {
			t = not(t)
		}
		return TV{t, tyBool}, nil
	case *ECall:
		return e.evalCall(x)
	}
	return TV{}, fmt.Errorf("cannot evaluate %T", x)
}

func (e *Env) evalBin(x *EBin) (TV, error) {
	g := e.g
	l, err := e.eval(x.L)
	if err != nil {
		return TV{}, err
	}
	r, err := e.eval(x.R)
	if err != nil {
		return TV{}, err
	}
	switch x.Op {
	case "&&":
		return TV{and(l.t, r.t), tyBool}, nil
	case "||":
		return TV{or(l.t, r.t), tyBool}, nil
	case "==>":
		return TV{implies(l.t, r.t), tyBool}, nil
	case "<==>":
		return TV{app("=", l.t, r.t), tyBool}, nil
	case "==", "!=":
		var t string
		_, lnil := x.L.(*ENil)
		_, rnil := x.R.(*ENil)
		switch {
		case rnil && isIface(l.ty):
			t = app("=", app("i_tag", l.t), "0")
		case lnil && isIface(r.ty):
			t = app("=", app("i_tag", r.t), "0")
		case rnil && isSlice(l.ty):
			t = app("=", app("s_arr", l.t), "0")
		case lnil && isSlice(r.ty):
			t = app("=", app("s_arr", r.t), "0")
		default:
			if isFloat(l.ty) != isFloat(r.ty) {
				if isFloat(l.ty) {
					r.t = app("to_real", r.t)
				} else {
					l.t = app("to_real", l.t)
				}
			}
			t = app("=", l.t, r.t)
		}
		if x.Op == "!=" {
			t = not(t)
		}
		return TV{t, tyBool}, nil
	case "<", "<=", ">", ">=":
		if isString(l.ty) {
			return TV{}, fmt.Errorf("string ordering not supported in contracts")
		}
		if isFloat(l.ty) != isFloat(r.ty) {
			if isFloat(l.ty) {
				r.t = app("to_real", r.t)
			} else {
				l.t = app("to_real", l.t)
			}
		}
		return TV{app(x.Op, l.t, r.t), tyBool}, nil
	case "+":
		if isString(l.ty) {
			return TV{g.sconcat(l.t, r.t), l.ty}, nil
		}
		fallthrough
	case "-", "*":
		ty := types.Type(tyInt)
		if isFloat(l.ty) || isFloat(r.ty) {
			ty = types.Typ[types.Float64]
			if !isFloat(l.ty) {
				l.t = app("to_real", l.t)
			}
			if !isFloat(r.ty) {
				r.t = app("to_real", r.t)
			}
		}
		return TV{app(x.Op, l.t, r.t), ty}, nil
	case "/":
		if isFloat(l.ty) || isFloat(r.ty) {
			return TV{app("/", l.t, r.t), types.Typ[types.Float64]}, nil
		}
		return TV{app("div", l.t, r.t), tyInt}, nil
	case "%":
		return TV{app("mod", l.t, r.t), tyInt}, nil
	}
	return TV{}, fmt.Errorf("operator %s not supported", x.Op)
}

func (e *Env) evalField(x *EField) (TV, error) {
	g := e.g
	v, err := e.eval(x.X)
	if err != nil {
		return TV{}, err
	}
	t := types.Unalias(v.ty)
	if p, ok := t.Underlying().(*types.Pointer); ok {
		st := types.Unalias(p.Elem())
		su, ok := st.Underlying().(*types.Struct)
		if !ok {
			return TV{}, fmt.Errorf("%s: not a pointer to struct", x.X)
		}
		for i := 0; i < su.NumFields(); i++ {
			if su.Field(i).Name() == x.Name {
				return TV{app("select", g.get(e.st, g.fieldKey(st, i)), v.t), su.Field(i).Type()}, nil
			}
		}
		// promoted field through an embedded struct (one level)
		for i := 0; i < su.NumFields(); i++ {
			if su.Field(i).Embedded() {
				inner := TV{app("select", g.get(e.st, g.fieldKey(st, i)), v.t), su.Field(i).Type()}
				if r, err := e.fieldOf(inner, x.Name); err == nil {
					return r, nil
				}
			}
		}
		return TV{}, fmt.Errorf("no field %s in %s", x.Name, st)
	}
	return e.fieldOf(v, x.Name)
}

func (e *Env) fieldOf(v TV, name string) (TV, error) {
	g := e.g
	t := types.Unalias(v.ty)
	if p, ok := t.Underlying().(*types.Pointer); ok {
		st := types.Unalias(p.Elem())
		if su, ok := st.Underlying().(*types.Struct); ok {
			for i := 0; i < su.NumFields(); i++ {
				if su.Field(i).Name() == name {
					return TV{app("select", g.get(e.st, g.fieldKey(st, i)), v.t), su.Field(i).Type()}, nil
				}
			}
		}
		return TV{}, fmt.Errorf("no field %s", name)
	}
	su, ok := t.Underlying().(*types.Struct)
	if !ok {
		return TV{}, fmt.Errorf("field %s of non-struct %s", name, t)
	}
	sn := g.sortOf(t)
	for i := 0; i < su.NumFields(); i++ {
		if su.Field(i).Name() == name {
			return TV{app(g.fieldAcc(sn, su, i), v.t), su.Field(i).Type()}, nil
		}
	}
	return TV{}, fmt.Errorf("no field %s in %s", name, t)
}

func (e *Env) evalIndex(x *EIndex) (TV, error) {
	g := e.g
	v, err := e.eval(x.X)
	if err != nil {
		return TV{}, err
	}
	i, err := e.eval(x.I)
	if err != nil {
		return TV{}, err
	}
	t := types.Unalias(v.ty)
	switch u := t.Underlying().(type) {
	case *types.Slice:
		k := g.elemKey(u.Elem())
		return TV{app("select", app("select", g.get(e.st, k), app("s_arr", v.t)), app("+", app("s_off", v.t), i.t)), u.Elem()}, nil
	case *types.Array:
		return TV{app("select", v.t, i.t), u.Elem()}, nil
	case *types.Basic:
		if isString(t) {
			return TV{app("sat", v.t, i.t), types.Typ[types.Uint8]}, nil
		}
	case *types.Map:
		_, vk, _ := g.mapKeys(t)
		return TV{app("select", app("select", g.get(e.st, vk), v.t), i.t), u.Elem()}, nil
	case *types.Pointer:
		if arr, ok := u.Elem().Underlying().(*types.Array); ok {
			k := g.elemKey(arr.Elem())
			return TV{app("select", app("select", g.get(e.st, k), v.t), i.t), arr.Elem()}, nil
		}
	}
	return TV{}, fmt.Errorf("cannot index %s (type %s)", x.X, t)
}

var castNames = map[string]bool{"int": true, "int8": true, "int16": true, "int32": true, "int64": true,
	"uint": true, "uint8": true, "uint16": true, "uint32": true, "uint64": true, "byte": true, "uintptr": true}

func (e *Env) evalCall(x *ECall) (TV, error) {
	g := e.g
	argv := func(i int) (TV, error) {
		if i >= len(x.Args) {
			return TV{}, fmt.Errorf("%s: missing argument %d", x.Fn, i)
		}
		return e.eval(x.Args[i])
	}
	switch x.Fn {
	case "old":
		return e.inState(e.old).eval(x.Args[0])
	case "len", "cap":
		v, err := argv(0)
		if err != nil {
			return TV{}, err
		}
		t := types.Unalias(v.ty)
		switch u := t.Underlying().(type) {
		case *types.Slice:
			if x.Fn == "cap" {
				return TV{app("s_cap", v.t), tyInt}, nil
			}
			return TV{app("s_len", v.t), tyInt}, nil
		case *types.Array:
			return TV{numI(u.Len()), tyInt}, nil
		case *types.Basic:
			if isString(t) {
				return TV{app("slen", v.t), tyInt}, nil
			}
		case *types.Map:
			_, _, lk := g.mapKeys(t)
			return TV{app("select", g.get(e.st, lk), v.t), tyInt}, nil
		}
		return TV{}, fmt.Errorf("len of %s", t)
	case "has":
		m, err := argv(0)
		if err != nil {
			return TV{}, err
		}
		k, err := argv(1)
		if err != nil {
			return TV{}, err
		}
		dk, _, _ := g.mapKeys(m.ty)
		return TV{and(app("distinct", m.t, "0"), app("select", app("select", g.get(e.st, dk), m.t), k.t)), tyBool}, nil
	case "arr", "off":
		v, err := argv(0)
		if err != nil {
			return TV{}, err
		}
		return TV{app("s_"+x.Fn, v.t), tyInt}, nil
	case "fresh":
		v, err := argv(0)
		if err != nil {
			return TV{}, err
		}
		g.declareFun("alloc0", []string{"Int"}, "Bool")
		if isSlice(v.ty) {
			return TV{not(app("alloc0", app("s_arr", v.t))), tyBool}, nil
		}
		return TV{not(app("alloc0", v.t)), tyBool}, nil
	case "str":
		v, err := argv(0)
		if err != nil {
			return TV{}, err
		}
		if !isSlice(v.ty) {
			return TV{}, fmt.Errorf("str() of non-slice")
		}
		return TV{g.strOfBytes(e.st, v.t, v.ty), types.Typ[types.String]}, nil
	case "iface": // iface(x): the interface value holding x with x's static type as dynamic type
		v, err := argv(0)
		if err != nil {
			return TV{}, err
		}
		if isIface(v.ty) {
			return v, nil
		}
		g.needIface()
		return TV{app("mk_iface", g.typeTag(v.ty), g.box(v.t, v.ty)), types.Universe.Lookup("any").Type()}, nil
	case "as": // as(x, "*T"): the payload of interface x viewed as a T (meaningful when typeof(x) == T)
		v, err := argv(0)
		if err != nil {
			return TV{}, err
		}
		s, ok := x.Args[1].(*EStr)
		if !ok || !isIface(v.ty) {
			return TV{}, fmt.Errorf("as(x, \"T\") needs an interface value and a type name string")
		}
		ty, err := g.c.parseType(s.V)
		if err != nil {
			return TV{}, err
		}
		return TV{g.unbox(app("i_val", v.t), ty), ty}, nil
	case "embedded": // embedded(x, "f"): the address of field f of the struct x points at (&x.f)
		v, err := argv(0)
		if err != nil {
			return TV{}, err
		}
		fs, ok := x.Args[1].(*EStr)
		pt, isPtr := types.Unalias(v.ty).Underlying().(*types.Pointer)
		if !ok || !isPtr {
			return TV{}, fmt.Errorf("embedded(x, \"field\") needs a pointer to a struct and a field name")
		}
		su, isStruct := types.Unalias(pt.Elem()).Underlying().(*types.Struct)
		if !isStruct {
			return TV{}, fmt.Errorf("embedded: %s is not a struct", pt.Elem())
		}
		for i := 0; i < su.NumFields(); i++ {
			if su.Field(i).Name() == fs.V {
				return TV{g.fieldPtr(types.Unalias(pt.Elem()), fs.V, v.t), types.NewPointer(su.Field(i).Type())}, nil
			}
		}
		return TV{}, fmt.Errorf("embedded: no field %s", fs.V)
	case "recoverArmed": // a deferred closure that calls recover() unconditionally is registered on every path to here
		for _, d := range g.defers {
			db := d.Block()
			if db != g.cur && !db.Dominates(g.cur) {
				continue
			}
			if recoversAll(d) {
				return TV{"true", tyBool}, nil
			}
		}
		return TV{"false", tyBool}, nil
	case "foreign": // dynamic type is not one of the types this package's code names
		v, err := argv(0)
		if err != nil {
			return TV{}, err
		}
		return TV{app(">", app("i_tag", v.t), "1000000"), tyBool}, nil
	case "tag":
		v, err := argv(0)
		if err != nil {
			return TV{}, err
		}
		return TV{app("i_tag", v.t), tyInt}, nil
	case "min", "max":
		a, err := argv(0)
		if err != nil {
			return TV{}, err
		}
		b, err := argv(1)
		if err != nil {
			return TV{}, err
		}
		op := "<="
		if x.Fn == "max" {
			op = ">="
		}
		return TV{app("ite", app(op, a.t, b.t), a.t, b.t), tyInt}, nil
	case "abs":
		a, err := argv(0)
		if err != nil {
			return TV{}, err
		}
		return TV{app("ite", app(">=", a.t, "0"), a.t, app("-", a.t)), tyInt}, nil
	case "real":
		a, err := argv(0)
		if err != nil {
			return TV{}, err
		}
		if isFloat(a.ty) {
			return a, nil
		}
		return TV{app("to_real", a.t), types.Typ[types.Float64]}, nil
	case "wrap": // wrap(x, "uint64"): machine truncation of a mathematical value
		a, err := argv(0)
		if err != nil {
			return TV{}, err
		}
		s, ok := x.Args[1].(*EStr)
		if !ok {
			return TV{}, fmt.Errorf("wrap needs a type name string")
		}
		ty, err := g.c.parseType(s.V)
		if err != nil {
			return TV{}, err
		}
		return TV{wrapTerm(a.t, ty, false), tyInt}, nil
	}
	if castNames[x.Fn] && len(x.Args) == 1 {
		a, err := argv(0)
		if err != nil {
			return TV{}, err
		}
		return TV{a.t, tyInt}, nil
	}
	if pf, ok := g.c.pures[x.Fn]; ok {
		if pf.Opaque {
			return e.opaqueApp(pf, x)
		}
		return e.expandPure(pf, x)
	}
	if gd, ok := g.c.ghosts[x.Fn]; ok && !gd.IsVar {
		var args, sorts []string
		for i := range x.Args {
			a, err := argv(i)
			if err != nil {
				return TV{}, err
			}
			args = append(args, a.t)
			if i < len(gd.Params) {
				pt, err := g.c.parseType(gd.Params[i].Type)
				if err != nil {
					return TV{}, err
				}
				sorts = append(sorts, g.sortOf(pt))
				if as := g.sortOf(a.ty); as != g.sortOf(pt) && !(g.sortOf(pt) == "Int" && as == "Int") {
					// the code's types changed under the contract: a binding error, not a query the solver rejects
					return TV{}, fmt.Errorf("ghost %s: argument %d has type %s, the declaration wants %s", x.Fn, i+1, a.ty, gd.Params[i].Type)
				}
			}
		}
		if len(args) != len(gd.Params) {
			return TV{}, fmt.Errorf("ghost %s: wrong argument count", x.Fn)
		}
		rt, err := g.c.parseType(gd.Ret)
		if err != nil {
			return TV{}, err
		}
		fn := g.declareFun(sym("ghost."+x.Fn), sorts, g.sortOf(rt))
		if len(args) == 0 {
			return TV{fn, rt}, nil
		}
		if isInt(rt) {
			rt = tyInt
		}
		return TV{app(fn, args...), rt}, nil
	}
	// extern pure functions usable in specs by their registered spec name
	if ef, ok := g.c.specFuncs[x.Fn]; ok {
		var args []string
		for i := range x.Args {
			a, err := argv(i)
			if err != nil {
				return TV{}, err
			}
			args = append(args, a.t)
		}
		return g.pureApp(ef, args)
	}
	return TV{}, fmt.Errorf("unknown function %s in contract", x.Fn)
}

func (e *Env) expandPure(pf *PureFunc, x *ECall) (TV, error) {
	if e.depth > 24 {
		return TV{}, fmt.Errorf("pure function expansion too deep (recursive?) at %s", pf.Name)
	}
	if len(x.Args) != len(pf.Params) {
		return TV{}, fmt.Errorf("%s: expected %d arguments", pf.Name, len(pf.Params))
	}
	ne := *e
	ne.depth++
	ne.vars = map[string]TV{}
	for k, v := range e.vars {
		// quantifier-bound variables of the caller remain visible only through arguments
		_ = k
		_ = v
	}
	for i, p := range pf.Params {
		a, err := e.eval(x.Args[i])
		if err != nil {
			return TV{}, err
		}
		ne.vars[p.Name] = a
	}
	// inside a pure function only its parameters (and package constants / ghost state) are visible
	ne.fn = nil
	ne.point = nil
	ne.results = nil
	ne.args = nil
	r, err := ne.eval(pf.Body)
	if err != nil {
		return TV{}, fmt.Errorf("in %s: %v", pf.Name, err)
	}
	rt, err := e.g.c.parseType(pf.Ret)
	if err == nil {
		if isInt(rt) {
			r.ty = tyInt
		} else {
			r.ty = rt
		}
	}
	return r, nil
}

// ---------- modifies locations ----------

type modLoc struct {
	key    string
	ref    string // object id ("" for whole-key components such as globals/ghost vars)
	lo, hi string // element range for E: keys ("" = not a range)
	all    bool
}

func (e *Env) evalMods(xs []Expr) ([]modLoc, error) {
	var out []modLoc
	for _, x := range xs {
		ms, err := e.evalMod(x)
		if err != nil {
			return nil, err
		}
		out = append(out, ms...)
	}
	return out, nil
}

func (e *Env) evalMod(x Expr) ([]modLoc, error) {
	g := e.g
	if id, ok := x.(*EIdent); ok {
		if id.Name == "everything" {
			return []modLoc{{all: true}}, nil
		}
		if gd, ok := g.c.ghosts[id.Name]; ok && gd.IsVar {
			ty, err := g.c.parseType(gd.Ret)
			if err != nil {
				return nil, err
			}
			g.keyDecl("H:"+id.Name, g.sortOf(ty))
			return []modLoc{{key: "H:" + id.Name}}, nil
		}
	}
	if u, ok := x.(*EUnary); ok && u.Op == "*" {
		return e.evalMod(u.X) // `modifies *p` and `modifies p` both name what p points at
	}
	switch x := x.(type) {
	case *EField:
		v, err := e.eval(x.X)
		if err != nil {
			return nil, err
		}
		p, ok := types.Unalias(v.ty).Underlying().(*types.Pointer)
		if !ok {
			return nil, fmt.Errorf("modifies %s: base is not a pointer", x)
		}
		st := types.Unalias(p.Elem())
		su := st.Underlying().(*types.Struct)
		for i := 0; i < su.NumFields(); i++ {
			if su.Field(i).Name() == x.Name {
				return []modLoc{{key: g.fieldKey(st, i), ref: v.t}}, nil
			}
		}
		return nil, fmt.Errorf("modifies %s: no such field", x)
	case *EIndex:
		v, err := e.eval(x.X)
		if err != nil {
			return nil, err
		}
		i, err := e.evalInt(x.I)
		if err != nil {
			return nil, err
		}
		if sl, ok := types.Unalias(v.ty).Underlying().(*types.Slice); ok {
			at := app("+", app("s_off", v.t), i)
			return []modLoc{{key: g.elemKey(sl.Elem()), ref: app("s_arr", v.t), lo: at, hi: app("+", at, "1")}}, nil
		}
		if isMap(v.ty) {
			dk, vk, lk := g.mapKeys(v.ty)
			return []modLoc{{key: dk, ref: v.t}, {key: vk, ref: v.t}, {key: lk, ref: v.t}}, nil
		}
		return nil, fmt.Errorf("modifies %s: unsupported", x)
	}
	v, err := e.eval(x)
	if err != nil {
		return nil, err
	}
	t := types.Unalias(v.ty)
	switch u := t.Underlying().(type) {
	case *types.Slice:
		lo := app("s_off", v.t)
		return []modLoc{{key: g.elemKey(u.Elem()), ref: app("s_arr", v.t), lo: lo, hi: app("+", lo, app("s_len", v.t))}}, nil
	case *types.Map:
		dk, vk, lk := g.mapKeys(t)
		return []modLoc{{key: dk, ref: v.t}, {key: vk, ref: v.t}, {key: lk, ref: v.t}}, nil
	case *types.Pointer:
		pt := types.Unalias(u.Elem())
		if su, ok := pt.Underlying().(*types.Struct); ok {
			var out []modLoc
			for i := 0; i < su.NumFields(); i++ {
				out = append(out, modLoc{key: g.fieldKey(pt, i), ref: v.t})
			}
			return out, nil
		}
		if arr, ok := pt.Underlying().(*types.Array); ok {
			return []modLoc{{key: g.elemKey(arr.Elem()), ref: v.t, lo: "0", hi: numI(arr.Len())}}, nil
		}
		return []modLoc{{key: g.scalarKey(pt), ref: v.t}}, nil
	}
	return nil, fmt.Errorf("modifies %s: unsupported location of type %s", x, t)
}

// frameFact: `now` equals `before` for component key outside the listed locations.
// onlyAllocated restricts the claim to objects that existed at function entry.
func (g *Gen) frameFact(key, now, before string, locs []modLoc, onlyAllocated bool) string {
	srt := g.keySort[key]
	var mine []modLoc
	for _, l := range locs {
		if l.key == key {
			mine = append(mine, l)
		}
	}
	if !strings.HasPrefix(srt, "(Array Int") { // whole-value component
		if len(mine) > 0 {
			return "true"
		}
		return app("=", now, before)
	}
	guard := "true"
	if onlyAllocated {
		g.declareFun("alloc0", []string{"Int"}, "Bool")
		guard = "(alloc0 fr_a)"
	}
	if strings.HasPrefix(key, "E:") {
		var ex []string
		for _, l := range mine {
			if l.lo == "" {
				ex = append(ex, app("=", "fr_a", l.ref))
			} else {
				ex = append(ex, and(app("=", "fr_a", l.ref), app("<=", l.lo, "fr_k"), app("<", "fr_k", l.hi)))
			}
		}
		return fmtf("(forall ((fr_a Int) (fr_k Int)) (! (=> %s (= (select (select %s fr_a) fr_k) (select (select %s fr_a) fr_k))) :pattern ((select (select %s fr_a) fr_k))))",
			and(guard, not(or(ex...))), now, before, now)
	}
	var ex []string
	for _, l := range mine {
		ex = append(ex, app("=", "fr_a", l.ref))
	}
	return fmtf("(forall ((fr_a Int)) (! (=> %s (= (select %s fr_a) (select %s fr_a))) :pattern ((select %s fr_a))))",
		and(guard, not(or(ex...))), now, before, now)
}

// opaqueApp: an opaque pure function is an uninterpreted function of its arguments and of the
// heap components its body reads; the definition is available only where `reveal`ed.
func (e *Env) opaqueApp(pf *PureFunc, x *ECall) (TV, error) {
	g := e.g
	if len(x.Args) != len(pf.Params) {
		return TV{}, fmt.Errorf("%s: expected %d arguments", pf.Name, len(pf.Params))
	}
	var args []TV
	for i := range x.Args {
		a, err := e.eval(x.Args[i])
		if err != nil {
			return TV{}, err
		}
		args = append(args, a)
	}
	// discover the heap components the body depends on
	saved := g.recording
	g.recording = map[string]bool{}
	probe := *e
	probe.depth++
	probe.vars = map[string]TV{}
	probe.fn, probe.point, probe.results, probe.args = nil, nil, nil, nil
	for i, p := range pf.Params {
		probe.vars[p.Name] = args[i]
	}
	body, err := probe.eval(pf.Body)
	deps := g.recording
	g.recording = saved
	if saved != nil {
		for k := range deps {
			saved[k] = true
		}
	}
	if err != nil {
		return TV{}, fmt.Errorf("in %s: %v", pf.Name, err)
	}
	var keys []string
	for k := range deps {
		keys = append(keys, k)
	}
	sortStrings(keys)
	rt, err := g.c.parseType(pf.Ret)
	if err != nil {
		return TV{}, err
	}
	var sorts, actual []string
	for _, k := range keys {
		sorts = append(sorts, g.keySort[k])
		actual = append(actual, g.get(e.st, k))
	}
	var ptypes []types.Type
	for _, p := range pf.Params {
		pt, err := g.c.parseType(p.Type)
		if err != nil {
			return TV{}, err
		}
		ptypes = append(ptypes, pt)
		sorts = append(sorts, g.sortOf(pt))
	}
	for _, a := range args {
		actual = append(actual, a.t)
	}
	fn := g.declareFun(sym("op."+pf.Name), sorts, g.sortOf(rt))
	if _, done := g.opaqueDefs[pf.Name]; !done {
		// definitional axiom over bound heap components and parameters
		st := &State{m: map[string]string{}, base: g.entry.base}
		var binders, bvars []string
		for i, k := range keys {
			v := fmtf("od_h%d", i)
			st.m[k] = v
			binders = append(binders, fmtf("(%s %s)", v, g.keySort[k]))
			bvars = append(bvars, v)
		}
		de := &Env{g: g, st: st, old: st, vars: map[string]TV{}, depth: e.depth + 1}
		for i, p := range pf.Params {
			v := fmtf("od_p%d", i)
			binders = append(binders, fmtf("(%s %s)", v, g.sortOf(ptypes[i])))
			bvars = append(bvars, v)
			vt := ptypes[i]
			if isInt(vt) {
				vt = tyInt
			}
			de.vars[p.Name] = TV{v, vt}
		}
		g.opaqueDefs[pf.Name] = "" // guard against recursion
		db, err := de.eval(pf.Body)
		if err != nil {
			return TV{}, fmt.Errorf("in %s: %v", pf.Name, err)
		}
		lhs := app(fn, bvars...)
		g.opaqueDefs[pf.Name] = fmtf("(forall (%s) (! (= %s %s) :pattern (%s)))", strings.Join(binders, " "), lhs, db.t, lhs)
	}
	_ = body
	r := TV{app(fn, actual...), rt}
	if isInt(rt) {
		r.ty = tyInt
	}
	return r, nil
}

func sortStrings(xs []string) {
	for i := 1; i < len(xs); i++ {
		for j := i; j > 0 && xs[j] < xs[j-1]; j-- {
			xs[j], xs[j-1] = xs[j-1], xs[j]
		}
	}
}

// typed: every memory cell of an integer (or slice) type holds a value of that type. For ground
// terms read from the heap in a contract this is asserted as a global fact.
func (e *Env) typed(tv TV) TV {
	if tv.ty == nil || tv.t == "" {
		return tv
	}
	if e.g.recording != nil {
		return tv // probing an opaque function body: no facts
	}
	if !(isInt(tv.ty) || isSlice(tv.ty)) || tv.ty == tyInt {
		return tv
	}
	if strings.Contains(tv.t, "q_") || strings.Contains(tv.t, "od_") || strings.Contains(tv.t, "fr_") {
		return tv
	}
	key := "typed:" + tv.t
	if !e.g.usedAxioms[key] {
		e.g.usedAxioms[key] = true
		if f := e.g.typeFacts(tv.t, tv.ty); f != "true" {
			e.g.global(f)
		}
	}
	return tv
}
