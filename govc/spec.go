package main

// Contract language: lexer, Pratt parser, AST, and the contract-file reader.
//
// Contracts live in comment-only Go files (build tag `verif`) inside /repo and in
// /verif/trusted/*.spec for external functions. Every line that starts with `//@`
// contributes its remainder to one token stream per file; declarations are
// keyword-led, so line breaks carry no meaning.

import (
	"fmt"
	"os"
	"strconv"
	"strings"
	"unicode"
)

// ---------- AST ----------

type Expr interface{ String() string }

type (
	EInt   struct{ V string }
	EBool  struct{ V bool }
	EStr   struct{ V string }
	ENil   struct{}
	EIdent struct{ Name string }
	EUnary struct {
		Op string
		X  Expr
	}
	EBin struct {
		Op   string
		L, R Expr
	}
	ECond struct{ C, A, B Expr }
	ECall struct {
		Fn   string
		Args []Expr
	}
	EIndex struct{ X, I Expr }
	ESlice struct{ X, Lo, Hi Expr } // Lo/Hi may be nil
	EField struct {
		X    Expr
		Name string
	}
	EQuant struct {
		Forall bool
		Vars   []QVar
		Body   Expr
	}
	ETypeIs struct { // typeof(x) == T  /  typeof(x) != T
		X    Expr
		Type string
		Neg  bool
	}
)

type QVar struct{ Name, Type string }

func (e *EInt) String() string   { return e.V }
func (e *EBool) String() string  { return fmt.Sprint(e.V) }
func (e *EStr) String() string   { return strconv.Quote(e.V) }
func (e *ENil) String() string   { return "nil" }
func (e *EIdent) String() string { return e.Name }
func (e *EUnary) String() string { return e.Op + e.X.String() }
func (e *EBin) String() string   { return "(" + e.L.String() + " " + e.Op + " " + e.R.String() + ")" }
func (e *ECond) String() string {
	return "(" + e.C.String() + " ? " + e.A.String() + " : " + e.B.String() + ")"
}
func (e *ECall) String() string {
	var a []string
	for _, x := range e.Args {
		a = append(a, x.String())
	}
	return e.Fn + "(" + strings.Join(a, ", ") + ")"
}
func (e *EIndex) String() string { return e.X.String() + "[" + e.I.String() + "]" }
func (e *ESlice) String() string {
	lo, hi := "", ""
	if e.Lo != nil {
		lo = e.Lo.String()
	}
	if e.Hi != nil {
		hi = e.Hi.String()
	}
	return e.X.String() + "[" + lo + ":" + hi + "]"
}
func (e *EField) String() string { return e.X.String() + "." + e.Name }
func (e *EQuant) String() string {
	q := "exists"
	if e.Forall {
		q = "forall"
	}
	var v []string
	for _, x := range e.Vars {
		v = append(v, x.Name+" "+x.Type)
	}
	return "(" + q + " " + strings.Join(v, ", ") + " :: " + e.Body.String() + ")"
}
func (e *ETypeIs) String() string {
	op := "=="
	if e.Neg {
		op = "!="
	}
	return "typeof(" + e.X.String() + ") " + op + " " + e.Type
}

// ---------- contract structures ----------

type Clause struct {
	Kind  string // requires ensures modifies invariant decreases assert
	E     Expr   // nil for modifies
	Mods  []Expr // modifies list
	Loop  int    // loop ordinal for invariant/decreases
	Call  string // callee label for `at call` ("*" = every call)
	Except []string // with Call == "*": callees not covered
	After  string   // only call sites dominated by an earlier call to this callee
	Props []string
	Text  string
	Label string
}

type PureFunc struct {
	Name   string
	Params []QVar
	Ret    string
	Body   Expr
	Opaque bool
}

type GhostDecl struct {
	Name   string
	Params []QVar
	Ret    string // "bool" for predicates; for vars the type
	IsVar  bool
}

type Lemma struct {
	Name  string
	Vars  []QVar
	Hyps  []Expr
	Concl Expr
	Props []string
	Text  string
}

type FuncContract struct {
	Target   string   // function label as written
	Params   []string // for externs: positional parameter names
	Extern   bool
	Pure     bool // extern: result is a function of the arguments only
	Props    []string
	NoPanic  bool
	NoPanicKinds []string // empty = all kinds: nil index slice divide typeassert makeslice nilmap explicit
	NoPanicProps []string // properties the nopanic obligations count toward
	Clauses  []*Clause
	Reveal   []string
	File     string
	Fresh    bool // extern: result is a freshly allocated object
	MayPanic bool
	Inline   bool // callers inline the body instead of using the contract
	Bounded  string
	Boundary bool // the function is an API boundary of a data structure: its requires are the representation invariant, assumed at entry; callers outside the structure are listed, not verified
	SpecName string // extern pure: name usable inside contracts
}

// EncapDecl: `encapsulated T.f, T.g by F1, F2`: the listed fields are read and written only inside
// the listed functions (checked over the whole package on every run).
type EncapDecl struct {
	Fields     []string
	Owners     []string
	WritesOnly bool // `ownedwrites`: other functions may read the fields, only the owners write them
}

// GlobalFact: `globalfact pkg.Var pred`: the ghost predicate holds of the value of that
// package-level variable whenever it is read (TRUSTED; for variables of other packages).
type GlobalFact struct{ Var, Pred string }

// ConstMap: `constmap <var> [Cxx] has K1, K2, ...`: the package-level map variable is built once,
// by the package initialiser, with (at least) the listed constant keys, and nothing else in the
// package assigns the variable or updates/deletes/clears a map read from it (checked on every
// run: obligation constmap/<var>); loads of the variable then know the keys are present.
type ConstMap struct {
	Var   string
	Props []string
	Keys  []Expr
	Text  string
}

// RouteTable: `routetable [Cxx] register L1, L2 public F1, F2 guarded G1, G2 wrappers W1 custom R1`:
// every handler value handed to one of the registering functions anywhere in the package is a
// `public` handler, a `guarded` one (a function that must itself be under contract for the
// property), such a handler passed through a listed wrapper, or — inside a listed `custom`
// registrar only — the registrar's own parameter. Decided syntactically over the package.
type RouteTable struct {
	Props                                        []string
	Register, Public, Guarded, Wrappers, Custom []string
	Text                                         string
}

type SpecFile struct {
	Routes  []*RouteTable
	Path    string
	Pures   []*PureFunc
	Ghosts  []*GhostDecl
	Funcs   []*FuncContract
	Lemmas  []*Lemma
	Axioms  []*Lemma
	Immut   []string // immutable T.f declarations ("T.f")
	Regexes []*RegexDecl
	Encaps  []*EncapDecl
	GFacts  []*GlobalFact
	CMaps   []*ConstMap
	RawText string
}

// ---------- lexer ----------

type tok struct {
	kind string // id int str op eof
	s    string
	pos  int
}

type lexer struct {
	src  string
	toks []tok
}

var ops3 = []string{"<==>", "==>", "...", "::", "==", "!=", "<=", ">=", "&&", "||", "<<", ">>"}

func lex(src string) ([]tok, error) {
	var out []tok
	i := 0
	for i < len(src) {
		c := src[i]
		switch {
		case c == ' ' || c == '\t' || c == '\n' || c == '\r':
			i++
		case c == '#' && i+1 < len(src) && src[i+1] == ' ': // comment to end of line
			for i < len(src) && src[i] != '\n' {
				i++
			}
		case unicode.IsLetter(rune(c)) || c == '_' || c == '\\':
			j := i + 1
			for j < len(src) && (unicode.IsLetter(rune(src[j])) || unicode.IsDigit(rune(src[j])) || src[j] == '_') {
				j++
			}
			out = append(out, tok{"id", src[i:j], i})
			i = j
		case unicode.IsDigit(rune(c)):
			j := i + 1
			for j < len(src) && (unicode.IsDigit(rune(src[j])) || src[j] == '_' || src[j] == 'x' || (src[j] >= 'a' && src[j] <= 'f') || (src[j] >= 'A' && src[j] <= 'F')) {
				j++
			}
			out = append(out, tok{"int", strings.ReplaceAll(src[i:j], "_", ""), i})
			i = j
		case c == '"':
			j := i + 1
			for j < len(src) && src[j] != '"' {
				if src[j] == '\\' {
					j++
				}
				j++
			}
			if j >= len(src) {
				return nil, fmt.Errorf("unterminated string at %d", i)
			}
			s, err := strconv.Unquote(src[i : j+1])
			if err != nil {
				return nil, fmt.Errorf("bad string %s: %v", src[i:j+1], err)
			}
			out = append(out, tok{"str", s, i})
			i = j + 1
		case c == '`':
			j := strings.IndexByte(src[i+1:], '`')
			if j < 0 {
				return nil, fmt.Errorf("unterminated raw string at %d", i)
			}
			out = append(out, tok{"str", src[i+1 : i+1+j], i})
			i = i + j + 2
		default:
			matched := false
			for _, o := range ops3 {
				if strings.HasPrefix(src[i:], o) {
					out = append(out, tok{"op", o, i})
					i += len(o)
					matched = true
					break
				}
			}
			if !matched {
				out = append(out, tok{"op", string(c), i})
				i++
			}
		}
	}
	out = append(out, tok{"eof", "", len(src)})
	return out, nil
}

// ---------- parser ----------

type parser struct {
	toks []tok
	p    int
	src  string
	file string
}

func (p *parser) peek() tok { return p.toks[p.p] }
func (p *parser) next() tok { t := p.toks[p.p]; p.p++; return t }
func (p *parser) isOp(s string) bool {
	t := p.peek()
	return t.kind == "op" && t.s == s
}
func (p *parser) isID(s string) bool {
	t := p.peek()
	return t.kind == "id" && t.s == s
}
func (p *parser) errf(f string, a ...any) error {
	t := p.peek()
	lo := t.pos - 40
	if lo < 0 {
		lo = 0
	}
	hi := t.pos + 40
	if hi > len(p.src) {
		hi = len(p.src)
	}
	return fmt.Errorf("%s: %s near ...%s<HERE>%s...", p.file, fmt.Sprintf(f, a...), p.src[lo:t.pos], p.src[t.pos:hi])
}
func (p *parser) expectOp(s string) error {
	if !p.isOp(s) {
		return p.errf("expected %q, got %q", s, p.peek().s)
	}
	p.next()
	return nil
}

var binPrec = map[string]int{
	"<==>": 1, "==>": 2, "||": 3, "&&": 4,
	"==": 5, "!=": 5, "<": 5, "<=": 5, ">": 5, ">=": 5,
	"+": 6, "-": 6, "|": 6, "*": 7, "/": 7, "%": 7, "<<": 7, ">>": 7, "&": 7,
}

var clauseKeywords = map[string]bool{
	"requires": true, "ensures": true, "establishes": true, "modifies": true, "loop": true, "at": true,
	"property": true, "nopanic": true, "reveal": true, "pure": true, "func": true,
	"ghost": true, "lemma": true, "axiom": true, "extern": true, "fresh": true,
	"maypanic": true, "regex": true, "globalfact": true, "constmap": true, "noblock": true, "objinvariant": true, "entryfact": true, "encapsulated": true, "ownedwrites": true, "inline": true, "boundary": true, "immutable": true, "bounded": true, "opaque": true, "pathflag": true, "pathvar": true, "routetable": true, "register": true, "public": true, "guarded": true, "wrappers": true, "custom": true,
}

func (p *parser) parseExpr(minPrec int) (Expr, error) {
	lhs, err := p.parseUnary()
	if err != nil {
		return nil, err
	}
	for {
		t := p.peek()
		if t.kind == "op" && t.s == "?" && minPrec <= 0 {
			p.next()
			a, err := p.parseExpr(0)
			if err != nil {
				return nil, err
			}
			if err := p.expectOp(":"); err != nil {
				return nil, err
			}
			b, err := p.parseExpr(0)
			if err != nil {
				return nil, err
			}
			lhs = &ECond{lhs, a, b}
			continue
		}
		if t.kind != "op" {
			return lhs, nil
		}
		prec, ok := binPrec[t.s]
		if !ok || prec < minPrec {
			return lhs, nil
		}
		p.next()
		var rhs Expr
		if t.s == "==>" { // right assoc
			rhs, err = p.parseExpr(prec)
		} else {
			rhs, err = p.parseExpr(prec + 1)
		}
		if err != nil {
			return nil, err
		}
		lhs = &EBin{t.s, lhs, rhs}
	}
}

func (p *parser) parseUnary() (Expr, error) {
	t := p.peek()
	if t.kind == "op" && (t.s == "!" || t.s == "-" || t.s == "*") {
		p.next()
		x, err := p.parseUnary()
		if err != nil {
			return nil, err
		}
		return &EUnary{t.s, x}, nil
	}
	return p.parsePostfix()
}

func (p *parser) parseTypeString() (string, error) {
	// A Go type, read syntactically up to a delimiter at depth 0: , ) :: = {
	start := p.peek().pos
	depth := 0
	for {
		t := p.peek()
		if t.kind == "eof" {
			break
		}
		if t.kind == "op" {
			if t.s == "(" || t.s == "[" {
				depth++
			} else if t.s == ")" || t.s == "]" {
				if depth == 0 {
					break
				}
				depth--
			} else if depth == 0 && (t.s == "," || t.s == "::" || t.s == "=" || t.s == "==" || t.s == "!=") {
				break
			}
		}
		if t.kind == "id" && depth == 0 && clauseKeywords[t.s] && p.peek().pos > start {
			break
		}
		p.next()
	}
	end := p.peek().pos
	s := strings.TrimSpace(p.src[start:end])
	if s == "" {
		return "", p.errf("expected type")
	}
	return s, nil
}

func (p *parser) parseQVars() ([]QVar, error) {
	var vs []QVar
	for {
		n := p.next()
		if n.kind != "id" {
			return nil, p.errf("expected variable name")
		}
		ty, err := p.parseTypeString()
		if err != nil {
			return nil, err
		}
		vs = append(vs, QVar{n.s, ty})
		if p.isOp(",") {
			p.next()
			continue
		}
		return vs, nil
	}
}

func (p *parser) parsePostfix() (Expr, error) {
	var x Expr
	t := p.next()
	switch t.kind {
	case "int":
		x = &EInt{t.s}
	case "str":
		x = &EStr{t.s}
	case "id":
		switch t.s {
		case "true":
			x = &EBool{true}
		case "false":
			x = &EBool{false}
		case "nil", "\\nil":
			x = &ENil{}
		case "forall", "exists":
			vs, err := p.parseQVars()
			if err != nil {
				return nil, err
			}
			if err := p.expectOp("::"); err != nil {
				return nil, err
			}
			body, err := p.parseExpr(0)
			if err != nil {
				return nil, err
			}
			return &EQuant{t.s == "forall", vs, body}, nil
		case "typeof":
			if err := p.expectOp("("); err != nil {
				return nil, err
			}
			a, err := p.parseExpr(0)
			if err != nil {
				return nil, err
			}
			if err := p.expectOp(")"); err != nil {
				return nil, err
			}
			neg := false
			if p.isOp("!=") {
				neg = true
			} else if !p.isOp("==") {
				return nil, p.errf("typeof must be compared with == or !=")
			}
			p.next()
			ty, err := p.parseTypeAtom()
			if err != nil {
				return nil, err
			}
			return &ETypeIs{a, ty, neg}, nil
		default:
			x = &EIdent{t.s}
		}
	case "op":
		if t.s == "(" {
			e, err := p.parseExpr(0)
			if err != nil {
				return nil, err
			}
			if err := p.expectOp(")"); err != nil {
				return nil, err
			}
			x = e
		} else {
			p.p--
			return nil, p.errf("unexpected %q", t.s)
		}
	default:
		p.p--
		return nil, p.errf("unexpected end of input")
	}
	for {
		switch {
		case p.isOp("("):
			id, ok := x.(*EIdent)
			if !ok {
				return nil, p.errf("call of non-identifier")
			}
			p.next()
			var args []Expr
			for !p.isOp(")") {
				a, err := p.parseExpr(0)
				if err != nil {
					return nil, err
				}
				args = append(args, a)
				if p.isOp(",") {
					p.next()
				}
			}
			p.next()
			x = &ECall{id.Name, args}
		case p.isOp("["):
			p.next()
			var lo, hi Expr
			var err error
			if !p.isOp(":") {
				lo, err = p.parseExpr(0)
				if err != nil {
					return nil, err
				}
			}
			if p.isOp(":") {
				p.next()
				if !p.isOp("]") {
					hi, err = p.parseExpr(0)
					if err != nil {
						return nil, err
					}
				}
				if err := p.expectOp("]"); err != nil {
					return nil, err
				}
				x = &ESlice{x, lo, hi}
			} else {
				if err := p.expectOp("]"); err != nil {
					return nil, err
				}
				x = &EIndex{x, lo}
			}
		case p.isOp("."):
			p.next()
			n := p.next()
			if n.kind != "id" {
				return nil, p.errf("expected field name")
			}
			x = &EField{x, n.s}
		default:
			return x, nil
		}
	}
}

// parseTypeAtom reads a type used in typeof(x) == T: [*]ident[.ident] or a quoted string.
func (p *parser) parseTypeAtom() (string, error) {
	if p.peek().kind == "str" {
		return p.next().s, nil
	}
	s := ""
	for p.isOp("*") || p.isOp("[") || p.isOp("]") {
		s += p.next().s
	}
	t := p.next()
	if t.kind != "id" {
		return "", p.errf("expected type name")
	}
	s += t.s
	for p.isOp(".") {
		p.next()
		s += "." + p.next().s
	}
	return s, nil
}

// parseFuncLabel reads a function label: quoted string, or (*T).m / T.m / name / name$1.
func (p *parser) parseFuncLabel() (string, error) {
	if p.peek().kind == "str" {
		return p.next().s, nil
	}
	start := p.peek().pos
	if p.isOp("(") {
		for !p.isOp(")") {
			if p.peek().kind == "eof" {
				return "", p.errf("bad function label")
			}
			p.next()
		}
		p.next()
	} else {
		p.next()
	}
	for p.isOp(".") || p.isOp("$") || p.isOp("#") {
		p.next()
		p.next()
	}
	return strings.Join(strings.Fields(p.src[start:p.peek().pos]), ""), nil
}

func (p *parser) textSince(start int) string {
	end := p.peek().pos
	return strings.Join(strings.Fields(p.src[start:end]), " ")
}

func (p *parser) parseProps() []string {
	var ps []string
	for p.peek().kind == "id" && len(p.peek().s) >= 3 && p.peek().s[0] == 'C' && unicode.IsDigit(rune(p.peek().s[1])) {
		ps = append(ps, p.next().s)
		if p.isOp(",") {
			p.next()
		}
	}
	return ps
}

// optional [C12,C13] / [label] tag after a clause keyword
func (p *parser) parseClauseTag() (props []string, label string) {
	if !p.isOp("[") {
		return nil, ""
	}
	save := p.p
	p.next()
	for !p.isOp("]") {
		t := p.next()
		if t.kind == "eof" {
			p.p = save
			return nil, ""
		}
		if t.kind == "id" {
			if len(t.s) >= 3 && t.s[0] == 'C' && unicode.IsDigit(rune(t.s[1])) {
				props = append(props, t.s)
			} else {
				label = t.s
			}
		}
	}
	p.next()
	return
}

func (p *parser) parseFile() (*SpecFile, error) {
	sf := &SpecFile{Path: p.file}
	for p.peek().kind != "eof" {
		t := p.peek()
		if t.kind != "id" {
			return nil, p.errf("expected declaration keyword")
		}
		switch t.s {
		case "pure", "opaque":
			opaque := false
			if t.s == "opaque" {
				opaque = true
				p.next()
			}
			p.next()
			if !p.isID("func") {
				return nil, p.errf("expected func after pure")
			}
			p.next()
			name := p.next().s
			if err := p.expectOp("("); err != nil {
				return nil, err
			}
			var params []QVar
			if !p.isOp(")") {
				var err error
				params, err = p.parseQVars()
				if err != nil {
					return nil, err
				}
			}
			if err := p.expectOp(")"); err != nil {
				return nil, err
			}
			ret, err := p.parseTypeString()
			if err != nil {
				return nil, err
			}
			if err := p.expectOp("="); err != nil {
				return nil, err
			}
			body, err := p.parseExpr(0)
			if err != nil {
				return nil, err
			}
			sf.Pures = append(sf.Pures, &PureFunc{name, params, ret, body, opaque})
		case "ghost":
			p.next()
			kind := p.next().s // pred | func | var
			name := p.next().s
			g := &GhostDecl{Name: name}
			if kind == "var" {
				g.IsVar = true
				ty, err := p.parseTypeString()
				if err != nil {
					return nil, err
				}
				g.Ret = ty
			} else {
				if err := p.expectOp("("); err != nil {
					return nil, err
				}
				if !p.isOp(")") {
					var err error
					g.Params, err = p.parseQVars()
					if err != nil {
						return nil, err
					}
				}
				if err := p.expectOp(")"); err != nil {
					return nil, err
				}
				g.Ret = "bool"
				if kind == "func" {
					ty, err := p.parseTypeString()
					if err != nil {
						return nil, err
					}
					g.Ret = ty
				}
			}
			sf.Ghosts = append(sf.Ghosts, g)
		case "immutable":
			// immutable T.f: field f of the package's struct type T is written only while its
			// object is being built (checked over the whole package, see checkImmutables); calls
			// and loops therefore leave it alone
			p.next()
			tn := p.next().s
			if err := p.expectOp("."); err != nil {
				return nil, err
			}
			sf.Immut = append(sf.Immut, tn+"."+p.next().s)
		case "constmap":
			p.next()
			start := p.peek().pos
			cm := &ConstMap{Var: p.next().s}
			if p.isOp("[") {
				cm.Props, _ = p.parseClauseTag()
			}
			if !p.isID("has") {
				return nil, p.errf("constmap: expected 'has'")
			}
			p.next()
			for {
				e, err := p.parseExpr(0)
				if err != nil {
					return nil, err
				}
				cm.Keys = append(cm.Keys, e)
				if p.isOp(",") {
					p.next()
					continue
				}
				break
			}
			cm.Text = p.textSince(start)
			sf.CMaps = append(sf.CMaps, cm)
		case "routetable":
			p.next()
			start := p.peek().pos
			rt := &RouteTable{}
			if p.isOp("[") {
				rt.Props, _ = p.parseClauseTag()
			}
			for p.isID("register") || p.isID("public") || p.isID("guarded") || p.isID("wrappers") || p.isID("custom") {
				kind := p.next().s
				for {
					l, err := p.parseFuncLabel()
					if err != nil {
						return nil, err
					}
					switch kind {
					case "register":
						rt.Register = append(rt.Register, l)
					case "public":
						rt.Public = append(rt.Public, l)
					case "guarded":
						rt.Guarded = append(rt.Guarded, l)
					case "wrappers":
						rt.Wrappers = append(rt.Wrappers, l)
					case "custom":
						rt.Custom = append(rt.Custom, l)
					}
					if p.isOp(",") {
						p.next()
						continue
					}
					break
				}
			}
			rt.Text = p.textSince(start)
			sf.Routes = append(sf.Routes, rt)
		case "globalfact":
			p.next()
			pk := p.next().s
			if err := p.expectOp("."); err != nil {
				return nil, err
			}
			vn := p.next().s
			sf.GFacts = append(sf.GFacts, &GlobalFact{Var: pk + "." + vn, Pred: p.next().s})
		case "encapsulated", "ownedwrites":
			p.next()
			ed := &EncapDecl{WritesOnly: t.s == "ownedwrites"}
			for {
				tn := p.next().s
				if err := p.expectOp("."); err != nil {
					return nil, err
				}
				ed.Fields = append(ed.Fields, tn+"."+p.next().s)
				if p.isOp(",") {
					p.next()
					continue
				}
				break
			}
			if !p.isID("by") {
				return nil, p.errf("encapsulated: expected 'by'")
			}
			p.next()
			for {
				l, err := p.parseFuncLabel()
				if err != nil {
					return nil, err
				}
				ed.Owners = append(ed.Owners, l)
				if p.isOp(",") {
					p.next()
					continue
				}
				break
			}
			sf.Encaps = append(sf.Encaps, ed)
		case "regex":
			// regex <var> [Cxx] == `reference pattern`: the code's pattern denotes the reference language
			p.next()
			start := p.peek().pos
			rd := &RegexDecl{Var: p.next().s}
			if p.isOp("[") {
				rd.Props, _ = p.parseClauseTag()
			}
			if err := p.expectOp("=="); err != nil {
				return nil, err
			}
			t := p.next()
			if t.kind != "str" {
				return nil, p.errf("regex: expected a pattern string")
			}
			rd.Ref = t.s
			rd.Text = p.textSince(start)
			sf.Regexes = append(sf.Regexes, rd)
		case "lemma", "axiom":
			p.next()
			start := p.peek().pos
			l := &Lemma{Name: p.next().s}
			if p.isOp("[") {
				l.Props, _ = p.parseClauseTag()
			}
			if err := p.expectOp(":"); err != nil {
				return nil, err
			}
			if p.isID("forall") {
				p.next()
				vs, err := p.parseQVars()
				if err != nil {
					return nil, err
				}
				l.Vars = vs
				if err := p.expectOp("::"); err != nil {
					return nil, err
				}
			}
			e, err := p.parseExpr(0)
			if err != nil {
				return nil, err
			}
			l.Concl = e
			l.Text = p.textSince(start)
			if t.s == "lemma" {
				sf.Lemmas = append(sf.Lemmas, l)
			} else {
				sf.Axioms = append(sf.Axioms, l)
			}
		case "func", "extern":
			fc := &FuncContract{File: p.file}
			if t.s == "extern" {
				fc.Extern = true
				p.next()
				if p.isID("pure") {
					fc.Pure = true
					p.next()
				}
				if !p.isID("func") {
					return nil, p.errf("expected func after extern")
				}
			}
			p.next()
			label, err := p.parseFuncLabel()
			if err != nil {
				return nil, err
			}
			fc.Target = label
			if p.isOp("(") { // positional parameter names
				p.next()
				for !p.isOp(")") {
					fc.Params = append(fc.Params, p.next().s)
					if p.isOp(",") {
						p.next()
					}
				}
				p.next()
			}
			if p.isID("as") {
				p.next()
				fc.SpecName = p.next().s
			}
			if err := p.parseClauses(fc); err != nil {
				return nil, err
			}
			// clauses without their own property tag belong to the block's properties (several
			// blocks for one function are merged; each keeps counting toward its own properties)
			for _, cl := range fc.Clauses {
				if len(cl.Props) == 0 {
					cl.Props = append([]string{}, fc.Props...)
				}
			}
			if fc.NoPanic {
				fc.NoPanicProps = append([]string{}, fc.Props...)
			}
			sf.Funcs = append(sf.Funcs, fc)
		default:
			return nil, p.errf("unknown declaration %q", t.s)
		}
	}
	return sf, nil
}

func (p *parser) parseClauses(fc *FuncContract) error {
	for {
		t := p.peek()
		if t.kind != "id" {
			if t.kind == "eof" {
				return nil
			}
			return p.errf("expected clause keyword")
		}
		switch t.s {
		case "property":
			p.next()
			fc.Props = append(fc.Props, p.parseProps()...)
		case "nopanic":
			p.next()
			fc.NoPanic = true
			if p.isOp("(") { // nopanic(typeassert, index, ...): only these panic kinds are obligations
				p.next()
				for !p.isOp(")") {
					t := p.next()
					if t.kind == "eof" {
						return p.errf("unterminated nopanic(...)")
					}
					if t.kind == "id" {
						fc.NoPanicKinds = append(fc.NoPanicKinds, t.s)
					}
				}
				p.next()
			}
		case "fresh":
			p.next()
			fc.Fresh = true
		case "pathflag": // pathflag <name>: a ghost Boolean of this activation, false at entry, set by `at call .. mark`
			p.next()
			fc.Clauses = append(fc.Clauses, &Clause{Kind: "pathflag", Label: p.next().s})
		case "pathvar": // pathvar <name> <type>: a ghost variable of this activation, zero at entry, set by `at call .. setflag`
			p.next()
			nm := p.next().s
			ts, err := p.parseTypeString()
			if err != nil {
				return err
			}
			fc.Clauses = append(fc.Clauses, &Clause{Kind: "pathvar", Label: nm, Text: ts})
		case "maypanic":
			p.next()
			fc.MayPanic = true
		case "noblock":
			// the function performs no blocking channel operation: no send, no receive, no select
			// without a default (decided on the SSA; mutex acquisition is not a channel operation)
			p.next()
			fc.Clauses = append(fc.Clauses, &Clause{Kind: "noblock", Text: "no blocking channel operation"})
		case "boundary":
			p.next()
			fc.Boundary = true
		case "inline":
			p.next()
			fc.Inline = true
		case "bounded":
			p.next()
			if err := p.expectOp("("); err != nil {
				return err
			}
			start := p.peek().pos
			for !p.isOp(")") {
				p.next()
			}
			fc.Bounded = p.textSince(start)
			p.next()
		case "reveal":
			p.next()
			for p.peek().kind == "id" && !clauseKeywords[p.peek().s] {
				fc.Reveal = append(fc.Reveal, p.next().s)
				if p.isOp(",") {
					p.next()
				}
			}
		case "establishes":
			// establishes [cond ==>] ghostPred(args): the DEFINING postcondition of a gate. The
			// ghost predicate has no other source, so assuming it at call sites is a conservative
			// extension; it is not (and cannot be) checked against the body.
			p.next()
			props, label := p.parseClauseTag()
			start := p.peek().pos
			e, err := p.parseExpr(0)
			if err != nil {
				return err
			}
			rhs := e
			if b, ok := e.(*EBin); ok && (b.Op == "==>" || b.Op == "<==>") {
				rhs = b.R // `cond <==> ghostPred(args)`: the predicate IS the function's verdict
			}
			if eq, ok := rhs.(*EBin); ok && eq.Op == "==" { // result == ghostFunc(args): names the result
				if _, isCall := eq.R.(*ECall); isCall {
					rhs = eq.R
				}
			}
			if _, ok := rhs.(*ECall); !ok {
				return p.errf("establishes must have the form [cond ==>] ghostPred(args) or result == ghostFunc(args)")
			}
			fc.Clauses = append(fc.Clauses, &Clause{Kind: "establishes", E: e, Props: props, Label: label, Text: p.textSince(start)})
		case "requires", "ensures", "objinvariant", "entryfact":
			// objinvariant: representation invariant of an encapsulated data structure — assumed at the
			// entry of this (owner) function, an obligation at each of its returns, nothing at its call
			// sites. entryfact: facts about what was allocated before the call (only !fresh atoms).
			p.next()
			props, label := p.parseClauseTag()
			start := p.peek().pos
			e, err := p.parseExpr(0)
			if err != nil {
				return err
			}
			fc.Clauses = append(fc.Clauses, &Clause{Kind: t.s, E: e, Props: props, Label: label, Text: p.textSince(start)})
		case "modifies":
			p.next()
			start := p.peek().pos
			c := &Clause{Kind: "modifies"}
			if p.isID("nothing") {
				p.next()
			} else {
				for {
					e, err := p.parseExpr(0)
					if err != nil {
						return err
					}
					c.Mods = append(c.Mods, e)
					if p.isOp(",") {
						p.next()
						continue
					}
					break
				}
			}
			c.Text = p.textSince(start)
			fc.Clauses = append(fc.Clauses, c)
		case "loop":
			p.next()
			n := p.next()
			k, err := strconv.Atoi(n.s)
			if err != nil {
				return p.errf("loop ordinal expected")
			}
			kind := p.next().s
			if kind != "invariant" && kind != "decreases" && kind != "onrepeat" {
				return p.errf("expected invariant, decreases or onrepeat")
			}
			props, label := p.parseClauseTag()
			start := p.peek().pos
			e, err := p.parseExpr(0)
			if err != nil {
				return err
			}
			fc.Clauses = append(fc.Clauses, &Clause{Kind: kind, Loop: k, E: e, Props: props, Label: label, Text: p.textSince(start)})
		case "at":
			p.next()
			if p.isID("store") { // at store T.f assert [label] expr
				p.next()
				tn := p.next().s
				if err := p.expectOp("."); err != nil {
					return err
				}
				fn := p.next().s
				if !p.isID("assert") {
					return p.errf("expected assert after at store T.f")
				}
				p.next()
				props, lab := p.parseClauseTag()
				start := p.peek().pos
				e, err := p.parseExpr(0)
				if err != nil {
					return err
				}
				fc.Clauses = append(fc.Clauses, &Clause{Kind: "storeassert", Call: tn + "." + fn, E: e, Props: props, Label: lab, Text: p.textSince(start)})
				continue
			}
			if p.isID("load") { // at load T.f setflag <pathflag> <expr over value> | at load T.f mark <pathflag>
				p.next()
				tn := p.next().s
				if err := p.expectOp("."); err != nil {
					return err
				}
				fn := p.next().s
				if p.isID("mark") {
					p.next()
					fc.Clauses = append(fc.Clauses, &Clause{Kind: "loadmark", Call: tn + "." + fn, Label: p.next().s})
					continue
				}
				if !p.isID("setflag") {
					return p.errf("expected setflag or mark after at load T.f")
				}
				p.next()
				fl := p.next().s
				start := p.peek().pos
				e, err := p.parseExpr(0)
				if err != nil {
					return err
				}
				fc.Clauses = append(fc.Clauses, &Clause{Kind: "loadsetflag", Call: tn + "." + fn, Label: fl, E: e, Text: p.textSince(start)})
				continue
			}
			if !p.isID("call") {
				return p.errf("expected 'call' after 'at'")
			}
			p.next()
			var label string
			var except []string
			if p.isOp("*") { // every call in the function ...
				p.next()
				label = "*"
				if p.isID("except") { // ... except calls to these callees
					p.next()
					for {
						l, err := p.parseFuncLabel()
						if err != nil {
							return err
						}
						except = append(except, l)
						if p.isOp(",") {
							p.next()
							continue
						}
						break
					}
				}
			} else {
				var err error
				label, err = p.parseFuncLabel()
				if err != nil {
					return err
				}
			}
			after := ""
			if p.isID("after") { // only call sites dominated by an earlier call to this callee
				p.next()
				var err error
				after, err = p.parseFuncLabel()
				if err != nil {
					return err
				}
			}
			if p.isID("setflag") { // at call <label> setflag <pathflag> <expr>: after the call, flag := expr (may use result/resultN/argN)
				p.next()
				fl := p.next().s
				start := p.peek().pos
				e, err := p.parseExpr(0)
				if err != nil {
					return err
				}
				fc.Clauses = append(fc.Clauses, &Clause{Kind: "setflag", Call: label, Except: except, After: after, Label: fl, E: e, Text: p.textSince(start)})
				continue
			}
			if p.isID("mark") { // at call <label> mark <pathflag>: the flag becomes true when this call is reached
				p.next()
				fc.Clauses = append(fc.Clauses, &Clause{Kind: "mark", Call: label, Except: except, After: after, Label: p.next().s})
				continue
			}
			if !p.isID("assert") {
				return p.errf("expected assert")
			}
			p.next()
			props, lab := p.parseClauseTag()
			start := p.peek().pos
			e, err := p.parseExpr(0)
			if err != nil {
				return err
			}
			fc.Clauses = append(fc.Clauses, &Clause{Kind: "assert", Call: label, Except: except, After: after, E: e, Props: props, Label: lab, Text: p.textSince(start)})
		default:
			return nil // next declaration
		}
	}
}

// readSpecFile extracts the `//@` lines of a file and parses them.
func readSpecFile(path string) (*SpecFile, error) {
	b, err := os.ReadFile(path)
	if err != nil {
		return nil, err
	}
	var sb strings.Builder
	for _, ln := range strings.Split(string(b), "\n") {
		t := strings.TrimSpace(ln)
		if strings.HasPrefix(t, "//@") {
			sb.WriteString(strings.TrimPrefix(t, "//@"))
			sb.WriteByte('\n')
		}
	}
	src := sb.String()
	toks, err := lex(src)
	if err != nil {
		return nil, fmt.Errorf("%s: %v", path, err)
	}
	p := &parser{toks: toks, src: src, file: path}
	sf, err := p.parseFile()
	if err != nil {
		return nil, err
	}
	sf.RawText = src
	return sf, nil
}
