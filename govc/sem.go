package main

// Sorts, integer ranges, naming, zero values: the Go-type -> SMT mapping (DESIGN §3.3).

import (
	"fmt"
	"go/types"
	"math/big"
	"strings"
)

func sym(s string) string {
	var sb strings.Builder
	for _, r := range s {
		switch {
		case r >= 'a' && r <= 'z', r >= 'A' && r <= 'Z', r >= '0' && r <= '9',
			r == '_', r == '.', r == '$', r == '@', r == '!', r == '~', r == '^', r == '&', r == '%', r == '?', r == '/':
			sb.WriteRune(r)
		case r == '*':
			sb.WriteString("~p")
		case r == '[':
			sb.WriteString("~l")
		case r == ']':
			sb.WriteString("~r")
		default:
			sb.WriteRune('_')
		}
	}
	return sb.String()
}

func app(op string, args ...string) string {
	if len(args) == 0 {
		return op
	}
	return "(" + op + " " + strings.Join(args, " ") + ")"
}

func and(xs ...string) string {
	var ys []string
	for _, x := range xs {
		if x == "true" {
			continue
		}
		if x == "false" {
			return "false"
		}
		ys = append(ys, x)
	}
	if len(ys) == 0 {
		return "true"
	}
	if len(ys) == 1 {
		return ys[0]
	}
	return app("and", ys...)
}

func or(xs ...string) string {
	var ys []string
	for _, x := range xs {
		if x == "false" {
			continue
		}
		if x == "true" {
			return "true"
		}
		ys = append(ys, x)
	}
	if len(ys) == 0 {
		return "false"
	}
	if len(ys) == 1 {
		return ys[0]
	}
	return app("or", ys...)
}

func not(x string) string {
	if x == "true" {
		return "false"
	}
	if x == "false" {
		return "true"
	}
	return app("not", x)
}

func implies(a, b string) string {
	if a == "true" {
		return b
	}
	if b == "true" {
		return "true"
	}
	return app("=>", a, b)
}

func num(n *big.Int) string {
	if n.Sign() < 0 {
		return "(- " + new(big.Int).Neg(n).String() + ")"
	}
	return n.String()
}

func numI(n int64) string { return num(big.NewInt(n)) }

var two = big.NewInt(2)

func pow2(w int) *big.Int { return new(big.Int).Exp(two, big.NewInt(int64(w)), nil) }

// intInfo returns the bit width and signedness of an integer type.
func intInfo(t types.Type) (w int, signed bool, ok bool) {
	b, isb := t.Underlying().(*types.Basic)
	if !isb {
		return 0, false, false
	}
	switch b.Kind() {
	case types.Int, types.Int64:
		return 64, true, true
	case types.Int8:
		return 8, true, true
	case types.Int16:
		return 16, true, true
	case types.Int32:
		return 32, true, true
	case types.Uint, types.Uint64, types.Uintptr:
		return 64, false, true
	case types.Uint8:
		return 8, false, true
	case types.Uint16:
		return 16, false, true
	case types.Uint32:
		return 32, false, true
	case types.UntypedInt, types.UntypedRune:
		return 0, true, false
	}
	return 0, false, false
}

func intRange(t types.Type) (lo, hi *big.Int, ok bool) {
	w, s, ok := intInfo(t)
	if !ok {
		return nil, nil, false
	}
	if s {
		h := pow2(w - 1)
		return new(big.Int).Neg(h), new(big.Int).Sub(h, big.NewInt(1)), true
	}
	return big.NewInt(0), new(big.Int).Sub(pow2(w), big.NewInt(1)), true
}

func isInt(t types.Type) bool {
	b, ok := t.Underlying().(*types.Basic)
	return ok && b.Info()&types.IsInteger != 0
}
func isBool(t types.Type) bool {
	b, ok := t.Underlying().(*types.Basic)
	return ok && b.Info()&types.IsBoolean != 0
}
func isString(t types.Type) bool {
	b, ok := t.Underlying().(*types.Basic)
	return ok && b.Info()&types.IsString != 0
}
func isFloat(t types.Type) bool {
	b, ok := t.Underlying().(*types.Basic)
	return ok && b.Info()&types.IsFloat != 0
}
func isIface(t types.Type) bool {
	_, ok := t.Underlying().(*types.Interface)
	if _, tp := t.(*types.TypeParam); tp {
		return false
	}
	return ok
}
func isSlice(t types.Type) bool { _, ok := t.Underlying().(*types.Slice); return ok }
func isPtr(t types.Type) bool   { _, ok := t.Underlying().(*types.Pointer); return ok }
func isMap(t types.Type) bool   { _, ok := t.Underlying().(*types.Map); return ok }

// typeKey is a stable printable name of a type used in heap-component keys and tags.
func typeKey(t types.Type) string {
	// full import paths: package names are not unique (sync vs internal/sync)
	return types.TypeString(t, func(p *types.Package) string {
		return strings.TrimPrefix(p.Path(), "github.com/Query-farm/vgi-rpc-go/")
	})
}

// rangeFact returns the type-range constraint for an integer term (or "true").
func rangeFact(term string, t types.Type) string {
	lo, hi, ok := intRange(t)
	if !ok {
		return "true"
	}
	return app("and", app("<=", num(lo), term), app("<=", term, num(hi)))
}

// wrapTerm wraps a mathematically computed term into the range of t.
// small=true means |term| is known to exceed the range by at most one modulus (add/sub).
func wrapTerm(term string, t types.Type, small bool) string {
	w, signed, ok := intInfo(t)
	if !ok {
		return term
	}
	m := pow2(w)
	lo, hi, _ := intRange(t)
	if small {
		return app("ite", app(">", term, num(hi)), app("-", term, num(m)),
			app("ite", app("<", term, num(lo)), app("+", term, num(m)), term))
	}
	if !signed {
		return app("mod", term, num(m))
	}
	// signed: ((x + 2^(w-1)) mod 2^w) - 2^(w-1)
	h := pow2(w - 1)
	return app("-", app("mod", app("+", term, num(h)), num(m)), num(h))
}

func fmtf(f string, a ...any) string { return fmt.Sprintf(f, a...) }
