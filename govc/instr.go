package main

// SSA instruction semantics (DESIGN §3.3).

import (
	"errors"
	"go/constant"
	"go/token"
	"go/types"
	"math/big"
	"sort"
	"strings"

	"golang.org/x/tools/go/ssa"
)

// ---------- locations ----------

const (
	lCell       = iota // non-escaping local alloc
	lField             // heap struct field:  key[ref]
	lElem              // element heap: key[ref][idx]
	lScalar            // pointer to non-struct non-array: key[ref]
	lGlobal            // package-level variable: key
	lStructRoot        // pointer to heap struct (no storage of its own)
	lArrRoot           // pointer to heap array: E:T[ref]
	lOpaque            // unknown
)

type step struct {
	field int
	st    types.Type // struct type when field step
	idx   string     // index term when index step
	isIdx bool
}

type Loc struct {
	kind int
	key  string
	ref  string
	idx  string
	path []step
	ty   types.Type // type of the located value
}

func derefType(t types.Type) types.Type {
	if p, ok := types.Unalias(t).Underlying().(*types.Pointer); ok {
		return p.Elem()
	}
	return t
}

func (g *Gen) fieldKey(st types.Type, i int) string {
	s := st.Underlying().(*types.Struct)
	key := "F:" + typeKey(types.Unalias(st)) + "." + s.Field(i).Name()
	if s.Field(i).Name() == "_" {
		key += fmtf("%d", i)
	}
	g.keyDecl(key, "(Array Int "+g.sortOf(s.Field(i).Type())+")")
	return key
}

func (g *Gen) elemKey(elem types.Type) string {
	key := "E:" + typeKey(types.Unalias(elem))
	g.keyDecl(key, "(Array Int (Array Int "+g.sortOf(elem)+"))")
	return key
}

// fieldPtr: the address of field `name` of the struct object `ref` of type st, as a term.
func (g *Gen) fieldPtr(st types.Type, name, ref string) string {
	fn := g.declareFun(sym("fp."+typeKey(types.Unalias(st))+"."+name), []string{"Int"}, "Int")
	g.axiomOnce("fp.pos."+fn, fmtf("(forall ((fp_r Int)) (! (=> (distinct fp_r 0) (> (%s fp_r) 0)) :pattern ((%s fp_r))))", fn, fn))
	return app(fn, ref)
}

func (g *Gen) scalarKey(t types.Type) string {
	key := "C:" + typeKey(types.Unalias(t))
	g.keyDecl(key, "(Array Int "+g.sortOf(t)+")")
	return key
}

func (g *Gen) heapLoc(p string, pointee types.Type) *Loc {
	pointee = types.Unalias(pointee)
	switch u := pointee.Underlying().(type) {
	case *types.Struct:
		return &Loc{kind: lStructRoot, ref: p, ty: pointee}
	case *types.Array:
		return &Loc{kind: lArrRoot, key: g.elemKey(u.Elem()), ref: p, ty: pointee}
	}
	return &Loc{kind: lScalar, key: g.scalarKey(pointee), ref: p, ty: pointee}
}

func (g *Gen) locOf(v ssa.Value) *Loc {
	if l, ok := g.locs[v]; ok {
		return l
	}
	var l *Loc
	switch v := v.(type) {
	case *ssa.Alloc:
		et := derefType(v.Type())
		if !g.escape[v] {
			key := "L:" + v.Name() + "." + sym(v.Comment)
			g.keyDecl(key, g.sortOf(et))
			l = &Loc{kind: lCell, key: key, ty: et}
		} else {
			l = g.heapLoc(g.val(v), et)
		}
	case *ssa.FieldAddr:
		base := g.locOf(v.X)
		st := derefType(v.X.Type())
		su := st.Underlying().(*types.Struct)
		ft := su.Field(v.Field).Type()
		if base.kind == lStructRoot {
			l = &Loc{kind: lField, key: g.fieldKey(st, v.Field), ref: base.ref, ty: ft}
		} else if base.kind == lOpaque {
			l = &Loc{kind: lOpaque, ty: ft}
		} else {
			nl := *base
			nl.path = append(append([]step{}, base.path...), step{field: v.Field, st: st})
			nl.ty = ft
			l = &nl
		}
	case *ssa.IndexAddr:
		xt := types.Unalias(v.X.Type()).Underlying()
		switch xt := xt.(type) {
		case *types.Slice:
			s := g.val(v.X)
			l = &Loc{kind: lElem, key: g.elemKey(xt.Elem()), ref: app("s_arr", s), idx: app("+", app("s_off", s), g.val(v.Index)), ty: xt.Elem()}
		case *types.Pointer:
			arr := xt.Elem().Underlying().(*types.Array)
			base := g.locOf(v.X)
			if base.kind == lArrRoot {
				l = &Loc{kind: lElem, key: base.key, ref: base.ref, idx: g.val(v.Index), ty: arr.Elem()}
			} else if base.kind == lOpaque {
				l = &Loc{kind: lOpaque, ty: arr.Elem()}
			} else {
				nl := *base
				nl.path = append(append([]step{}, base.path...), step{isIdx: true, idx: g.val(v.Index)})
				nl.ty = arr.Elem()
				l = &nl
			}
		default:
			l = &Loc{kind: lOpaque, ty: derefType(v.Type())}
		}
	case *ssa.Global:
		et := derefType(v.Type())
		if arr, ok := et.Underlying().(*types.Array); ok {
			id := g.declare(sym("gid."+v.Name()), "Int")
			g.axiomOnce("gid."+v.Name(), fmtf("(< %s 0)", id)) // global arrays live at negative ids
			for _, other := range g.globalIDs() {
				if other != id {
					g.global(fmtf("(distinct %s %s)", id, other))
				}
			}
			g.addGlobalID(id)
			l = &Loc{kind: lArrRoot, key: g.elemKey(arr.Elem()), ref: id, ty: et}
		} else {
			key := "G:" + v.Pkg.Pkg.Name() + "." + v.Name()
			g.keyDecl(key, g.sortOf(et))
			l = &Loc{kind: lGlobal, key: key, ty: et}
		}
	default:
		l = g.heapLoc(g.val(v), derefType(v.Type()))
	}
	g.locs[v] = l
	return l
}

func (g *Gen) globalIDs() []string { return g.gids }
func (g *Gen) addGlobalID(id string) {
	for _, x := range g.gids {
		if x == id {
			return
		}
	}
	g.gids = append(g.gids, id)
}

func (g *Gen) project(base string, path []step) string {
	t := base
	for _, s := range path {
		if s.isIdx {
			t = app("select", t, s.idx)
		} else {
			su := s.st.Underlying().(*types.Struct)
			t = app(g.fieldAcc(g.sortOf(s.st), su, s.field), t)
		}
	}
	return t
}

func (g *Gen) update(base string, path []step, v string) string {
	if len(path) == 0 {
		return v
	}
	s := path[0]
	if s.isIdx {
		inner := g.update(app("select", base, s.idx), path[1:], v)
		return app("store", base, s.idx, inner)
	}
	su := s.st.Underlying().(*types.Struct)
	sn := g.sortOf(s.st)
	var fs []string
	for i := 0; i < su.NumFields(); i++ {
		acc := app(g.fieldAcc(sn, su, i), base)
		if i == s.field {
			fs = append(fs, g.update(acc, path[1:], v))
		} else {
			fs = append(fs, acc)
		}
	}
	return app("mk."+sn, fs...)
}

// Struct-typed local cells are split into one state component per field (recursively), so that
// a loop or a call that writes one field does not forget the others.
func (g *Gen) cellSplit(key string, ty types.Type, path []step) (string, types.Type, []step) {
	for len(path) > 0 && !path[0].isIdx {
		su, ok := types.Unalias(ty).Underlying().(*types.Struct)
		if !ok {
			break
		}
		f := su.Field(path[0].field)
		key = key + "#" + f.Name()
		ty = f.Type()
		path = path[1:]
	}
	return key, ty, path
}

func (g *Gen) cellLoadWhole(st *State, key string, ty types.Type) string {
	if su, ok := types.Unalias(ty).Underlying().(*types.Struct); ok && su.NumFields() > 0 {
		sn := g.sortOf(ty)
		var fs []string
		for i := 0; i < su.NumFields(); i++ {
			fs = append(fs, g.cellLoadWhole(st, key+"#"+su.Field(i).Name(), su.Field(i).Type()))
		}
		return app("mk."+sn, fs...)
	}
	g.keyDecl(key, g.sortOf(ty))
	return g.get(st, key)
}

func (g *Gen) cellStoreWhole(key string, ty types.Type, v string) {
	if su, ok := types.Unalias(ty).Underlying().(*types.Struct); ok && su.NumFields() > 0 {
		sn := g.sortOf(ty)
		for i := 0; i < su.NumFields(); i++ {
			g.cellStoreWhole(key+"#"+su.Field(i).Name(), su.Field(i).Type(), app(g.fieldAcc(sn, su, i), v))
		}
		return
	}
	g.keyDecl(key, g.sortOf(ty))
	g.set(key, v)
}

func (g *Gen) cellType(l *Loc) types.Type {
	// type of the whole cell: recover from the first path step, else the located type
	if len(l.path) > 0 && !l.path[0].isIdx {
		return l.path[0].st
	}
	if len(l.path) == 0 {
		return l.ty
	}
	return nil
}

func (g *Gen) loadIn(st *State, l *Loc) string {
	if l.kind == lCell {
		if ct := g.cellType(l); ct != nil {
			key, ty, rest := g.cellSplit(l.key, ct, l.path)
			return g.project(g.cellLoadWhole(st, key, ty), rest)
		}
	}
	switch l.kind {
	case lCell, lGlobal:
		return g.project(g.get(st, l.key), l.path)
	case lField, lScalar:
		return g.project(app("select", g.get(st, l.key), l.ref), l.path)
	case lElem:
		return g.project(app("select", app("select", g.get(st, l.key), l.ref), l.idx), l.path)
	case lArrRoot:
		return app("select", g.get(st, l.key), l.ref)
	case lStructRoot:
		su := l.ty.Underlying().(*types.Struct)
		sn := g.sortOf(l.ty)
		var fs []string
		for i := 0; i < su.NumFields(); i++ {
			fs = append(fs, app("select", g.get(st, g.fieldKey(l.ty, i)), l.ref))
		}
		if len(fs) == 0 {
			fs = []string{"0"}
		}
		return app("mk."+sn, fs...)
	}
	g.flag("load-through-opaque-pointer")
	return g.fresh("opaque", g.sortOf(l.ty))
}

func (g *Gen) store(l *Loc, v string) {
	if l.kind == lCell {
		if ct := g.cellType(l); ct != nil {
			key, ty, rest := g.cellSplit(l.key, ct, l.path)
			if len(rest) == 0 {
				g.cellStoreWhole(key, ty, v)
			} else {
				g.cellStoreWhole(key, ty, g.update(g.cellLoadWhole(g.st, key, ty), rest, v))
			}
			return
		}
	}
	switch l.kind {
	case lCell, lGlobal:
		g.set(l.key, g.update(g.get(g.st, l.key), l.path, v))
	case lField, lScalar:
		h := g.get(g.st, l.key)
		g.set(l.key, app("store", h, l.ref, g.update(app("select", h, l.ref), l.path, v)))
	case lElem:
		h := g.get(g.st, l.key)
		a := app("select", h, l.ref)
		g.set(l.key, app("store", h, l.ref, app("store", a, l.idx, g.update(app("select", a, l.idx), l.path, v))))
	case lArrRoot:
		g.set(l.key, app("store", g.get(g.st, l.key), l.ref, v))
	case lStructRoot:
		su := l.ty.Underlying().(*types.Struct)
		sn := g.sortOf(l.ty)
		for i := 0; i < su.NumFields(); i++ {
			k := g.fieldKey(l.ty, i)
			g.set(k, app("store", g.get(g.st, k), l.ref, app(g.fieldAcc(sn, su, i), v)))
		}
	default:
		g.flag("store-through-opaque-pointer")
		g.havocAll()
	}
}

// nilCheck: dereferencing l requires its root pointer to be non-nil.
func (g *Gen) nilCheck(l *Loc, pos token.Pos) {
	switch l.kind {
	case lField, lScalar, lStructRoot, lArrRoot:
		if strings.HasPrefix(l.ref, "gid.") {
			return
		}
		g.mayPanic("nil", app("distinct", l.ref, "0"), pos)
	}
}

// mayPanic: `safe` must hold or the instruction panics.
func (g *Gen) mayPanic(kind, safe string, pos token.Pos) {
	if safe == "true" {
		return
	}
	if g.pass == 1 {
		if g.panicSites == nil {
			g.panicSites = map[string][]token.Pos{}
		}
		g.panicSites[kind] = append(g.panicSites[kind], pos)
	}
	if g.fc != nil && g.fc.NoPanic && g.pass == 2 && g.inlineDepth == 0 &&
		(len(g.fc.NoPanicKinds) == 0 || containsStr(g.fc.NoPanicKinds, kind)) &&
		!(containsStr(g.fc.NoPanicKinds, "recovered") && g.recoverArmedHere()) {
		// ordinal in source order (rank of the position among this kind's sites), stable under
		// changes of block processing order
		rank := 1
		for _, p := range g.panicSites[kind] {
			if p < pos {
				rank++
			}
		}
		g.callOrd["nopanic:"+kind+fmtf(":%d", rank)]++
		name := fmtf("%s/nopanic#%s.%d", g.fnLabel(), kind, rank)
		if c := g.callOrd["nopanic:"+kind+fmtf(":%d", rank)]; c > 1 {
			name += fmtf("_%d", c)
		}
		g.oblige("nopanic", name, safe, g.fc.NoPanicProps, "no "+kind+" panic", pos)
	}
	g.assume(safe)
}

// recoverArmedHere: a deferred function literal that calls recover() in its entry block was
// registered on every path to the current block, so a panic here does not escape the function
// (`nopanic(..., recovered)` exempts such sites: the contract is then "no panic ESCAPES").
func (g *Gen) recoverArmedHere() bool {
	for _, d := range g.defers {
		db := d.Block()
		if db != g.cur && !db.Dominates(g.cur) {
			continue
		}
		if recoversAll(d) {
			return true
		}
	}
	return false
}

// ---------- values ----------

func (g *Gen) val(v ssa.Value) string {
	if t, ok := g.vals[v]; ok {
		return t
	}
	var t string
	switch v := v.(type) {
	case *ssa.Const:
		t = g.constVal(v)
		return t // not cached: type-dependent zero values are cheap
	case *ssa.Global:
		t = g.declare(sym("gaddr."+v.Name()), "Int")
		g.axiomOnce("gaddr."+v.Name(), fmtf("(> %s 0)", t))
	case *ssa.Function:
		t = g.declare(sym("fn."+g.c.label(v)), "Int")
		g.axiomOnce("fn."+t, fmtf("(> %s 0)", t))
	case *ssa.Builtin:
		t = "0"
	case *ssa.FieldAddr, *ssa.IndexAddr:
		// a derived pointer used as a value. The address of a field of a heap object is a function
		// of the object (and the field), so that `&x.embedded` handed to a promoted method can be
		// related to x (spec: embedded(x, "field")); anything else is opaque.
		if fa, ok := v.(*ssa.FieldAddr); ok {
			st := derefType(fa.X.Type())
			su := st.Underlying().(*types.Struct)
			if base := g.locOf(fa.X); base.kind == lStructRoot {
				t = g.fieldPtr(st, su.Field(fa.Field).Name(), base.ref)
				break
			}
			if inner, ok := fa.X.(*ssa.FieldAddr); ok { // &x.a.b: a field of an embedded struct
				t = g.fieldPtr(st, su.Field(fa.Field).Name(), g.val(inner))
				break
			}
		}
		t = g.declare(sym("ptr_"+v.Name()), "Int")
		g.axiomOnce("ptr."+t, fmtf("(> %s 0)", t))
	case *ssa.Alloc:
		t = g.declare(sym("alloc_"+v.Name()), "Int")
	default:
		if _, isTuple := v.Type().(*types.Tuple); isTuple {
			panic("tuple value used directly: " + v.Name())
		}
		// not yet defined (e.g. value from an unprocessed block): declare unconstrained
		t = g.declare(sym("v_"+v.Name()), g.sortOf(v.Type()))
	}
	g.vals[v] = t
	return t
}

func (g *Gen) constVal(c *ssa.Const) string {
	t := types.Unalias(c.Type())
	if c.Value == nil {
		return g.zero(t)
	}
	switch c.Value.Kind() {
	case constant.Bool:
		if constant.BoolVal(c.Value) {
			return "true"
		}
		return "false"
	case constant.Int:
		if isFloat(t) {
			return c.Value.ExactString() + ".0"
		}
		n, _ := new(big.Int).SetString(c.Value.ExactString(), 10)
		return num(n)
	case constant.String:
		return g.strLit(constant.StringVal(c.Value))
	case constant.Float:
		r, ok := new(big.Rat).SetString(c.Value.ExactString())
		if !ok {
			return g.fresh("float", "Real")
		}
		if isInt(t) {
			return num(new(big.Int).Quo(r.Num(), r.Denom()))
		}
		s := fmtf("(/ %s.0 %s.0)", new(big.Int).Abs(r.Num()).String(), r.Denom().String())
		if r.Sign() < 0 {
			return "(- " + s + ")"
		}
		return s
	}
	return g.fresh("const", g.sortOf(t))
}

func (g *Gen) define(v ssa.Value, term string) {
	if _, isTuple := v.Type().(*types.Tuple); isTuple {
		panic("define tuple")
	}
	name := g.declare(sym("v_"+v.Name()), g.sortOf(v.Type()))
	g.vals[v] = name
	g.assume(app("=", name, term))
}

// defineFresh declares v as an unconstrained value of its type.
func (g *Gen) defineFresh(v ssa.Value) string {
	name := g.declare(sym("v_"+v.Name()), g.sortOf(v.Type()))
	g.vals[v] = name
	g.assume(g.typeFacts(name, v.Type()))
	return name
}

func (g *Gen) freshOf(prefix string, t types.Type) string {
	n := g.fresh(prefix, g.sortOf(t))
	g.assume(g.typeFacts(n, t))
	g.observe(n, t)
	return n
}

// newObject returns a fresh object id (array / struct / map / cell).
// Allocation clock: atime(ref) orders objects by when they came into existence. Every
// allocation site outside a loop gets the next value of a static counter; a pointer-like value
// OBSERVED (parameter, call result, load) outside a loop existed by then, so its atime is at
// most the counter at that point and every later allocation is distinct from it. Inside loops
// values flow across back edges, so observations there assert nothing and allocations only get
// a lower bound.
func (g *Gen) inLoop(b *ssa.BasicBlock) bool {
	if b == nil {
		return false
	}
	for _, l := range g.loops {
		if l.blocks[b] {
			return true
		}
	}
	return false
}

func (g *Gen) observe(term string, t types.Type) {
	if g.inLoop(g.cur) {
		return
	}
	var ref string
	switch types.Unalias(t).Underlying().(type) {
	case *types.Pointer, *types.Map, *types.Chan:
		ref = term
	case *types.Slice:
		ref = app("s_arr", term)
	default:
		return
	}
	g.declareFun("atime", []string{"Int"}, "Int")
	f := app("<=", app("atime", ref), numI(int64(g.allocCounter)))
	if g.cur == nil {
		g.global(f)
	} else {
		g.assume(f)
	}
}

func (g *Gen) newObject(prefix string) string {
	id := g.fresh(prefix, "Int")
	g.declareFun("alloc0", []string{"Int"}, "Bool")
	g.declareFun("atime", []string{"Int"}, "Int")
	g.allocCounter++
	if g.inLoop(g.cur) {
		g.assume(app(">=", app("atime", id), numI(int64(g.allocCounter))))
	} else {
		g.assume(app("=", app("atime", id), numI(int64(g.allocCounter))))
	}
	g.assume(app(">", id, "0"))
	g.assume(not(app("alloc0", id)))
	// A new object differs from every object an SSA value in scope already denotes: values whose
	// definition dominates this allocation were computed before it in the current iteration (or
	// before the loop), so they cannot refer to the object being created now.
	if g.cur != nil {
		var refs []string
		for v, term := range g.vals {
			var ref string
			switch types.Unalias(v.Type()).Underlying().(type) {
			case *types.Pointer, *types.Map, *types.Chan:
				ref = term
			case *types.Slice:
				ref = app("s_arr", term)
			default:
				continue
			}
			switch d := v.(type) {
			case *ssa.Parameter, *ssa.FreeVar:
			case ssa.Instruction:
				b := d.Block()
				if b == nil || !(b == g.cur || b.Dominates(g.cur)) {
					continue
				}
			default:
				continue
			}
			if ref == id {
				continue
			}
			refs = append(refs, ref)
		}
		sort.Strings(refs)
		for _, r := range refs {
			g.assume(app("distinct", id, r))
		}
	}
	for _, o := range g.allocSites {
		g.assume(app("distinct", id, o))
	}
	g.allocSites = append(g.allocSites, id)
	return id
}

// markAllocated records that a pointer-like input existed at function entry.
func (g *Gen) markAllocated(term string, t types.Type) {
	g.declareFun("alloc0", []string{"Int"}, "Bool")
	switch types.Unalias(t).Underlying().(type) {
	case *types.Pointer, *types.Map:
		g.global(implies(app("distinct", term, "0"), app("alloc0", term)))
	case *types.Slice:
		g.global(implies(app("distinct", app("s_arr", term), "0"), app("alloc0", app("s_arr", term))))
	}
}

// ---------- instructions ----------

func (g *Gen) instr(in ssa.Instruction) {
	switch in := in.(type) {
	case *ssa.DebugRef:
		if id, ok := in.Expr.(interface{ String() string }); ok {
			_ = id
		}
		if obj := in.Object(); obj != nil {
			if v, ok := obj.(*types.Var); !ok || v.IsField() {
				return // only local variables and parameters are nameable in contracts
			}
			g.seq++
			g.names[obj.Name()] = append(g.names[obj.Name()], nameRef{in.X, in.IsAddr, g.cur, g.seq})
		}
	case *ssa.Alloc:
		et := derefType(in.Type())
		if !g.escape[in] {
			l := g.locOf(in)
			g.store(l, g.zero(et))
		} else {
			id := g.newObject("new_" + in.Name())
			g.vals[in] = id
			l := g.locOf(in)
			g.store(l, g.zero(et))
		}
	case *ssa.Store:
		l := g.locOf(in.Addr)
		g.nilCheck(l, in.Pos())
		g.storeClauses(in)
		g.store(l, g.val(in.Val))
	case *ssa.UnOp:
		g.unop(in)
	case *ssa.BinOp:
		g.define(in, g.binop(in.Op, in.X, in.Y, in.Type(), in.Pos()))
	case *ssa.FieldAddr, *ssa.IndexAddr:
		l := g.locOf(in.(ssa.Value))
		if ia, ok := in.(*ssa.IndexAddr); ok {
			g.indexCheck(ia, l)
		} else {
			fa := in.(*ssa.FieldAddr)
			bl := g.locOf(fa.X)
			g.nilCheck(bl, in.Pos())
		}
	case *ssa.Field:
		st := in.X.Type()
		su := st.Underlying().(*types.Struct)
		g.define(in, app(g.fieldAcc(g.sortOf(st), su, in.Field), g.val(in.X)))
		g.assume(g.typeFacts(g.vals[in], in.Type()))
	case *ssa.Index:
		switch xt := types.Unalias(in.X.Type()).Underlying().(type) {
		case *types.Array:
			g.mayPanic("index", and(app("<=", "0", g.val(in.Index)), app("<", g.val(in.Index), numI(xt.Len()))), in.Pos())
			g.define(in, app("select", g.val(in.X), g.val(in.Index)))
			g.assume(g.typeFacts(g.vals[in], in.Type()))
		default:
			if isString(in.X.Type()) {
				s := g.val(in.X)
				g.mayPanic("index", and(app("<=", "0", g.val(in.Index)), app("<", g.val(in.Index), app("slen", s))), in.Pos())
				g.define(in, app("sat", s, g.val(in.Index)))
			} else {
				g.flag("index-generic")
				g.defineFresh(in)
			}
		}
	case *ssa.Lookup:
		g.lookup(in)
	case *ssa.Slice:
		g.sliceOp(in)
	case *ssa.Phi:
		// handled at block entry
	case *ssa.Call:
		g.call(in, &in.Call)
	case *ssa.Defer:
		g.defers = append(g.defers, in)
		// the point at which the deferred call is registered can be named in call-site clauses as
		// "defer:<callee>" (`at call "defer:(*T).m$3" mark registered`): what is registered before
		// a call runs also when that call panics, which the sequential model of this engine cannot
		// say in any other way
		g.callSiteClauses("defer:"+g.siteLabel(&in.Call), 1, nil, in.Pos())
	case *ssa.Go:
		g.flag("go-statement")
		g.havocAll()
	case *ssa.RunDefers:
		g.runDefers(in)
	case *ssa.Convert:
		g.convert(in)
	case *ssa.ChangeType:
		if g.sortOf(in.X.Type()) == g.sortOf(in.Type()) {
			g.define(in, g.val(in.X))
		} else {
			g.flag("changetype-sort-mismatch")
			g.defineFresh(in)
		}
	case *ssa.ChangeInterface:
		g.define(in, g.val(in.X))
	case *ssa.MakeInterface:
		xt := in.X.Type()
		g.needIface()
		g.define(in, app("mk_iface", g.typeTag(xt), g.box(g.val(in.X), xt)))
	case *ssa.TypeAssert:
		g.typeAssert(in)
	case *ssa.Extract:
		tup := g.tuples[in.Tuple]
		if tup == nil || in.Index >= len(tup) {
			g.flag("extract-unknown-tuple")
			g.defineFresh(in)
		} else {
			g.define(in, tup[in.Index])
		}
	case *ssa.MakeSlice:
		ln, cp := g.val(in.Len), g.val(in.Cap)
		g.mayPanic("makeslice", and(app("<=", "0", ln), app("<=", ln, cp)), in.Pos())
		id := g.newObject("mk_" + in.Name())
		et := in.Type().Underlying().(*types.Slice).Elem()
		k := g.elemKey(et)
		g.set(k, app("store", g.get(g.st, k), id, g.constArray("(Array Int "+g.sortOf(et)+")", g.zero(et))))
		g.define(in, app("mk_slice", id, "0", ln, cp))
	case *ssa.MakeMap:
		id := g.newObject("map_" + in.Name())
		mt := in.Type().Underlying().(*types.Map)
		dk, vk, lk := g.mapKeys(in.Type())
		g.set(dk, app("store", g.get(g.st, dk), id, fmtf("((as const (Array %s Bool)) false)", g.sortOf(mt.Key()))))
		g.set(lk, app("store", g.get(g.st, lk), id, "0"))
		_ = vk
		g.define(in, id)
	case *ssa.MakeChan:
		g.define(in, g.newObject("chan_"+in.Name()))
	case *ssa.MakeClosure:
		id := g.newObject("clo_" + in.Name())
		g.closures[in] = in
		g.define(in, id)
		// captured pointers escape into the closure: handled by the alloc escape analysis
	case *ssa.MapUpdate:
		g.mapUpdate(in)
	case *ssa.Range:
		g.vals[in] = "0"
	case *ssa.Next:
		g.next(in)
	case *ssa.Select:
		g.selectOp(in)
	case *ssa.Send:
		g.flag("chan-send")
	case *ssa.SliceToArrayPointer:
		g.flag("slice-to-array-pointer")
		g.defineFresh(in)
	case *ssa.MultiConvert:
		g.flag("multiconvert")
		g.defineFresh(in)
	case *ssa.If, *ssa.Jump:
	case *ssa.Return:
		g.ret(in)
	case *ssa.Panic:
		if g.fc != nil && g.fc.NoPanic && g.pass == 2 && g.inlineDepth == 0 &&
			(len(g.fc.NoPanicKinds) == 0 || containsStr(g.fc.NoPanicKinds, "explicit")) {
			g.callOrd["nopanic:explicit"]++
			g.oblige("nopanic", fmtf("%s/nopanic#explicit.%d", g.fnLabel(), g.callOrd["nopanic:explicit"]), "false", g.fc.NoPanicProps, "explicit panic unreachable", in.Pos())
		}
	default:
		g.flag("instr:" + strings.TrimPrefix(fmtf("%T", in), "*ssa."))
		if v, ok := in.(ssa.Value); ok {
			if _, isTuple := v.Type().(*types.Tuple); !isTuple {
				g.defineFresh(v)
			}
		}
	}
}

func (g *Gen) indexCheck(ia *ssa.IndexAddr, l *Loc) {
	i := g.val(ia.Index)
	switch xt := types.Unalias(ia.X.Type()).Underlying().(type) {
	case *types.Slice:
		s := g.val(ia.X)
		g.mayPanic("index", and(app("<=", "0", i), app("<", i, app("s_len", s))), ia.Pos())
	case *types.Pointer:
		arr := xt.Elem().Underlying().(*types.Array)
		bl := g.locOf(ia.X)
		g.nilCheck(bl, ia.Pos())
		g.mayPanic("index", and(app("<=", "0", i), app("<", i, numI(arr.Len()))), ia.Pos())
	}
}

func (g *Gen) unop(in *ssa.UnOp) {
	switch in.Op {
	case token.MUL: // load
		l := g.locOf(in.X)
		g.nilCheck(l, in.Pos())
		t := g.loadIn(g.st, l)
		g.define(in, t)
		g.assume(g.typeFacts(g.vals[in], in.Type()))
		g.observe(g.vals[in], in.Type())
		g.loadClauses(in)
		if gv, ok := in.X.(*ssa.Global); ok && gv.Pkg == g.c.pkg {
			// a `constmap` of this package: its declared keys are present whenever it is read (the
			// declaration is itself an obligation, constmap/<var>)
			for _, cm := range g.c.constMaps {
				if cm.Var != gv.Name() || !isMap(in.Type()) {
					continue
				}
				dk, _, _ := g.mapKeys(in.Type())
				for _, ke := range cm.Keys {
					if k, ok := g.c.constKeyString(ke); ok {
						g.assume(and(app("distinct", g.vals[in], "0"), app("select", app("select", g.get(g.st, dk), g.vals[in]), g.strLit(k))))
					}
				}
			}
		}
		if gv, ok := in.X.(*ssa.Global); ok && gv.Pkg != nil {
			// trusted facts about a package-level variable of another package (`globalfact time.UTC isUTCLoc`)
			for _, gf := range g.c.globalFacts {
				if gf.Var == gv.Pkg.Pkg.Name()+"."+gv.Name() {
					if gd, ok := g.c.ghosts[gf.Pred]; ok && !gd.IsVar && len(gd.Params) == 1 {
						fn := g.declareFun(sym("ghost."+gf.Pred), []string{g.sortOf(in.Type())}, "Bool")
						g.assume(app(fn, g.vals[in]))
						g.trusted["globalfact "+gf.Var+" "+gf.Pred] = true
					}
				}
			}
		}
	case token.NOT:
		g.define(in, not(g.val(in.X)))
	case token.SUB:
		if isFloat(in.Type()) {
			g.define(in, app("-", g.val(in.X)))
		} else {
			g.define(in, wrapTerm(app("-", g.val(in.X)), in.Type(), true))
		}
	case token.XOR:
		_, signed, ok := intInfo(in.Type())
		if !ok {
			g.defineFresh(in)
			return
		}
		if signed {
			g.define(in, app("-", app("-", g.val(in.X)), "1"))
		} else {
			_, hi, _ := intRange(in.Type())
			g.define(in, app("-", num(hi), g.val(in.X)))
		}
	case token.ARROW:
		g.flag("chan-recv")
		if in.CommaOk {
			v := g.freshOf("recv", in.Type().(*types.Tuple).At(0).Type())
			ok := g.fresh("recvok", "Bool")
			g.tuples[in] = []string{v, ok}
		} else {
			g.defineFresh(in)
		}
	default:
		g.flag("unop:" + in.Op.String())
		g.defineFresh(in)
	}
}

func bigOfConst(v ssa.Value) (*big.Int, bool) {
	c, ok := v.(*ssa.Const)
	if !ok || c.Value == nil || c.Value.Kind() != constant.Int {
		return nil, false
	}
	n, ok := new(big.Int).SetString(c.Value.ExactString(), 10)
	return n, ok
}

func (g *Gen) binop(op token.Token, X, Y ssa.Value, rt types.Type, pos token.Pos) string {
	x, y := g.val(X), g.val(Y)
	xt := types.Unalias(X.Type())
	switch op {
	case token.EQL, token.NEQ:
		eq := g.equal(X, Y)
		if op == token.NEQ {
			return not(eq)
		}
		return eq
	}
	switch {
	case isInt(xt):
		switch op {
		case token.ADD:
			return wrapTerm(app("+", x, y), rt, true)
		case token.SUB:
			return wrapTerm(app("-", x, y), rt, true)
		case token.MUL:
			return wrapTerm(app("*", x, y), rt, false)
		case token.QUO, token.REM:
			g.mayPanic("divide", app("distinct", y, "0"), pos)
			// Go truncated division from SMT floor/euclidean div/mod
			q := fmtf("(ite (>= %s 0) (ite (> %s 0) (div %s %s) (- (div %s (- %s)))) (ite (> %s 0) (- (div (- %s) %s)) (div (- %s) (- %s))))", x, y, x, y, x, y, y, x, y, x, y)
			if op == token.QUO {
				return wrapTerm(q, rt, true)
			}
			return app("-", x, app("*", y, q))
		case token.LSS:
			return app("<", x, y)
		case token.LEQ:
			return app("<=", x, y)
		case token.GTR:
			return app(">", x, y)
		case token.GEQ:
			return app(">=", x, y)
		case token.SHL:
			if k, ok := bigOfConst(Y); ok && k.IsInt64() && k.Int64() < 64 {
				return wrapTerm(app("*", x, num(pow2(int(k.Int64())))), rt, false)
			}
		case token.SHR:
			if k, ok := bigOfConst(Y); ok && k.IsInt64() && k.Int64() < 64 {
				return app("div", x, num(pow2(int(k.Int64()))))
			}
		case token.AND:
			for _, pair := range [][2]ssa.Value{{X, Y}, {Y, X}} {
				if k, ok := bigOfConst(pair[1]); ok && k.Sign() >= 0 {
					k1 := new(big.Int).Add(k, big.NewInt(1))
					if new(big.Int).And(k1, k).Sign() == 0 { // k = 2^n - 1
						return app("mod", g.val(pair[0]), num(k1))
					}
				}
			}
		}
		// abstracted bit operation
		g.flag("bitop:" + op.String())
		w, _, _ := intInfo(rt)
		fn := g.declareFun(sym(fmtf("bitop.%s.%d", op.String(), w)), []string{"Int", "Int"}, "Int")
		r := g.fresh("bit", "Int")
		g.assume(app("=", r, app(fn, x, y)))
		g.assume(rangeFact(r, rt))
		if op == token.AND {
			_, sx, _ := intInfo(xt)
			if !sx {
				g.assume(and(app("<=", r, x), app("<=", r, y)))
			}
		}
		if op == token.OR {
			_, sx, _ := intInfo(xt)
			if !sx {
				g.assume(and(app(">=", r, x), app(">=", r, y)))
			}
		}
		return r
	case isFloat(xt):
		switch op {
		case token.ADD:
			return app("+", x, y)
		case token.SUB:
			return app("-", x, y)
		case token.MUL:
			return app("*", x, y)
		case token.QUO:
			return app("/", x, y)
		case token.LSS:
			return app("<", x, y)
		case token.LEQ:
			return app("<=", x, y)
		case token.GTR:
			return app(">", x, y)
		case token.GEQ:
			return app(">=", x, y)
		}
	case isString(xt):
		switch op {
		case token.ADD:
			return g.sconcat(x, y)
		case token.LSS, token.LEQ, token.GTR, token.GEQ:
			fn := g.declareFun("str.lt", []string{"Str", "Str"}, "Bool")
			switch op {
			case token.LSS:
				return app(fn, x, y)
			case token.GTR:
				return app(fn, y, x)
			case token.LEQ:
				return not(app(fn, y, x))
			default:
				return not(app(fn, x, y))
			}
		}
	case isBool(xt):
		switch op {
		case token.AND:
			return and(x, y)
		case token.OR:
			return or(x, y)
		}
	}
	g.flag("binop:" + op.String())
	return g.fresh("binop", g.sortOf(rt))
}

func isNilConst(v ssa.Value) bool {
	c, ok := v.(*ssa.Const)
	return ok && c.Value == nil
}

func (g *Gen) equal(X, Y ssa.Value) string {
	xt := types.Unalias(X.Type())
	if isIface(xt) || isIface(Y.Type()) {
		if isNilConst(Y) {
			return app("=", app("i_tag", g.val(X)), "0")
		}
		if isNilConst(X) {
			return app("=", app("i_tag", g.val(Y)), "0")
		}
	}
	if isSlice(xt) {
		if isNilConst(Y) {
			return app("=", app("s_arr", g.val(X)), "0")
		}
		if isNilConst(X) {
			return app("=", app("s_arr", g.val(Y)), "0")
		}
	}
	return app("=", g.val(X), g.val(Y))
}

func (g *Gen) sconcat(x, y string) string {
	fn := g.declareFun("sconcat", []string{"Str", "Str"}, "Str")
	g.axiomOnce("sconcat",
		// (no string is longer than 2^56 bytes — the global bound on slen — so a concatenation that would
		// be longer cannot complete; its length is clamped to keep the axioms consistent)
		"(forall ((a Str) (b Str)) (! (= (slen (sconcat a b)) (ite (<= (+ (slen a) (slen b)) 72057594037927936) (+ (slen a) (slen b)) 72057594037927936)) :pattern ((sconcat a b))))",
		"(forall ((a Str) (b Str) (i Int)) (! (= (sat (sconcat a b) i) (ite (< i (slen a)) (sat a i) (sat b (- i (slen a))))) :pattern ((sat (sconcat a b) i))))")
	return app(fn, x, y)
}

func (g *Gen) ssub(s, lo, hi string) string {
	fn := g.declareFun("ssub", []string{"Str", "Int", "Int"}, "Str")
	g.axiomOnce("ssub",
		"(forall ((s Str) (a Int) (b Int)) (! (=> (and (<= 0 a) (<= a b) (<= b (slen s))) (= (slen (ssub s a b)) (- b a))) :pattern ((ssub s a b))))",
		"(forall ((s Str) (a Int) (b Int) (i Int)) (! (=> (and (<= 0 i) (< i (- b a))) (= (sat (ssub s a b) i) (sat s (+ a i)))) :pattern ((sat (ssub s a b) i))))",
		"(forall ((s Str)) (! (= (ssub s 0 (slen s)) s) :pattern ((ssub s 0 (slen s)))))")
	return app(fn, s, lo, hi)
}

func (g *Gen) convert(in *ssa.Convert) {
	from, to := types.Unalias(in.X.Type()), types.Unalias(in.Type())
	x := g.val(in.X)
	switch {
	case isInt(from) && isInt(to):
		flo, fhi, fok := intRange(from)
		tlo, thi, tok := intRange(to)
		if fok && tok && flo.Cmp(tlo) >= 0 && fhi.Cmp(thi) <= 0 {
			g.define(in, x)
		} else if tok {
			g.define(in, wrapTerm(x, to, false))
		} else {
			g.define(in, x)
		}
	case isInt(from) && isFloat(to):
		g.define(in, app("to_real", x))
	case isFloat(from) && isFloat(to):
		g.define(in, x)
	case isFloat(from) && isInt(to):
		g.flag("float-to-int")
		// truncation toward zero when in range; otherwise implementation-defined
		n := g.defineFresh(in)
		g.assume(implies(and(app(">=", x, "0.0"), app("<=", x, "9223372036854775000.0")), and(app("<=", app("to_real", n), x), app("<", x, app("+", app("to_real", n), "1.0")))))
	case isString(from) && isSlice(to): // []byte(s)
		et := to.Underlying().(*types.Slice).Elem()
		id := g.newObject("bytes_" + in.Name())
		k := g.elemKey(et)
		arr := g.fresh("arr", "(Array Int "+g.sortOf(et)+")")
		if isInt(et) && g.sortOf(et) == "Int" {
			g.assume(fmtf("(forall ((i Int)) (! (=> (and (<= 0 i) (< i (slen %s))) (= (select %s i) (sat %s i))) :pattern ((select %s i))))", x, arr, x, arr))
		}
		g.set(k, app("store", g.get(g.st, k), id, arr))
		g.define(in, app("mk_slice", id, "0", app("slen", x), app("slen", x)))
	case isSlice(from) && isString(to): // string(b)
		g.define(in, g.strOfBytes(g.st, x, from))
	case isString(from) && isString(to):
		g.define(in, x)
	case isInt(from) && isString(to):
		g.flag("rune-to-string")
		g.defineFresh(in)
	default:
		if g.sortOf(from) == g.sortOf(to) {
			g.define(in, x)
		} else {
			g.flag("convert")
			g.defineFresh(in)
		}
	}
}

// strOfBytes: the string with the bytes of slice b in state st.
func (g *Gen) strOfBytes(st *State, b string, bt types.Type) string {
	g.needStr()
	et := bt.Underlying().(*types.Slice).Elem()
	k := g.elemKey(et)
	fn := g.declareFun("str.of", []string{"(Array Int Int)", "Int", "Int"}, "Str")
	g.axiomOnce("str.of",
		"(forall ((a (Array Int Int)) (o Int) (n Int)) (! (=> (>= n 0) (= (slen (str.of a o n)) (ite (<= n 72057594037927936) n 72057594037927936))) :pattern ((str.of a o n))))",
		"(forall ((a (Array Int Int)) (o Int) (n Int) (i Int)) (! (=> (and (<= 0 i) (< i n) (<= 0 (select a (+ o i))) (<= (select a (+ o i)) 255)) (= (sat (str.of a o n) i) (select a (+ o i)))) :pattern ((sat (str.of a o n) i))))")
	return app(fn, app("select", g.get(st, k), app("s_arr", b)), app("s_off", b), app("s_len", b))
}

func (g *Gen) typeAssert(in *ssa.TypeAssert) {
	x := g.val(in.X)
	at := types.Unalias(in.AssertedType)
	var ok, v string
	if isIface(at) {
		fn := g.declareFun(sym("impl."+typeKey(at)), []string{"Int"}, "Bool")
		ok = and(app("distinct", app("i_tag", x), "0"), app(fn, app("i_tag", x)))
		g.implFacts(at)
		v = x
	} else {
		ok = app("=", app("i_tag", x), g.typeTag(at))
		v = g.unbox(app("i_val", x), at)
	}
	if in.CommaOk {
		okc := g.fresh("taok", "Bool")
		g.assume(app("=", okc, ok))
		vc := g.freshOf("taval", at)
		g.assume(implies(okc, app("=", vc, v)))
		g.assume(implies(not(okc), app("=", vc, g.zero(at))))
		g.tuples[in] = []string{vc, okc}
	} else {
		kind := "typeassert"
		srcName := ""
		switch x := in.X.(type) {
		case *ssa.Parameter:
			srcName = x.Name()
		case *ssa.Phi:
			srcName = x.Comment // the source variable the phi merges (a parameter re-assigned on some path)
		}
		if srcName != "" && g.fc != nil && containsStr(g.fc.NoPanicKinds, "assert_"+srcName) {
			// `nopanic(assert_<param>)`: only the unchecked dynamic-type assertions on that
			// parameter are obligations — for functions whose other assertions rest on facts the
			// engine cannot see (a builder's type following from an arrow type id)
			kind = "assert_" + srcName
		}
		g.mayPanic(kind, ok, in.Pos())
		g.define(in, v)
	}
}

// implFacts: impl.I(tag) for the tags of known concrete types.
func (g *Gen) implFacts(it types.Type) {
	iface := it.Underlying().(*types.Interface)
	fn := sym("impl." + typeKey(it))
	seen := false
	for _, t := range g.implIfaces {
		if types.Identical(t, it) {
			seen = true
		}
	}
	if !seen {
		g.implIfaces = append(g.implIfaces, it)
	}
	for k, tag := range g.tags {
		name := "implfact." + fn + "." + tag
		if g.usedAxioms[name] {
			continue
		}
		if t := g.c.typeByKey[k]; t != nil {
			g.usedAxioms[name] = true
			if types.Implements(t, iface) {
				g.global(app(fn, tag))
			} else {
				g.global(not(app(fn, tag)))
			}
		}
	}
}

func (g *Gen) sliceOp(in *ssa.Slice) {
	x := g.val(in.X)
	xt := types.Unalias(in.X.Type()).Underlying()
	lo := "0"
	if in.Low != nil {
		lo = g.val(in.Low)
	}
	switch xt := xt.(type) {
	case *types.Basic: // string
		hi := app("slen", x)
		if in.High != nil {
			hi = g.val(in.High)
		}
		g.mayPanic("slice", and(app("<=", "0", lo), app("<=", lo, hi), app("<=", hi, app("slen", x))), in.Pos())
		g.define(in, g.ssub(x, lo, hi))
	case *types.Slice:
		hi := app("s_len", x)
		if in.High != nil {
			hi = g.val(in.High)
		}
		mx := app("s_cap", x)
		if in.Max != nil {
			mx = g.val(in.Max)
			g.mayPanic("slice", and(app("<=", "0", lo), app("<=", lo, hi), app("<=", hi, mx), app("<=", mx, app("s_cap", x))), in.Pos())
		} else {
			g.mayPanic("slice", and(app("<=", "0", lo), app("<=", lo, hi), app("<=", hi, app("s_cap", x))), in.Pos())
		}
		g.define(in, app("mk_slice", app("s_arr", x), app("+", app("s_off", x), lo), app("-", hi, lo), app("-", mx, lo)))
	case *types.Pointer: // *[N]T
		arr := xt.Elem().Underlying().(*types.Array)
		l := g.locOf(in.X)
		n := numI(arr.Len())
		hi := n
		if in.High != nil {
			hi = g.val(in.High)
		}
		mx := n
		if in.Max != nil {
			mx = g.val(in.Max)
		}
		g.mayPanic("slice", and(app("<=", "0", lo), app("<=", lo, hi), app("<=", hi, mx), app("<=", mx, n)), in.Pos())
		if l.kind == lArrRoot {
			g.define(in, app("mk_slice", l.ref, lo, app("-", hi, lo), app("-", mx, lo)))
		} else {
			g.flag("slice-of-embedded-array")
			id := g.newObject("arrcopy_" + in.Name())
			k := g.elemKey(arr.Elem())
			g.set(k, app("store", g.get(g.st, k), id, g.loadIn(g.st, l)))
			g.define(in, app("mk_slice", id, lo, app("-", hi, lo), app("-", mx, lo)))
		}
	default:
		g.flag("slice-generic")
		g.defineFresh(in)
	}
}

// ---------- maps ----------

func (g *Gen) mapKeys(t types.Type) (dom, val, ln string) {
	mt := types.Unalias(t).Underlying().(*types.Map)
	k := typeKey(types.Unalias(t).Underlying())
	ks, vs := g.sortOf(mt.Key()), g.sortOf(mt.Elem())
	dom, val, ln = "MD:"+k, "MV:"+k, "ML:"+k
	g.keyDecl(dom, fmtf("(Array Int (Array %s Bool))", ks))
	g.keyDecl(val, fmtf("(Array Int (Array %s %s))", ks, vs))
	g.keyDecl(ln, "(Array Int Int)")
	return
}

func (g *Gen) lookup(in *ssa.Lookup) {
	xt := types.Unalias(in.X.Type())
	if isString(xt) {
		s := g.val(in.X)
		g.mayPanic("index", and(app("<=", "0", g.val(in.Index)), app("<", g.val(in.Index), app("slen", s))), in.Pos())
		g.define(in, app("sat", s, g.val(in.Index)))
		return
	}
	mt, ok := xt.Underlying().(*types.Map)
	if !ok {
		g.flag("lookup-generic")
		if in.CommaOk {
			g.tuples[in] = []string{g.freshOf("lk", in.Type().(*types.Tuple).At(0).Type()), g.fresh("lkok", "Bool")}
		} else {
			g.defineFresh(in)
		}
		return
	}
	dk, vk, _ := g.mapKeys(xt)
	m, k := g.val(in.X), g.val(in.Index)
	has := and(app("distinct", m, "0"), app("select", app("select", g.get(g.st, dk), m), k))
	v := app("ite", has, app("select", app("select", g.get(g.st, vk), m), k), g.zero(mt.Elem()))
	if in.CommaOk {
		vc := g.freshOf("lk", mt.Elem())
		g.assume(app("=", vc, v))
		okc := g.fresh("lkok", "Bool")
		g.assume(app("=", okc, has))
		g.tuples[in] = []string{vc, okc}
	} else {
		g.define(in, v)
		g.assume(g.typeFacts(g.vals[in], in.Type()))
	}
}

func (g *Gen) mapUpdate(in *ssa.MapUpdate) {
	dk, vk, lk := g.mapKeys(in.Map.Type())
	m, k, v := g.val(in.Map), g.val(in.Key), g.val(in.Value)
	g.mayPanic("nilmap", app("distinct", m, "0"), in.Pos())
	d := g.get(g.st, dk)
	had := app("select", app("select", d, m), k)
	l := g.get(g.st, lk)
	g.set(lk, app("store", l, m, app("ite", had, app("select", l, m), app("+", app("select", l, m), "1"))))
	g.set(dk, app("store", d, m, app("store", app("select", d, m), k, "true")))
	vv := g.get(g.st, vk)
	g.set(vk, app("store", vv, m, app("store", app("select", vv, m), k, v)))
}

func (g *Gen) next(in *ssa.Next) {
	tup := in.Type().(*types.Tuple)
	ok := g.fresh("nextok", "Bool")
	kt, vt := tup.At(1).Type(), tup.At(2).Type()
	r, _ := in.Iter.(*ssa.Range)
	var k, v string
	if in.IsString {
		k = g.freshOf("nextk", types.Typ[types.Int])
		v = g.freshOf("nextv", types.Typ[types.Rune])
		if r != nil {
			g.assume(implies(ok, and(app("<=", "0", k), app("<", k, app("slen", g.val(r.X))))))
		}
	} else {
		k = g.zeroOrFresh("nextk", kt)
		v = g.zeroOrFresh("nextv", vt)
		if r != nil && isMap(r.X.Type()) {
			dk, vk, _ := g.mapKeys(r.X.Type())
			m := g.val(r.X)
			if _, inv := kt.(*types.Basic); !(inv && kt.(*types.Basic).Kind() == types.Invalid) {
				g.assume(implies(ok, and(app("distinct", m, "0"), app("select", app("select", g.get(g.st, dk), m), k))))
				if b, isb := vt.(*types.Basic); !(isb && b.Kind() == types.Invalid) {
					g.assume(implies(ok, app("=", v, app("select", app("select", g.get(g.st, vk), m), k))))
				}
			}
		}
	}
	g.tuples[in] = []string{ok, k, v}
}

func (g *Gen) zeroOrFresh(prefix string, t types.Type) string {
	if b, ok := t.(*types.Basic); ok && b.Kind() == types.Invalid {
		return "0"
	}
	return g.freshOf(prefix, t)
}

func (g *Gen) selectOp(in *ssa.Select) {
	g.flag("select")
	tup := in.Type().(*types.Tuple)
	idx := g.fresh("selidx", "Int")
	lo := "0"
	if !in.Blocking {
		lo = "(- 1)"
	}
	g.assume(and(app("<=", lo, idx), app("<", idx, numI(int64(len(in.States))))))
	out := []string{idx, g.fresh("selok", "Bool")}
	for i := 2; i < tup.Len(); i++ {
		out = append(out, g.freshOf("selv", tup.At(i).Type()))
	}
	g.tuples[in] = out
}

// ---------- return ----------

func (g *Gen) ret(in *ssa.Return) {
	if g.pass != 2 || g.fc == nil || g.inlineDepth > 0 {
		return
	}
	var res []string
	for _, r := range in.Results {
		res = append(res, g.val(r))
	}
	g.curRet = in
	g.checkPost(res, in.Pos())
}

// storeClauses: `at store T.f assert [label] expr` — an obligation at every store this function
// makes to field f of a T (evaluated before the store; `value` is what is being stored). It pins
// down WHAT a function may write to a field without needing any frame knowledge about the calls
// in between.
func (g *Gen) storeClauses(in *ssa.Store) {
	if g.fc == nil || g.pass != 2 || g.inlineDepth != 0 {
		return
	}
	fa, ok := in.Addr.(*ssa.FieldAddr)
	if !ok {
		return
	}
	st := derefType(fa.X.Type())
	su, ok := st.Underlying().(*types.Struct)
	if !ok {
		return
	}
	named, ok := types.Unalias(st).(*types.Named)
	if !ok {
		return
	}
	key := named.Obj().Name() + "." + su.Field(fa.Field).Name()
	for _, cl := range g.fc.Clauses {
		if cl.Kind != "storeassert" || cl.Call != key {
			continue
		}
		g.usedAxioms[fmtf("clausehit:%p", cl)] = true
		g.callOrd["store:"+key+":"+cl.Label]++
		env := g.pointEnv(g.st, g.cur, nil)
		env.vars["value"] = TV{g.val(in.Val), in.Val.Type()}
		env.vars["target"] = TV{g.val(fa.X), fa.X.Type()}
		t, err := evalLenientOr(env, cl.E)
		if err != nil {
			g.errorf("%s: at store %s: %v", g.fnLabel(), key, err)
			continue
		}
		name := fmtf("%s/store@%s#%d.%s", g.fnLabel(), key, g.callOrd["store:"+key+":"+cl.Label], cl.Label)
		g.oblige("assert", name, t, cl.Props, cl.Text, in.Pos())
	}
}

// loadClauses: `at load T.f setflag F expr` / `at load T.f mark F` — a path flag records that (and
// with what value) this function read field f of a T. It lets a contract speak about the value a
// decision was taken on, where the heap may have changed between function entry and the read.
func (g *Gen) loadClauses(in *ssa.UnOp) {
	if g.fc == nil || g.inlineDepth != 0 {
		return
	}
	fa, ok := in.X.(*ssa.FieldAddr)
	if !ok {
		return
	}
	st := derefType(fa.X.Type())
	su, ok := st.Underlying().(*types.Struct)
	if !ok {
		return
	}
	named, ok := types.Unalias(st).(*types.Named)
	if !ok {
		return
	}
	key := named.Obj().Name() + "." + su.Field(fa.Field).Name()
	for _, cl := range g.fc.Clauses {
		if (cl.Kind != "loadsetflag" && cl.Kind != "loadmark") || cl.Call != key {
			continue
		}
		fk := "L:pathflag." + cl.Label
		if _, ok := g.keySort[fk]; !ok {
			g.errorf("%s: at load %s: undeclared pathflag %s", g.fnLabel(), key, cl.Label)
			continue
		}
		g.usedAxioms[fmtf("clausehit:%p", cl)] = true
		if cl.Kind == "loadmark" {
			g.set(fk, "true")
			continue
		}
		env := g.pointEnv(g.st, g.cur, nil)
		env.vars["value"] = TV{g.vals[in], in.Type()}
		env.vars["target"] = TV{g.val(fa.X), fa.X.Type()}
		var t string
		var err error
		if _, isVar := g.pathVarType[cl.Label]; isVar {
			var tv TV
			tv, err = env.eval(cl.E)
			t = tv.t
			if err == nil && g.sortOf(tv.ty) != g.keySort[fk] {
				err = errors.New(fmtf("value of type %s does not fit pathvar %s", tv.ty, cl.Label))
			}
		} else {
			t, err = env.evalBool(cl.E)
		}
		if err != nil {
			g.errorf("%s: at load %s: %v", g.fnLabel(), key, err)
			continue
		}
		g.set(fk, t)
	}
}

// evalLenientOr evaluates a disjunction; a disjunct that names a variable which does not exist
// (yet) at this point cannot be the reason the clause holds here, so it counts as false.
func evalLenientOr(env *Env, e Expr) (string, error) {
	if b, ok := e.(*EBin); ok && b.Op == "||" {
		l, err := evalLenientOr(env, b.L)
		if err != nil {
			return "", err
		}
		r, err := evalLenientOr(env, b.R)
		if err != nil {
			return "", err
		}
		return or(l, r), nil
	}
	t, err := env.evalBool(e)
	if err != nil {
		if strings.Contains(err.Error(), "unknown name") {
			return "false", nil
		}
		return "", err
	}
	return t, nil
}
