package main

// Loading /repo's working tree, function labels, the contract registry.

import (
	"go/constant"
	"fmt"
	"go/token"
	"go/types"
	"os"
	"path/filepath"
	"regexp"
	"sort"
	"strconv"
	"strings"

	"golang.org/x/tools/go/packages"
	"golang.org/x/tools/go/ssa"
	"golang.org/x/tools/go/ssa/ssautil"
)

type Ctx struct {
	fset *token.FileSet
	ppkg *packages.Package
	prog *ssa.Program
	pkg  *ssa.Package
	tpkg *types.Package
	dir  string

	pures     map[string]*PureFunc
	ghosts    map[string]*GhostDecl
	contracts map[string]*FuncContract
	specFuncs map[string]*FuncContract // spec-level name -> extern pure contract
	lemmas    []*Lemma
	regexes   []*RegexDecl
	encaps    []*EncapDecl
	globalFacts []*GlobalFact
	constMaps []*ConstMap
	routes    []*RouteTable
	axioms    []*Lemma
	axiomSyms map[string][]string
	specFiles []*SpecFile

	fnByLabel  map[string]*ssa.Function
	sigByLabel map[string]*types.Signature
	typeByKey  map[string]types.Type
	typeCache  map[string]types.Type
	loadErrs   []string
	immutable  map[string]bool // heap keys ("F:pkg.T.f") of fields declared immutable
	immutDecls []string
}

func qualifier(own *types.Package) types.Qualifier {
	return func(p *types.Package) string {
		if p == own {
			return ""
		}
		return p.Name()
	}
}

func (c *Ctx) label(fn *ssa.Function) string {
	if fn == nil {
		return "<nil>"
	}
	if p := fn.Parent(); p != nil {
		name := fn.Name()
		if i := strings.LastIndex(name, "$"); i >= 0 {
			return c.label(p) + name[i:]
		}
		return c.label(p) + "$" + name
	}
	if fn.Synthetic != "" && fn.Signature.Recv() == nil && fn.Pkg == nil {
		return fn.String()
	}
	if recv := fn.Signature.Recv(); recv != nil {
		return "(" + types.TypeString(recv.Type(), qualifier(c.tpkg)) + ")." + fn.Name()
	}
	if fn.Pkg != nil && fn.Pkg.Pkg != c.tpkg {
		return fn.Pkg.Pkg.Name() + "." + fn.Name()
	}
	if fn.Pkg == nil && fn.Object() != nil && fn.Object().Pkg() != nil && fn.Object().Pkg() != c.tpkg {
		return fn.Object().Pkg().Name() + "." + fn.Name()
	}
	return fn.Name()
}

// implementersOf: label = "I.m" for an interface type I declared in this package: the methods m of
// every named non-interface type of the package (value or pointer receiver) that implements I.
func (c *Ctx) implementersOf(label string) []*ssa.Function {
	i := strings.LastIndex(label, ".")
	if i <= 0 || strings.ContainsAny(label, "(:$") {
		return nil
	}
	obj := c.tpkg.Scope().Lookup(label[:i])
	tn, ok := obj.(*types.TypeName)
	if !ok {
		return nil
	}
	it, ok := tn.Type().Underlying().(*types.Interface)
	if !ok {
		return nil
	}
	var out []*ssa.Function
	names := c.tpkg.Scope().Names()
	for _, n := range names {
		o, ok := c.tpkg.Scope().Lookup(n).(*types.TypeName)
		if !ok || o.IsAlias() {
			continue
		}
		nt, ok := o.Type().(*types.Named)
		if !ok || nt.TypeParams().Len() > 0 {
			continue
		}
		if _, isI := nt.Underlying().(*types.Interface); isI {
			continue
		}
		for _, rt := range []types.Type{nt, types.NewPointer(nt)} {
			if !types.Implements(rt, it) {
				continue
			}
			sel := c.prog.MethodSets.MethodSet(rt).Lookup(c.tpkg, label[i+1:])
			if sel == nil {
				continue
			}
			fn := c.prog.MethodValue(sel)
			if fn == nil || fn.Synthetic != "" || len(fn.Blocks) == 0 {
				continue // promoted / wrapper methods: the declared method is reached through its own receiver type
			}
			dup := false
			for _, f := range out {
				if f == fn {
					dup = true
				}
			}
			if !dup {
				out = append(out, fn)
			}
			break
		}
	}
	return out
}

// calleeLabel names the target of a call for contract lookup and `at call` clauses.
func (c *Ctx) calleeLabel(cc *ssa.CallCommon) string {
	if cc.IsInvoke() {
		return types.TypeString(cc.Value.Type(), qualifier(c.tpkg)) + "." + cc.Method.Name()
	}
	if fn := cc.StaticCallee(); fn != nil {
		return c.label(fn)
	}
	switch v := cc.Value.(type) {
	case *ssa.UnOp:
		if fa, ok := v.X.(*ssa.FieldAddr); ok {
			st := derefType(fa.X.Type())
			su := st.Underlying().(*types.Struct)
			return "field:" + types.TypeString(st, qualifier(c.tpkg)) + "." + su.Field(fa.Field).Name()
		}
		if gv, ok := v.X.(*ssa.Global); ok {
			return "var:" + gv.Name()
		}
		if fv, ok := v.X.(*ssa.FreeVar); ok {
			return "captured:" + fv.Name()
		}
	case *ssa.Field:
		su := v.X.Type().Underlying().(*types.Struct)
		return "field:" + types.TypeString(v.X.Type(), qualifier(c.tpkg)) + "." + su.Field(v.Field).Name()
	case *ssa.Parameter:
		return "param:" + v.Name()
	case *ssa.FreeVar:
		return "captured:" + v.Name()
	}
	if nt, ok := types.Unalias(cc.Value.Type()).(*types.Named); ok {
		// a call through a value of a named function type (e.g. the element of a slice of callbacks)
		return "functype:" + nt.Obj().Name()
	}
	return "dynamic"
}

func load(dir, pattern string, tags string) (*Ctx, error) {
	c := &Ctx{dir: dir, fset: token.NewFileSet(),
		pures: map[string]*PureFunc{}, ghosts: map[string]*GhostDecl{}, contracts: map[string]*FuncContract{},
		specFuncs: map[string]*FuncContract{}, axiomSyms: map[string][]string{},
		fnByLabel: map[string]*ssa.Function{}, sigByLabel: map[string]*types.Signature{},
		typeByKey: map[string]types.Type{}, typeCache: map[string]types.Type{}}
	cfg := &packages.Config{Mode: packages.LoadAllSyntax, Dir: dir, Fset: c.fset, BuildFlags: []string{"-tags=" + tags}}
	pkgs, err := packages.Load(cfg, pattern)
	if err != nil {
		return nil, err
	}
	if len(pkgs) != 1 {
		return nil, fmt.Errorf("expected one package for %s, got %d", pattern, len(pkgs))
	}
	c.ppkg = pkgs[0]
	for _, e := range c.ppkg.Errors {
		c.loadErrs = append(c.loadErrs, e.Error())
	}
	if len(c.loadErrs) > 0 {
		return c, fmt.Errorf("package does not type-check: %s", strings.Join(c.loadErrs, "; "))
	}
	prog, spkgs := ssautil.AllPackages(pkgs, ssa.GlobalDebug)
	c.prog = prog
	for _, sp := range spkgs {
		if sp != nil && sp.Pkg == c.ppkg.Types {
			c.pkg = sp
		}
	}
	if c.pkg == nil {
		return nil, fmt.Errorf("ssa package not found")
	}
	c.tpkg = c.ppkg.Types
	c.pkg.Build()
	// label index: package-level functions, methods, closures
	var addFn func(fn *ssa.Function)
	addFn = func(fn *ssa.Function) {
		if fn == nil {
			return
		}
		c.fnByLabel[c.label(fn)] = fn
		for _, a := range fn.AnonFuncs {
			addFn(a)
		}
	}
	for _, m := range c.pkg.Members {
		switch m := m.(type) {
		case *ssa.Function:
			addFn(m)
		case *ssa.Type:
			for _, t := range []types.Type{m.Type(), types.NewPointer(m.Type())} {
				ms := prog.MethodSets.MethodSet(t)
				for i := 0; i < ms.Len(); i++ {
					fn := prog.MethodValue(ms.At(i))
					if fn != nil && fn.Pkg == c.pkg && fn.Synthetic == "" {
						addFn(fn)
					}
				}
			}
		}
	}
	return c, nil
}

// loadSpecs reads the contract files: every *.go file of the package with the verif tag that
// contains //@ lines, plus the trusted spec files given.
func (c *Ctx) loadSpecs(extra []string) error {
	var files []string
	for _, f := range c.ppkg.GoFiles {
		if strings.HasPrefix(filepath.Base(f), "verif_") {
			files = append(files, f)
		}
	}
	files = append(files, extra...)
	for _, f := range files {
		sf, err := readSpecFile(f)
		if err != nil {
			return err
		}
		c.specFiles = append(c.specFiles, sf)
		for _, p := range sf.Pures {
			if _, dup := c.pures[p.Name]; dup {
				return fmt.Errorf("%s: duplicate pure func %s", f, p.Name)
			}
			c.pures[p.Name] = p
		}
		for _, g := range sf.Ghosts {
			c.ghosts[g.Name] = g
		}
		for _, fc := range sf.Funcs {
			if prev, dup := c.contracts[fc.Target]; dup {
				// several blocks for one function (one per property group) are merged
				if prev.Extern != fc.Extern {
					return fmt.Errorf("%s: conflicting contracts for %s", f, fc.Target)
				}
				prev.Props = unionProps(prev.Props, fc.Props)
				prev.Clauses = append(prev.Clauses, fc.Clauses...)
				prev.Reveal = append(prev.Reveal, fc.Reveal...)
				if fc.NoPanic {
					if prev.NoPanic && (len(prev.NoPanicKinds) == 0 || len(fc.NoPanicKinds) == 0) {
						prev.NoPanicKinds = nil
					} else {
						prev.NoPanicKinds = append(prev.NoPanicKinds, fc.NoPanicKinds...)
					}
					prev.NoPanic = true
					prev.NoPanicProps = unionProps(prev.NoPanicProps, fc.NoPanicProps)
				}
				prev.Fresh = prev.Fresh || fc.Fresh
				prev.Boundary = prev.Boundary || fc.Boundary
				prev.MayPanic = prev.MayPanic || fc.MayPanic
				if len(prev.Params) == 0 {
					prev.Params = fc.Params
				}
				continue
			}
			c.contracts[fc.Target] = fc
			if fc.SpecName != "" {
				c.specFuncs[fc.SpecName] = fc
			}
		}
		c.immutDecls = append(c.immutDecls, sf.Immut...)
		c.lemmas = append(c.lemmas, sf.Lemmas...)
		c.regexes = append(c.regexes, sf.Regexes...)
		c.encaps = append(c.encaps, sf.Encaps...)
		c.globalFacts = append(c.globalFacts, sf.GFacts...)
		c.constMaps = append(c.constMaps, sf.CMaps...)
		c.routes = append(c.routes, sf.Routes...)
		c.axioms = append(c.axioms, sf.Axioms...)
	}
	for _, ax := range c.axioms {
		c.axiomSyms[ax.Name] = identsIn(ax.Concl)
	}
	return nil
}

func identsIn(e Expr) []string {
	seen := map[string]bool{}
	var walk func(e Expr)
	walk = func(e Expr) {
		switch x := e.(type) {
		case *EIdent:
			seen[x.Name] = true
		case *EUnary:
			walk(x.X)
		case *EBin:
			walk(x.L)
			walk(x.R)
		case *ECond:
			walk(x.C)
			walk(x.A)
			walk(x.B)
		case *ECall:
			seen[x.Fn] = true
			for _, a := range x.Args {
				walk(a)
			}
		case *EIndex:
			walk(x.X)
			walk(x.I)
		case *ESlice:
			walk(x.X)
			if x.Lo != nil {
				walk(x.Lo)
			}
			if x.Hi != nil {
				walk(x.Hi)
			}
		case *EField:
			walk(x.X)
		case *EQuant:
			walk(x.Body)
		case *ETypeIs:
			walk(x.X)
		}
	}
	walk(e)
	var out []string
	for k := range seen {
		out = append(out, k)
	}
	sort.Strings(out)
	return out
}

var arrayRe = regexp.MustCompile(`^\[(\d+)\](.*)$`)

// parseType resolves a Go type written in a contract.
func (c *Ctx) parseType(s string) (types.Type, error) {
	s = strings.TrimSpace(s)
	if t, ok := c.typeCache[s]; ok {
		return t, nil
	}
	t, err := c.parseType1(s)
	if err != nil {
		return nil, err
	}
	c.typeCache[s] = t
	return t, nil
}

func (c *Ctx) parseType1(s string) (types.Type, error) {
	switch {
	case s == "":
		return nil, fmt.Errorf("empty type")
	case strings.HasPrefix(s, "*"):
		t, err := c.parseType(s[1:])
		if err != nil {
			return nil, err
		}
		return types.NewPointer(t), nil
	case strings.HasPrefix(s, "[]"):
		t, err := c.parseType(s[2:])
		if err != nil {
			return nil, err
		}
		return types.NewSlice(t), nil
	case strings.HasPrefix(s, "map["):
		depth := 0
		for i := 3; i < len(s); i++ {
			if s[i] == '[' {
				depth++
			} else if s[i] == ']' {
				depth--
				if depth == 0 {
					k, err := c.parseType(s[4:i])
					if err != nil {
						return nil, err
					}
					v, err := c.parseType(s[i+1:])
					if err != nil {
						return nil, err
					}
					return types.NewMap(k, v), nil
				}
			}
		}
	}
	if m := arrayRe.FindStringSubmatch(s); m != nil {
		n, _ := strconv.Atoi(m[1])
		t, err := c.parseType(m[2])
		if err != nil {
			return nil, err
		}
		return types.NewArray(t, int64(n)), nil
	}
	if s == "any" {
		return types.Universe.Lookup("any").Type(), nil
	}
	if strings.HasSuffix(s, "]") && !strings.HasPrefix(s, "[") {
		// generic instantiation: pkg.Name[T1, T2]
		if lb := strings.Index(s, "["); lb > 0 {
			gt, err := c.parseType(s[:lb])
			if err != nil {
				return nil, err
			}
			named, ok := gt.(*types.Named)
			if !ok || named.TypeParams().Len() == 0 {
				return nil, fmt.Errorf("%s is not a generic type", s[:lb])
			}
			var targs []types.Type
			depth, start := 0, lb+1
			for i := lb + 1; i < len(s); i++ {
				switch s[i] {
				case '[':
					depth++
				case ']':
					if depth > 0 {
						depth--
						continue
					}
					fallthrough
				case ',':
					if depth == 0 {
						ta, err := c.parseType(s[start:i])
						if err != nil {
							return nil, err
						}
						targs = append(targs, ta)
						start = i + 1
					}
				}
			}
			inst, err := types.Instantiate(types.NewContext(), named, targs, false)
			if err != nil {
				return nil, err
			}
			return inst, nil
		}
	}
	if i := strings.LastIndex(s, "."); i >= 0 {
		pn, tn := s[:i], s[i+1:]
		for _, imp := range c.allImports() {
			if imp.Name() == pn || imp.Path() == pn {
				if o := imp.Scope().Lookup(tn); o != nil {
					if _, ok := o.(*types.TypeName); ok {
						return o.Type(), nil
					}
				}
			}
		}
		return nil, fmt.Errorf("unknown type %s", s)
	}
	if o := types.Universe.Lookup(s); o != nil {
		if _, ok := o.(*types.TypeName); ok {
			return o.Type(), nil
		}
	}
	if o := c.tpkg.Scope().Lookup(s); o != nil {
		if _, ok := o.(*types.TypeName); ok {
			return o.Type(), nil
		}
	}
	return nil, fmt.Errorf("unknown type %q", s)
}

func (c *Ctx) allImports() []*types.Package {
	seen := map[*types.Package]bool{}
	var out []*types.Package
	var walk func(p *types.Package, d int)
	walk = func(p *types.Package, d int) {
		if seen[p] || d > 2 {
			return
		}
		seen[p] = true
		out = append(out, p)
		for _, i := range p.Imports() {
			walk(i, d+1)
		}
	}
	walk(c.tpkg, 0)
	return out
}

// effectFree: external callees that, without a contract, are still known not to write any
// heap component the proofs read (pure formatting/logging helpers). Everything else is havoc.
var effectFreePrefixes = []string{
	"fmt.Errorf", "fmt.Sprintf", "fmt.Sprint", "errors.New", "slog.", "(*slog.Logger).", "strings.", "strconv.",
	"bytes.Equal", "bytes.HasSuffix", "bytes.HasPrefix", "(*sync.Mutex).", "(*sync.RWMutex).", "(*atomic.Bool).", "(*atomic.Int64).",
	"(*atomic.Int32).", "(*atomic.Uint64).", "time.Now", "time.Since", "(time.Time).", "(time.Duration).", "hex.", "(*base64.Encoding).",
	"utf8.", "unicode.", "errors.Is", "errors.As", "errors.Unwrap", "os.Getenv", "runtime.", "math.", "bits.", "subtle.",
	"url.", "(*url.URL).", "(url.Values).", "filepath.", "path.", "sort.Strings", "slices.", "maps.", "context.",
	"(http.Header).Get", "(http.Header).Values", "(*http.Request).", "http.StatusText", "debug.Stack", "sha256.", "hmac.", "(*regexp.Regexp).",
}

func (c *Ctx) effectFree(label string, cc *ssa.CallCommon) bool {
	for _, p := range effectFreePrefixes {
		if strings.HasPrefix(label, p) {
			return true
		}
	}
	return false
}

func fileExists(p string) bool { _, err := os.Stat(p); return err == nil }

// externSig resolves the signature of an external function from its label:
// "pkg.Func", "(pkg.T).Method" or "(*pkg.T).Method".
func (c *Ctx) externSig(label string) *types.Signature {
	if s, ok := c.sigByLabel[label]; ok {
		return s
	}
	var sig *types.Signature
	if strings.HasPrefix(label, "(") {
		i := strings.Index(label, ").")
		if i > 0 {
			if t, err := c.parseType(label[1:i]); err == nil {
				obj, _, _ := types.LookupFieldOrMethod(t, true, c.tpkg, label[i+2:])
				if f, ok := obj.(*types.Func); ok {
					sig = f.Type().(*types.Signature)
				}
			}
		}
	} else if i := strings.LastIndex(label, "."); i > 0 {
		for _, imp := range c.allImports() {
			if imp.Name() == label[:i] {
				if f, ok := imp.Scope().Lookup(label[i+1:]).(*types.Func); ok {
					sig = f.Type().(*types.Signature)
					break
				}
			}
		}
	}
	c.sigByLabel[label] = sig
	return sig
}


// checkImmutables binds every `immutable T.f` declaration to the heap component of that field
// and checks, over every function of the package (methods and closures included), that the
// field is written only into an object the writing function allocated itself (a composite
// literal or new(T) being initialised): no store through any other pointer, no whole-struct
// overwrite of a T that is not the function's own allocation, no address of the field taken for
// anything but a load or such a store. Returned strings are contract-binding errors.
func (c *Ctx) checkImmutables() []string {
	var errs []string
	if c.immutable == nil {
		c.immutable = map[string]bool{}
	}
	for _, d := range c.immutDecls {
		parts := strings.SplitN(d, ".", 2)
		obj := c.tpkg.Scope().Lookup(parts[0])
		if obj == nil {
			continue // declared for another package of this run
		}
		st, ok := obj.Type().Underlying().(*types.Struct)
		if !ok {
			errs = append(errs, "immutable "+d+": not a struct type")
			continue
		}
		idx := -1
		for i := 0; i < st.NumFields(); i++ {
			if st.Field(i).Name() == parts[1] {
				idx = i
			}
		}
		if idx < 0 {
			errs = append(errs, "immutable "+d+": no such field")
			continue
		}
		named := types.Unalias(obj.Type())
		c.immutable["F:"+typeKey(named)+"."+parts[1]] = true
		ownAlloc := func(v ssa.Value) bool { _, ok := v.(*ssa.Alloc); return ok }
		var fns []*ssa.Function
		seen := map[*ssa.Function]bool{}
		var add func(f *ssa.Function)
		add = func(f *ssa.Function) {
			if f == nil || seen[f] {
				return
			}
			seen[f] = true
			fns = append(fns, f)
			for _, a := range f.AnonFuncs {
				add(a)
			}
		}
		for _, f := range c.fnByLabel {
			add(f)
		}
		for _, f := range fns {
			for _, b := range f.Blocks {
				for _, in := range b.Instrs {
					pos := c.fset.Position(in.Pos()).String()
					switch in := in.(type) {
					case *ssa.FieldAddr:
						pt, ok := in.X.Type().Underlying().(*types.Pointer)
						if !ok || !types.Identical(types.Unalias(pt.Elem()), named) || in.Field != idx {
							continue
						}
						for _, r := range *in.Referrers() {
							switch r := r.(type) {
							case *ssa.UnOp:
								// load
							case *ssa.Store:
								if r.Addr != ssa.Value(in) || !ownAlloc(in.X) {
									errs = append(errs, fmtf("immutable %s is written in %s at %s", d, f.String(), pos))
								}
							case *ssa.DebugRef:
							default:
								errs = append(errs, fmtf("immutable %s: its address escapes in %s at %s", d, f.String(), pos))
							}
						}
					case *ssa.Store:
						if types.Identical(types.Unalias(in.Val.Type()), named) && !ownAlloc(in.Addr) {
							errs = append(errs, fmtf("immutable %s: a whole %s is overwritten in %s at %s", d, parts[0], f.String(), pos))
						}
					}
				}
			}
		}
	}
	return errs
}

// isOwner: the function is listed as an owner in some `encapsulated` declaration.
func (c *Ctx) isOwner(label string) bool {
	for _, ed := range c.encaps {
		if containsStr(ed.Owners, label) {
			return true
		}
	}
	return false
}

// checkEncapsulated: every access (read, write, address) to a field declared `encapsulated` sits
// in one of its owner functions (closures count with the function that contains them); a
// whole-struct copy or overwrite of the type outside the owners is refused too. This is the
// premise of `objinvariant`: nobody but the owners can disturb the representation.
func (c *Ctx) checkEncapsulated() []string {
	var errs []string
	for _, ed := range c.encaps {
		for _, d := range ed.Fields {
			parts := strings.SplitN(d, ".", 2)
			obj := c.tpkg.Scope().Lookup(parts[0])
			if obj == nil {
				continue // another package of this run
			}
			st, ok := obj.Type().Underlying().(*types.Struct)
			if !ok {
				errs = append(errs, "encapsulated "+d+": not a struct type")
				continue
			}
			idx := -1
			for i := 0; i < st.NumFields(); i++ {
				if st.Field(i).Name() == parts[1] {
					idx = i
				}
			}
			if idx < 0 {
				errs = append(errs, "encapsulated "+d+": no such field")
				continue
			}
			named := types.Unalias(obj.Type())
			for _, o := range ed.Owners {
				if c.fnByLabel[o] == nil {
					errs = append(errs, "encapsulated "+d+": owner "+o+" does not exist")
				}
			}
			var visit func(f *ssa.Function, owner bool)
			visit = func(f *ssa.Function, owner bool) {
				for _, b := range f.Blocks {
					for _, in := range b.Instrs {
						hit := false
						switch in := in.(type) {
						case *ssa.FieldAddr:
							if pt, ok := in.X.Type().Underlying().(*types.Pointer); ok && types.Identical(types.Unalias(pt.Elem()), named) && in.Field == idx {
								hit = true
								if ed.WritesOnly {
									// reads are allowed: only a store to the field, an element store through a
									// slice/map loaded from it, or its address escaping counts
									hit = false
									for _, r := range *in.Referrers() {
										switch r := r.(type) {
										case *ssa.Store:
											if r.Addr == ssa.Value(in) {
												hit = true
											}
										case *ssa.UnOp:
											for _, rr := range *r.Referrers() {
												switch rr := rr.(type) {
												case *ssa.IndexAddr:
													for _, r3 := range *rr.Referrers() {
														if st, ok := r3.(*ssa.Store); ok && st.Addr == ssa.Value(rr) {
															hit = true
														}
													}
												case *ssa.MapUpdate:
													if rr.Map == ssa.Value(r) {
														hit = true
													}
												}
											}
										case *ssa.DebugRef:
										default:
											hit = true // address used in some other way
										}
									}
								}
							}
						case *ssa.Field:
							if !ed.WritesOnly && types.Identical(types.Unalias(in.X.Type()), named) && in.Field == idx {
								hit = true
							}
						case *ssa.Store:
							if types.Identical(types.Unalias(in.Val.Type()), named) {
								hit = true
							}
						case *ssa.UnOp:
							if !ed.WritesOnly && in.Op == token.MUL && types.Identical(types.Unalias(in.Type()), named) {
								hit = true
							}
						}
						if hit && !owner {
							errs = append(errs, fmtf("encapsulated %s is accessed outside its owners, in %s at %s", d, f.String(), c.fset.Position(in.Pos())))
						}
					}
				}
				for _, a := range f.AnonFuncs {
					visit(a, owner)
				}
			}
			for label, f := range c.fnByLabel {
				if f.Parent() != nil {
					continue // closures are visited with their parent
				}
				visit(f, containsStr(ed.Owners, label))
			}
		}
	}
	return errs
}

// constKeyString: a constmap key expression must be a string literal or a string constant of the package.
func (c *Ctx) constKeyString(e Expr) (string, bool) {
	switch x := e.(type) {
	case *EStr:
		return x.V, true
	case *EIdent:
		if k, ok := c.tpkg.Scope().Lookup(x.Name).(*types.Const); ok && k.Val().Kind() == constant.String {
			return constant.StringVal(k.Val()), true
		}
	}
	return "", false
}

// checkConstMap decides a constmap declaration syntactically over the whole package: returns the
// list of problems (empty = holds).
func (c *Ctx) checkConstMap(cm *ConstMap) []string {
	gv, ok := c.pkg.Members[cm.Var].(*ssa.Global)
	if !ok {
		return []string{"no package-level variable " + cm.Var}
	}
	var problems []string
	initKeys := map[string]bool{}
	stores := 0
	var visit func(f *ssa.Function, isInit bool)
	// values that are (loads of) the global, or the map being built for it in init
	visit = func(f *ssa.Function, isInit bool) {
		fromGlobal := map[ssa.Value]bool{}
		for _, b := range f.Blocks {
			for _, in := range b.Instrs {
				switch in := in.(type) {
				case *ssa.UnOp:
					if in.Op == token.MUL && in.X == ssa.Value(gv) {
						fromGlobal[in] = true
					}
				case *ssa.Store:
					if in.Addr == ssa.Value(gv) {
						stores++
						if !isInit {
							problems = append(problems, fmtf("%s is assigned in %s", cm.Var, f.String()))
						} else {
							fromGlobal[in.Val] = true
						}
					}
				}
			}
		}
		for _, b := range f.Blocks {
			for _, in := range b.Instrs {
				switch in := in.(type) {
				case *ssa.MapUpdate:
					if fromGlobal[in.Map] {
						if !isInit {
							problems = append(problems, fmtf("%s is updated in %s at %s", cm.Var, f.String(), c.fset.Position(in.Pos())))
						} else if k, ok := in.Key.(*ssa.Const); ok && k.Value != nil && k.Value.Kind() == constant.String {
							initKeys[constant.StringVal(k.Value)] = true
						}
					}
				case *ssa.Call:
					if b, ok := in.Call.Value.(*ssa.Builtin); ok && (b.Name() == "delete" || b.Name() == "clear") && len(in.Call.Args) > 0 && fromGlobal[in.Call.Args[0]] {
						problems = append(problems, fmtf("%s: %s in %s", cm.Var, b.Name(), f.String()))
					}
				}
			}
		}
		for _, a := range f.AnonFuncs {
			visit(a, isInit)
		}
	}
	for name, m := range c.pkg.Members {
		if fn, ok := m.(*ssa.Function); ok {
			visit(fn, name == "init")
			_ = name
		}
	}
	for _, mset := range c.fnByLabel {
		if mset.Parent() == nil && mset.Signature.Recv() != nil {
			visit(mset, false)
		}
	}
	if stores != 1 {
		problems = append(problems, fmtf("%s is assigned %d times (expected once, by the package initialiser)", cm.Var, stores))
	}
	for _, ke := range cm.Keys {
		k, ok := c.constKeyString(ke)
		if !ok {
			problems = append(problems, "constmap key "+ke.String()+" is not a string constant")
			continue
		}
		if !initKeys[k] {
			problems = append(problems, fmtf("the initialiser of %s does not put the key %q", cm.Var, k))
		}
	}
	return problems
}

// checkRouteTable decides a `routetable` declaration over the whole package (see RouteTable).
func (c *Ctx) checkRouteTable(rt *RouteTable, prop string) []string {
	var problems []string
	in := func(l []string, x string) bool { return containsStr(l, x) }
	var classify func(v ssa.Value, where *ssa.Function, depth int) string
	handlerName := func(fn *ssa.Function) string {
		if fn.Synthetic != "" {
			// bound-method closure / thunk: name the method it wraps
			if tf, ok := fn.Object().(*types.Func); ok {
				if real := c.prog.FuncValue(tf); real != nil {
					fn = real
				}
			}
		}
		l := c.label(fn)
		l = strings.TrimSuffix(l, "$bound")
		l = strings.TrimSuffix(l, "$thunk")
		return l
	}
	okHandler := func(l string) string {
		if in(rt.Public, l) {
			return ""
		}
		if in(rt.Guarded, l) {
			fc := c.contracts[l]
			if fc == nil || fc.Extern || !hasProp(fc, prop) {
				return "guarded handler " + l + " is not under contract for " + prop
			}
			return ""
		}
		return "handler " + l + " is neither listed public nor guarded"
	}
	classify = func(v ssa.Value, where *ssa.Function, depth int) string {
		if depth > 8 {
			return "handler value too deeply nested to classify"
		}
		switch v := v.(type) {
		case *ssa.MakeClosure:
			return okHandler(handlerName(v.Fn.(*ssa.Function)))
		case *ssa.Function:
			return okHandler(handlerName(v))
		case *ssa.ChangeType:
			return classify(v.X, where, depth+1)
		case *ssa.MakeInterface:
			return classify(v.X, where, depth+1)
		case *ssa.Phi:
			for _, e := range v.Edges {
				if p := classify(e, where, depth+1); p != "" {
					return p
				}
			}
			return ""
		case *ssa.Call:
			if callee := v.Call.StaticCallee(); callee != nil && in(rt.Wrappers, c.label(callee)) {
				n := 0
				for _, a := range v.Call.Args {
					if _, isSig := a.Type().Underlying().(*types.Signature); isSig {
						n++
						if p := classify(a, where, depth+1); p != "" {
							return p
						}
					}
				}
				if n == 0 {
					return "wrapper " + c.label(callee) + " called without a handler argument"
				}
				return ""
			}
			return "handler produced by an unlisted call (" + c.calleeLabel(&v.Call) + ")"
		case *ssa.Parameter:
			if in(rt.Custom, c.label(where)) {
				return ""
			}
			return "handler is a parameter of " + c.label(where) + ", which is not a listed custom registrar"
		case *ssa.UnOp:
			if a, ok := v.X.(*ssa.Alloc); ok && v.Op == token.MUL {
				// a local variable holding the handler: every store into it must classify
				for _, ref := range *a.Referrers() {
					if st, ok := ref.(*ssa.Store); ok && st.Addr == ssa.Value(a) {
						if p := classify(st.Val, where, depth+1); p != "" {
							return p
						}
					}
				}
				return ""
			}
		}
		return fmtf("handler value of unrecognised shape (%T)", v)
	}
	seen := 0
	for label, fn := range c.fnByLabel {
		for _, b := range fn.Blocks {
			for _, ins := range b.Instrs {
				ci, ok := ins.(ssa.CallInstruction)
				if !ok {
					continue
				}
				cc := ci.Common()
				if !in(rt.Register, c.calleeLabel(cc)) {
					continue
				}
				seen++
				for _, a := range cc.Args {
					t := a.Type()
					_, isSig := t.Underlying().(*types.Signature)
					_, isIface := t.Underlying().(*types.Interface)
					if !isSig && !isIface {
						continue
					}
					if p := classify(a, fn, 0); p != "" {
						problems = append(problems, fmtf("%s at %s (in %s)", p, c.fset.Position(ci.Pos()), label))
					}
				}
			}
		}
	}
	if seen == 0 {
		problems = append(problems, "no call of a registering function found (declaration is vacuous)")
	}
	sort.Strings(problems)
	return problems
}
