#!/bin/bash
# seedscratch.sh [ids...] -- the must-fail selftest of seedall.sh, run against scratch copies of /repo's
# committed HEAD (VERIF_REPO) so that /repo's working tree stays free; up to 3 seeds at a time.
cd "$(dirname "$0")"; . ./env.sh
ids="$@"; [ -z "$ids" ] && ids=$(ls seeded)
one() {
  id=$1; prop=${id%%_*}
  [ -f seeded/$id/patch.diff ] || return 0
  sv=/tmp/ss-$id; rm -rf $sv; mkdir -p $sv
  git -C /repo archive HEAD | tar -x -C $sv
  if ! (cd $sv && git apply --check /verif/seeded/$id/patch.diff 2>/dev/null || patch -p1 --dry-run -s < /verif/seeded/$id/patch.diff >/dev/null 2>&1); then echo "$id: patch does not apply"; rm -rf $sv; return 1; fi
  (cd $sv && (git apply /verif/seeded/$id/patch.diff 2>/dev/null || patch -p1 -s < /verif/seeded/$id/patch.diff))
  out=$(VERIF_REPO=$sv VERIF_WORK=/verif/work/ss-$id VERIF_NO_EVIDENCE=1 ./check $prop --tier quick 2>&1); rc=$?
  rm -rf $sv /verif/work/ss-$id
  if [ $rc -eq 1 ] && echo "$out" | grep -q "^VIOLATION property=$prop"; then
    echo "$id: caught ($(echo "$out" | grep -c '^VIOLATION') violation lines; $(echo "$out" | grep -m1 'failed obligation\|changed shape\|witness' | cut -c1-140))"
  else
    echo "$id: MISSED (exit $rc): $(echo "$out" | tail -1 | cut -c1-200)"; return 1
  fi
}
export -f one
printf '%s\n' $ids | xargs -P 3 -I{} bash -c 'one {}'
