#!/bin/bash
# builds the verifier from /verif/govc, offline, with the pre-installed go1.26.8
set -e
cd "$(dirname "$0")"
. ./env.sh
mkdir -p bin
(cd govc && go build -o ../bin/govc .)
echo "govc built: $(ls -la bin/govc | awk '{print $5}') bytes"
