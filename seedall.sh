#!/bin/bash
# seedall.sh [ids...] -- must-fail selftest: applies every seeded defect (seeded/<id>/patch.diff) to /repo in turn,
# runs the property's quick check and expects exit 1 with a VIOLATION line; /repo is restored after each.
cd "$(dirname "$0")"; . ./env.sh
if [ -n "$(git -C /repo status --porcelain)" ]; then echo "refusing: /repo has uncommitted changes"; exit 9; fi
ids="$@"; [ -z "$ids" ] && ids=$(ls seeded)
bad=0
for id in $ids; do
  prop=${id%%_*}
  [ -f seeded/$id/patch.diff ] || continue
  if ! git -C /repo apply --check /verif/seeded/$id/patch.diff 2>/dev/null; then echo "$id: patch does not apply"; bad=1; continue; fi
  git -C /repo apply /verif/seeded/$id/patch.diff
  out=$(VERIF_NO_EVIDENCE=1 ./check $prop --tier quick 2>&1); rc=$?
  git -C /repo checkout -- . ; git -C /repo clean -fdq
  if [ $rc -eq 1 ] && echo "$out" | grep -q "^VIOLATION property=$prop"; then
    echo "$id: caught ($(echo "$out" | grep -c '^VIOLATION') violation lines)"
  else
    echo "$id: MISSED (exit $rc): $(echo "$out" | tail -1)"; bad=1
  fi
done
exit $bad
