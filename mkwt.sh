#!/bin/bash
# mkwt.sh <name>: scratch git worktree of /repo under /tmp/wt/<name> with the contract files removed
# (so that a sub-agent sees nothing of the verification machinery); the removal is committed on the
# detached HEAD of the worktree so `git diff` there shows only the agent's change.
set -e
n="$1"; d=/tmp/wt/$n
mkdir -p /tmp/wt /tmp/wt-out/$n
git -C /repo worktree add --detach -f "$d" HEAD >/dev/null 2>&1
cd "$d"
git rm -q $(git ls-files | grep 'verif_contracts') >/dev/null
git -c user.name=scratch -c user.email=s@x commit -qm "scratch: strip contract files"
echo "$d"
