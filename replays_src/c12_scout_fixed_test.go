// Scout reproducer for property C12 ("Forged or altered state tokens never
// reach stream state").
//
// THIS FILE BELONGS IN:  vgirpc/   (package vgirpc, main module)
//
// Run with:
//   go test ./vgirpc -run TestScout -count=1 -v

package vgirpc

import (
	"bytes"
	"context"
	"encoding/base64"
	"io"
	"net/http"
	"net/http/httptest"
	"strings"
	"sync/atomic"
	"testing"
	"time"

	"github.com/apache/arrow-go/v18/arrow"
	"github.com/apache/arrow-go/v18/arrow/array"
	"github.com/apache/arrow-go/v18/arrow/ipc"
	"github.com/apache/arrow-go/v18/arrow/memory"
)

type scoutC12Params struct {
	Factor float64 `vgirpc:"factor"`
}

// scoutC12State carries a pad so the test can steer the sealed token length
// (and so whether the base64 form ends in '=' padding).
type scoutC12State struct {
	Pad string
}

var scoutC12ExchangeCalls atomic.Int64

func (s *scoutC12State) Exchange(_ context.Context, in arrow.RecordBatch, out *OutputCollector, _ *CallContext) error {
	scoutC12ExchangeCalls.Add(1)
	in.Retain()
	return out.Emit(in)
}

type scoutC12Hook struct{ starts atomic.Int64 }

func (k *scoutC12Hook) OnDispatchStart(ctx context.Context, _ DispatchInfo) (context.Context, HookToken) {
	k.starts.Add(1)
	return ctx, nil
}
func (k *scoutC12Hook) OnDispatchEnd(context.Context, HookToken, DispatchInfo, *CallStatistics, error) {
}

type scoutC12Env struct {
	t          *testing.T
	h          *HttpServer
	ts         *httptest.Server
	hook       *scoutC12Hook
	rehydrates atomic.Int64
	schema     *arrow.Schema
}

func newScoutC12Env(t *testing.T, pad string) *scoutC12Env {
	t.Helper()
	RegisterStateType(&scoutC12State{})
	e := &scoutC12Env{t: t, hook: &scoutC12Hook{}}
	e.schema = arrow.NewSchema([]arrow.Field{{Name: "value", Type: arrow.PrimitiveTypes.Float64}}, nil)
	srv := NewServer()
	srv.SetDispatchHook(e.hook)
	Exchange(srv, "scout", e.schema, e.schema,
		func(_ context.Context, _ *CallContext, _ scoutC12Params) (*StreamResult, error) {
			return &StreamResult{OutputSchema: e.schema, InputSchema: e.schema, State: &scoutC12State{Pad: pad}}, nil
		})
	e.h = NewHttpServer(srv)
	e.h.SetRehydrateFunc(func(interface{}, string) error { e.rehydrates.Add(1); return nil })
	e.h.InitPages()
	e.ts = httptest.NewServer(e.h)
	t.Cleanup(e.ts.Close)
	return e
}

func (e *scoutC12Env) init() (cursor, call []byte) {
	e.t.Helper()
	mem := memory.NewGoAllocator()
	pb := array.NewFloat64Builder(mem)
	pb.Append(2.0)
	arr := pb.NewArray()
	pb.Release()
	ps := arrow.NewSchema([]arrow.Field{{Name: "factor", Type: arrow.PrimitiveTypes.Float64}}, nil)
	batch := array.NewRecordBatch(ps, []arrow.Array{arr}, 1)
	var body bytes.Buffer
	if err := WriteRequest(&body, "scout", batch, ""); err != nil {
		e.t.Fatal(err)
	}
	batch.Release()
	arr.Release()
	resp, err := http.Post(e.ts.URL+"/scout/init", "application/vnd.apache.arrow.stream", &body)
	if err != nil {
		e.t.Fatal(err)
	}
	raw, _ := io.ReadAll(resp.Body)
	_ = resp.Body.Close()
	if resp.StatusCode != 200 {
		e.t.Fatalf("/init status %d: %s", resp.StatusCode, raw)
	}
	cursor, call = FindStreamTokens(raw)
	if cursor == nil || call == nil {
		e.t.Fatal("/init returned no tokens")
	}
	return cursor, call
}

// exchange posts one exchange turn and returns the status and the error
// message carried by the response (empty when the turn succeeded).
func (e *scoutC12Env) exchange(cursor, call []byte) (int, string) {
	e.t.Helper()
	mem := memory.NewGoAllocator()
	vb := array.NewFloat64Builder(mem)
	vb.Append(21.0)
	arr := vb.NewArray()
	vb.Release()
	keys := []string{MetaStreamState}
	vals := []string{string(cursor)}
	if call != nil {
		keys = append(keys, MetaCallState)
		vals = append(vals, string(call))
	}
	in := array.NewRecordBatchWithMetadata(e.schema, []arrow.Array{arr}, 1, arrow.NewMetadata(keys, vals))
	var body bytes.Buffer
	w := ipc.NewWriter(&body, ipc.WithSchema(e.schema))
	if err := w.Write(in); err != nil {
		e.t.Fatal(err)
	}
	if err := w.Close(); err != nil {
		e.t.Fatal(err)
	}
	in.Release()
	arr.Release()
	resp, err := http.Post(e.ts.URL+"/scout/exchange", "application/vnd.apache.arrow.stream", &body)
	if err != nil {
		e.t.Fatal(err)
	}
	raw, _ := io.ReadAll(resp.Body)
	_ = resp.Body.Close()
	msg := ""
	if r, rerr := ipc.NewReader(bytes.NewReader(raw)); rerr == nil {
		for r.Next() {
			if bwm, ok := r.RecordBatch().(arrow.RecordBatchWithMetadata); ok {
				md := bwm.Metadata()
				if lvl, ok := md.GetValue(MetaLogLevel); ok && lvl == "EXCEPTION" {
					msg, _ = md.GetValue(MetaLogMessage)
				}
			}
		}
		r.Release()
	}
	return resp.StatusCode, msg
}

func (e *scoutC12Env) effects() (exch, rehyd, hooks int64) {
	return scoutC12ExchangeCalls.Load(), e.rehydrates.Load(), e.hook.starts.Load()
}

// expectRefused sends an altered token pair and requires the C12 outcome:
// client error, and no state method / rehydrate callback / dispatch hook.
func (e *scoutC12Env) expectRefused(what string, cursor, call []byte) {
	e.t.Helper()
	x0, r0, h0 := e.effects()
	status, msg := e.exchange(cursor, call)
	x1, r1, h1 := e.effects()
	if status >= 400 && status < 500 && x1 == x0 && r1 == r0 && h1 == h0 {
		return
	}
	e.t.Errorf("%s: altered token was NOT refused: status=%d msg=%q; Exchange ran %d time(s), rehydrate %d, dispatch hook %d",
		what, status, msg, x1-x0, r1-r0, h1-h0)
}

// Finding 1a: a cursor whose base64 text has CR/LF spliced in is a different
// byte string from the one the server sealed, yet it is accepted and the
// state's Exchange method, the rehydrate callback and the dispatch hook run.
func TestScoutC12AlteredCursorWithInjectedNewlinesIsAccepted(t *testing.T) {
	e := newScoutC12Env(t, "")
	cursor, call := e.init()

	// Sanity: a really corrupted token is refused (the harness can see refusals).
	bad := append([]byte(nil), cursor...)
	if bad[40] == 'A' {
		bad[40] = 'B'
	} else {
		bad[40] = 'A'
	}
	e.expectRefused("control: one flipped base64 character", bad, call)

	mid := len(cursor) / 2
	cases := map[string][]byte{
		"LF in the middle":     []byte(string(cursor[:mid]) + "\n" + string(cursor[mid:])),
		"CRLF every 76 chars":  []byte(scoutWrap(string(cursor), 76, "\r\n")),
		"trailing LF":          []byte(string(cursor) + "\n"),
		"leading CR":           []byte("\r" + string(cursor)),
		"LF inside first quad": []byte(string(cursor[:1]) + "\n" + string(cursor[1:])),
	}
	for name, altered := range cases {
		if bytes.Equal(altered, cursor) {
			t.Fatalf("%s: test bug, token not altered", name)
		}
		e.expectRefused("cursor with "+name, altered, call)
	}
}

// Finding 1b: same hole on the call token when the server has to consult it
// (cache disabled = every continuation takes the miss path).
func TestScoutC12AlteredCallTokenWithInjectedNewlineIsAccepted(t *testing.T) {
	e := newScoutC12Env(t, "")
	e.h.SetCallStateCacheEntries(0)
	cursor, call := e.init()

	// Control: with the cache off the call token IS consulted.
	bad := append([]byte(nil), call...)
	if bad[40] == 'A' {
		bad[40] = 'B'
	} else {
		bad[40] = 'A'
	}
	e.expectRefused("control: call token with one flipped character", cursor, bad)

	mid := len(call) / 2
	altered := []byte(string(call[:mid]) + "\n" + string(call[mid:]))
	e.expectRefused("call token with LF in the middle", cursor, altered)
}

// Finding 1c: non-canonical base64. When the sealed token length is not a
// multiple of 3 the last character before '=' carries unused low bits;
// StdEncoding (non-strict) ignores them, so up to 15 different strings decode
// to the same sealed bytes and all are accepted.
func TestScoutC12AlteredCursorNonCanonicalTrailingBitsIsAccepted(t *testing.T) {
	const alphabet = "ABCDEFGHIJKLMNOPQRSTUVWXYZabcdefghijklmnopqrstuvwxyz0123456789+/"
	for padLen := 0; padLen < 3; padLen++ {
		// Incompressible-ish pad of varying length to move the token length
		// through all residues mod 3.
		e := newScoutC12Env(t, strings.Repeat("q", padLen))
		cursor, call := e.init()
		s := string(cursor)
		if !strings.HasSuffix(s, "=") {
			continue // canonical form is unique for this length
		}
		i := strings.IndexByte(s, '=') - 1
		idx := strings.IndexByte(alphabet, s[i])
		// Flip the lowest (unused) bit of the final sextet.
		altered := s[:i] + string(alphabet[idx^1]) + s[i+1:]
		if altered == s {
			t.Fatal("test bug")
		}
		a, err1 := base64.StdEncoding.DecodeString(s)
		b, err2 := base64.StdEncoding.DecodeString(altered)
		if err1 != nil || err2 != nil || !bytes.Equal(a, b) {
			t.Fatalf("test assumption broken: %v %v", err1, err2)
		}
		e.expectRefused("cursor with flipped unused trailing bit (pad="+strings.Repeat("q", padLen)+")", []byte(altered), call)
		return
	}
	t.Skip("no token length with '=' padding found")
}

// Observation (recorded, NOT claimed as a C12 violation; this test only logs):
// sticky-session tokens are sealed with the same key, the same AEAD and the
// same AAD ("vgi_rpc.state.v4\0"+identity) as cursor tokens, and the version
// byte is outside the AEAD. Rewriting a sticky token's version byte 0x01 ->
// 0x06 and re-encoding it as std base64 therefore PASSES the cursor's tag
// check; the refusal comes only from the payload parser, with a message that
// differs from the uniform signature failure.
func TestScoutC12ObservationStickyTokenPassesCursorAEAD(t *testing.T) {
	h := NewHttpServer(NewServer())
	var sid [sessionIDLen]byte
	tok, err := sealSessionToken(h.tokenKey, "server-1", sid, time.Now().Add(time.Minute).Unix(), stateTokenAad(nil), 0)
	if err != nil {
		t.Fatal(err)
	}
	raw, err := base64.RawURLEncoding.DecodeString(tok)
	if err != nil {
		t.Fatal(err)
	}
	raw[0] = cursorTokenVersion
	forged := []byte(base64.StdEncoding.EncodeToString(raw))
	_, ferr := h.openCursorToken(forged, nil)

	callID, _ := newCallID()
	good, _ := h.packCursorToken(callID, &scoutC12State{}, nil)
	rawGood, _ := base64.StdEncoding.DecodeString(string(good))
	rawGood[len(rawGood)-1] ^= 1
	_, serr := h.openCursorToken([]byte(base64.StdEncoding.EncodeToString(rawGood)), nil)
	t.Logf("re-versioned sticky token -> %v", ferr)
	t.Logf("bit-flipped cursor        -> %v", serr)
	if ferr == nil {
		t.Fatal("re-versioned sticky token was accepted as a cursor")
	}
}

func scoutWrap(s string, n int, sep string) string {
	var b strings.Builder
	for len(s) > n {
		b.WriteString(s[:n])
		b.WriteString(sep)
		s = s[n:]
	}
	b.WriteString(s)
	return b.String()
}

// TestVerifReplay: the reproducers of the repaired defect (only the canonical base64 form of a token opens)
func TestVerifReplay(t *testing.T) {
	t.Run("TestScoutC12AlteredCursorWithInjectedNewlinesIsAccepted", TestScoutC12AlteredCursorWithInjectedNewlinesIsAccepted)
	t.Run("TestScoutC12AlteredCallTokenWithInjectedNewlineIsAccepted", TestScoutC12AlteredCallTokenWithInjectedNewlineIsAccepted)
	t.Run("TestScoutC12AlteredCursorNonCanonicalTrailingBitsIsAccepted", TestScoutC12AlteredCursorNonCanonicalTrailingBitsIsAccepted)
}
