// Scout reproducers for property C23 (authenticator failure -> status mapping,
// chain stop rules). This file belongs in the package directory vgirpc/
// (package vgirpc, main module at the worktree root).

package vgirpc

import (
	"errors"
	"fmt"
	"net/http"
	"net/http/httptest"
	"strings"
	"testing"
)

var scoutClosedReasons = map[string]bool{
	string(AuthReasonMissingCredential): true,
	string(AuthReasonInvalidCredential): true,
	string(AuthReasonExpiredCredential): true,
	string(AuthReasonInsufficientScope): true,
	string(AuthReasonProxyRequired):     true,
	string(AuthReasonUnauthorized):      true,
}

func scoutServer(t *testing.T, fn AuthenticateFunc) *HttpServer {
	t.Helper()
	return scoutServerIdP(t, fn, "http://127.0.0.1:1")
}

// scoutIdP is a minimal OIDC discovery endpoint.
func scoutIdP(t *testing.T) string {
	t.Helper()
	var ts *httptest.Server
	ts = httptest.NewServer(http.HandlerFunc(func(w http.ResponseWriter, r *http.Request) {
		w.Header().Set("Content-Type", "application/json")
		fmt.Fprintf(w, `{"issuer":%q,"authorization_endpoint":%q,"token_endpoint":%q}`,
			ts.URL, ts.URL+"/authorize", ts.URL+"/token")
	}))
	t.Cleanup(ts.Close)
	return ts.URL
}

func scoutServerIdP(t *testing.T, fn AuthenticateFunc, idpURL string) *HttpServer {
	t.Helper()
	srv := NewServer()
	h, err := NewHttpServerWithKey(srv, []byte("test-signing-key-32-bytes-long!!"))
	if err != nil {
		t.Fatal(err)
	}
	h.SetPrefix("/vgi")
	h.SetAuthenticate(fn)
	if err := h.SetOAuthResourceMetadata(&OAuthResourceMetadata{
		Resource:             "http://localhost:8000/vgi",
		AuthorizationServers: []string{idpURL},
		ClientID:             "my-client-id",
	}); err != nil {
		t.Fatal(err)
	}
	return h
}

func scoutDo(h *HttpServer, method, path string, hdr map[string]string) *httptest.ResponseRecorder {
	req := httptest.NewRequest(method, path, strings.NewReader(""))
	for k, v := range hdr {
		req.Header.Set(k, v)
	}
	w := httptest.NewRecorder()
	h.ServeHTTP(w, req)
	return w
}

type scoutWrap struct{ inner error }

func (w *scoutWrap) Error() string { return "wrapped error" }
func (w *scoutWrap) Unwrap() error { return w.inner }

// ---------------------------------------------------------------------------
// Sanity matrix on the RPC route (expected to PASS): documents what was checked.
// ---------------------------------------------------------------------------

func TestScoutSanityMatrixRpcRoute(t *testing.T) {
	for _, tc := range []struct {
		name       string
		err        error
		wantStatus int
		wantReason string
		wantRetry  string
	}{
		{"unavailable direct", &AuthUnavailableError{RetryAfter: 7}, 503, "", "7"},
		{"unavailable default", NewAuthUnavailable("x"), 503, "", "5"},
		{"unavailable negative", &AuthUnavailableError{RetryAfter: -4}, 503, "", "5"},
		{"unavailable wrapped %w", fmt.Errorf("ctx: %w", &AuthUnavailableError{RetryAfter: 9}), 503, "", "9"},
		{"unavailable in join", errors.Join(errors.New("a"), &AuthUnavailableError{RetryAfter: 2}), 503, "", "2"},
		{"unavailable under AuthFailure wrapper", errors.Join(NewAuthFailure(AuthReasonInvalidCredential, "x"), &AuthUnavailableError{RetryAfter: 2}), 503, "", "2"},
		{"unavailable beats failure in chain", &scoutWrap{fmt.Errorf("%w / %w", NewAuthFailure(AuthReasonExpiredCredential, ""), &AuthUnavailableError{RetryAfter: 11})}, 503, "", "11"},
		{"ValueError", &RpcError{Type: "ValueError", Message: "m"}, 401, "unauthorized", ""},
		{"PermissionError", &RpcError{Type: "PermissionError", Message: "m"}, 401, "insufficient_scope", ""},
		{"AuthFailure direct", NewAuthFailure(AuthReasonExpiredCredential, "d"), 401, "expired_credential", ""},
		{"AuthFailure empty reason", &AuthFailure{}, 401, "unauthorized", ""},
		{"AuthFailure wrapped", &scoutWrap{&scoutWrap{NewAuthFailure(AuthReasonMissingCredential, "d")}}, 401, "missing_credential", ""},
		{"RuntimeError rpc", &RpcError{Type: "RuntimeError", Message: "m"}, 500, "", ""},
		{"wrapped ValueError", fmt.Errorf("x: %w", &RpcError{Type: "ValueError"}), 500, "", ""},
		{"plain", errors.New("boom"), 500, "", ""},
	} {
		t.Run(tc.name, func(t *testing.T) {
			h := scoutServer(t, func(*http.Request) (*AuthContext, error) { return nil, tc.err })
			for _, extra := range []map[string]string{nil, {"Accept-Encoding": "zstd"}, {"Accept": "text/html"}} {
				w := scoutDo(h, "POST", "/vgi/some_method", extra)
				if w.Code != tc.wantStatus {
					t.Fatalf("status %d want %d", w.Code, tc.wantStatus)
				}
				if tc.wantStatus == 503 {
					if got := w.Header().Get("Retry-After"); got != tc.wantRetry {
						t.Errorf("Retry-After %q want %q", got, tc.wantRetry)
					}
				}
				if tc.wantStatus == 401 {
					if got := w.Header().Get(HeaderAuthReason); got != tc.wantReason {
						t.Errorf("reason %q want %q", got, tc.wantReason)
					}
					if got := w.Header().Get("Cache-Control"); got != "no-store" {
						t.Errorf("Cache-Control %q", got)
					}
					if got := w.Header().Get("WWW-Authenticate"); got == "" || got != h.wwwAuthenticate {
						t.Errorf("WWW-Authenticate %q want %q", got, h.wwwAuthenticate)
					}
				} else {
					if got := w.Header().Get(HeaderAuthReason); got != "" {
						t.Errorf("unexpected reason header %q on %d", got, w.Code)
					}
				}
			}
		})
	}
}

// Chain rules (expected to PASS).
func TestScoutSanityChain(t *testing.T) {
	ok := &AuthContext{Authenticated: true, Principal: "late"}
	accept := func(*http.Request) (*AuthContext, error) { return ok, nil }
	fail := func(e error) AuthenticateFunc {
		return func(*http.Request) (*AuthContext, error) { return nil, e }
	}
	req := httptest.NewRequest("GET", "/", nil)
	for _, tc := range []struct {
		name     string
		first    error
		advances bool
	}{
		{"ValueError", &RpcError{Type: "ValueError"}, true},
		{"wrapped ValueError", fmt.Errorf("w: %w", &RpcError{Type: "ValueError"}), false},
		{"PermissionError", &RpcError{Type: "PermissionError"}, false},
		{"AuthFailure", NewAuthFailure(AuthReasonMissingCredential, ""), false},
		{"Unavailable", NewAuthUnavailable(""), false},
		{"joined ValueError+Unavailable", errors.Join(&RpcError{Type: "ValueError"}, NewAuthUnavailable("")), false},
		{"plain", errors.New("x"), false},
		{"valueerror lowercase", &RpcError{Type: "valueerror"}, false},
	} {
		t.Run(tc.name, func(t *testing.T) {
			ac, err := ChainAuthenticate(fail(tc.first), accept)(req)
			if tc.advances {
				if err != nil || ac != ok {
					t.Fatalf("expected advance, got %v %v", ac, err)
				}
				return
			}
			if err == nil {
				t.Fatalf("chain advanced past %v", tc.first)
			}
			if err != tc.first {
				t.Fatalf("error not propagated verbatim: %v", err)
			}
		})
	}
	// first success wins
	second := &AuthContext{Principal: "second"}
	ac, err := ChainAuthenticate(accept, func(*http.Request) (*AuthContext, error) { return second, nil })(req)
	if err != nil || ac != ok {
		t.Fatal("first success not returned")
	}
	// exhausted
	_, err = ChainAuthenticate(fail(&RpcError{Type: "ValueError"}))(req)
	if re, isRpc := err.(*RpcError); !isRpc || re.Type != "ValueError" {
		t.Fatalf("exhausted chain: %v", err)
	}
}

// ---------------------------------------------------------------------------
// Finding 1: the PKCE page wrapper has its own status mapping. With
// SetOAuthPkce configured, GET {prefix} and GET {prefix}/describe call the
// authenticator directly and turn EVERY error into 401 (non-browser) or a 302
// to the IdP login (browser) — including AuthUnavailableError (should be 503 +
// Retry-After) and internal errors (should be 500). The 401 also lacks the
// reason code and the no-store directive.
// ---------------------------------------------------------------------------

func scoutPkceServer(t *testing.T, fn AuthenticateFunc) *HttpServer {
	t.Helper()
	h := scoutServerIdP(t, fn, scoutIdP(t))
	if err := h.SetOAuthPkce(OAuthPkceConfig{}); err != nil {
		t.Fatal(err)
	}
	h.InitPages()
	return h
}

func TestScoutPkcePageUnavailableIs503(t *testing.T) {
	h := scoutPkceServer(t, func(*http.Request) (*AuthContext, error) {
		return nil, &AuthUnavailableError{Detail: "jwks down", RetryAfter: 3}
	})
	// Control: the RPC route on the very same server does the right thing.
	if w := scoutDo(h, "POST", "/vgi/some_method", nil); w.Code != 503 || w.Header().Get("Retry-After") != "3" {
		t.Fatalf("control failed: %d %q", w.Code, w.Header().Get("Retry-After"))
	}
	for _, path := range []string{"/vgi", "/vgi/describe"} {
		for _, accept := range []string{"application/json", "text/html"} {
			w := scoutDo(h, "GET", path, map[string]string{"Accept": accept})
			if w.Code != http.StatusServiceUnavailable {
				t.Errorf("GET %s Accept=%s: AuthUnavailableError produced status %d (Location=%q), want 503",
					path, accept, w.Code, w.Header().Get("Location"))
			}
			if got := w.Header().Get("Retry-After"); got != "3" {
				t.Errorf("GET %s Accept=%s: Retry-After=%q, want \"3\"", path, accept, got)
			}
		}
	}
}

func TestScoutPkcePageInternalErrorIs500(t *testing.T) {
	h := scoutPkceServer(t, func(*http.Request) (*AuthContext, error) {
		return nil, errors.New("nil map in validator")
	})
	if w := scoutDo(h, "POST", "/vgi/some_method", nil); w.Code != 500 {
		t.Fatalf("control failed: %d", w.Code)
	}
	w := scoutDo(h, "GET", "/vgi/describe", map[string]string{"Accept": "application/json"})
	if w.Code != http.StatusInternalServerError {
		t.Errorf("non-rejection error produced status %d, want 500", w.Code)
	}
}

func TestScoutPkcePageRejectionHasReasonAndNoStore(t *testing.T) {
	h := scoutPkceServer(t, func(*http.Request) (*AuthContext, error) {
		return nil, NewAuthFailure(AuthReasonExpiredCredential, "expired")
	})
	w := scoutDo(h, "GET", "/vgi/describe", map[string]string{"Accept": "application/json"})
	if w.Code != 401 {
		t.Fatalf("status %d", w.Code)
	}
	if got := w.Header().Get(HeaderAuthReason); !scoutClosedReasons[got] {
		t.Errorf("401 carries reason %q, want one of the closed set (expired_credential)", got)
	}
	if got := w.Header().Get("Cache-Control"); got != "no-store" {
		t.Errorf("401 Cache-Control=%q, want no-store", got)
	}
}

// Sub-case: when OIDC discovery fails, pkceRedirectToOAuth returns without
// writing anything ("Fall through to normal 401" says its comment) but the
// caller returns right after it, so a plain rejection becomes an implicit,
// empty 200 OK.
func TestScoutPkcePageRejectionWithDiscoveryDownIs401(t *testing.T) {
	h := scoutServerIdP(t, func(*http.Request) (*AuthContext, error) {
		return nil, &RpcError{Type: "ValueError", Message: "Missing Authorization header"}
	}, "http://127.0.0.1:1")
	if err := h.SetOAuthPkce(OAuthPkceConfig{}); err != nil {
		t.Fatal(err)
	}
	h.InitPages()
	w := scoutDo(h, "GET", "/vgi/describe", map[string]string{"Accept": "text/html"})
	if w.Code != http.StatusUnauthorized {
		t.Errorf("rejected request answered %d with %d body bytes, want 401", w.Code, w.Body.Len())
	}
}

// ---------------------------------------------------------------------------
// Finding 2: the reason code is not confined to the closed set. AuthReason is
// an open string type and neither classifyAuthError nor writeUnauthorized
// normalises an unknown value, so it goes on the wire verbatim.
// ---------------------------------------------------------------------------

func TestScoutReasonOutsideClosedSet(t *testing.T) {
	for _, reason := range []AuthReason{"token_revoked", "Expired_Credential", " unauthorized", "x\r\nSet-Cookie: a=b"} {
		h := scoutServer(t, func(*http.Request) (*AuthContext, error) {
			return nil, &scoutWrap{&AuthFailure{Reason: reason}}
		})
		w := scoutDo(h, "POST", "/vgi/some_method", nil)
		if w.Code != 401 {
			t.Fatalf("status %d", w.Code)
		}
		if got := w.Header().Get(HeaderAuthReason); !scoutClosedReasons[got] {
			t.Errorf("reason %q emitted on the wire as %q — not in the closed set", reason, got)
		}
	}
}

// ---------------------------------------------------------------------------
// Finding 3 (weaker): a typed-nil *AuthUnavailableError / *AuthFailure in the
// chain panics the handler instead of yielding 503 / 401.
// ---------------------------------------------------------------------------

func TestScoutTypedNilPanics(t *testing.T) {
	for _, tc := range []struct {
		name string
		err  error
		want int
	}{
		{"nil *AuthUnavailableError", (*AuthUnavailableError)(nil), 503},
		{"wrapped nil *AuthUnavailableError", &scoutWrap{(*AuthUnavailableError)(nil)}, 503},
		{"wrapped nil *AuthFailure", &scoutWrap{(*AuthFailure)(nil)}, 401},
	} {
		t.Run(tc.name, func(t *testing.T) {
			h := scoutServer(t, func(*http.Request) (*AuthContext, error) { return nil, tc.err })
			defer func() {
				if p := recover(); p != nil {
					t.Errorf("handler panicked instead of answering %d: %v", tc.want, p)
				}
			}()
			w := scoutDo(h, "POST", "/vgi/some_method", nil)
			if w.Code != tc.want {
				t.Errorf("status %d want %d", w.Code, tc.want)
			}
		})
	}
}

// TestVerifReplay: the reproducers of the repaired defects (a reason code outside the closed set went out verbatim; the PKCE page routes answered every authenticator error 401 / 302 / empty 200) and the scout's passing sweeps of the status mapping and the chain; TestScoutTypedNilPanics reproduces a finding that is not repaired and is not run
func TestVerifReplay(t *testing.T) {
	t.Run("TestScoutSanityMatrixRpcRoute", TestScoutSanityMatrixRpcRoute)
	t.Run("TestScoutSanityChain", TestScoutSanityChain)
	t.Run("TestScoutReasonOutsideClosedSet", TestScoutReasonOutsideClosedSet)
	t.Run("TestScoutPkcePageUnavailableIs503", TestScoutPkcePageUnavailableIs503)
	t.Run("TestScoutPkcePageInternalErrorIs500", TestScoutPkcePageInternalErrorIs500)
	t.Run("TestScoutPkcePageRejectionHasReasonAndNoStore", TestScoutPkcePageRejectionHasReasonAndNoStore)
	t.Run("TestScoutPkcePageRejectionWithDiscoveryDownIs401", TestScoutPkcePageRejectionWithDiscoveryDownIs401)
}
