// Belongs in: vgirpc/ (package vgirpc) of the Query-farm/vgi-rpc-go main module.
//
// Scout reproducers for property C01 (wire helpers are mutually inverse;
// malformed bodies rejected with an error, never a panic).

package vgirpc

import (
	"bytes"
	"encoding/binary"
	"fmt"
	"os"
	"os/exec"
	"testing"

	"github.com/apache/arrow-go/v18/arrow"
	"github.com/apache/arrow-go/v18/arrow/array"
	"github.com/apache/arrow-go/v18/arrow/ipc"
)

var scoutEnvelope = arrow.NewSchema([]arrow.Field{
	{Name: "result", Type: arrow.BinaryTypes.Binary},
}, nil)

// scoutPatchOffsets takes a well-formed unary-result body wrapping payload and
// rewrites the binary column's int32 offsets buffer [0, len(payload)] to
// [first, last]. Everything else (flatbuffer metadata, framing, EOS) is left
// byte-for-byte valid.
func scoutPatchOffsets(t *testing.T, payload []byte, first, last int32) []byte {
	t.Helper()
	var buf bytes.Buffer
	if err := WriteUnaryResult(&buf, scoutEnvelope, payload); err != nil {
		t.Fatal(err)
	}
	body := bytes.Clone(buf.Bytes())

	want := make([]byte, 8)
	binary.LittleEndian.PutUint32(want[0:4], 0)
	binary.LittleEndian.PutUint32(want[4:8], uint32(len(payload)))
	// The offsets buffer immediately precedes the (8-byte padded) data buffer.
	dataAt := bytes.LastIndex(body, payload)
	if dataAt < 0 {
		t.Fatal("payload not found in body")
	}
	offAt := bytes.LastIndex(body[:dataAt], want)
	if offAt < 0 {
		t.Fatal("offsets buffer not found in body")
	}
	binary.LittleEndian.PutUint32(body[offAt:offAt+4], uint32(first))
	binary.LittleEndian.PutUint32(body[offAt+4:offAt+8], uint32(last))
	return body
}

func scoutReadUnaryNoPanic(t *testing.T, body []byte) (ok bool) {
	t.Helper()
	defer func() {
		if r := recover(); r != nil {
			t.Errorf("ReadUnaryResult PANICKED on a malformed body instead of reporting not-a-result: %v", r)
		}
	}()
	_, _, ok = ReadUnaryResult(body)
	return ok
}

// A unary response body whose binary "result" column has a first offset
// greater than its last offset (offsets [5,3] over a 3-byte data buffer).
// arrow-go's reader only validates the LAST offset against the data buffer,
// so the batch is handed to ReadUnaryResult, whose bin.Value(0) then slices
// valueBytes[5:3] and panics.
func TestScoutReadUnaryResultPanicsOnDecreasingOffsets(t *testing.T) {
	body := scoutPatchOffsets(t, []byte("abc"), 5, 3)
	if ok := scoutReadUnaryNoPanic(t, body); ok {
		t.Errorf("malformed body was reported as a result")
	}
}

// Same, with a negative first offset ([-1,3]).
func TestScoutReadUnaryResultPanicsOnNegativeOffset(t *testing.T) {
	body := scoutPatchOffsets(t, []byte("abc"), -1, 3)
	if ok := scoutReadUnaryNoPanic(t, body); ok {
		t.Errorf("malformed body was reported as a result")
	}
}

// Control: the sibling helpers do not panic on the same malformed body (they
// only look at metadata), and ReadRequest-style parsing of it yields an error.
func TestScoutSiblingsDoNotPanicOnSameBody(t *testing.T) {
	body := scoutPatchOffsets(t, []byte("abc"), 5, 3)
	defer func() {
		if r := recover(); r != nil {
			t.Errorf("sibling helper panicked: %v", r)
		}
	}()
	_, _ = FindStreamTokens(body)
	_ = FindProtocolVersion(body)
	if _, err := ReadRequest(bytes.NewReader(body)); err == nil {
		t.Errorf("ReadRequest accepted a body without vgi_rpc.method")
	}
}

// ---------------------------------------------------------------------------
// Probes (informational; these record behaviour for findings.md).
// ---------------------------------------------------------------------------

// A NULL result cell is reported as ok with empty bytes.
func TestScoutProbeNullResult(t *testing.T) {
	b := array.NewBinaryBuilder(defaultAllocator(), arrow.BinaryTypes.Binary)
	defer b.Release()
	b.AppendNull()
	arr := b.NewArray()
	defer arr.Release()
	schema := arrow.NewSchema([]arrow.Field{{Name: "result", Type: arrow.BinaryTypes.Binary, Nullable: true}}, nil)
	batch := array.NewRecordBatch(schema, []arrow.Array{arr}, 1)
	defer batch.Release()
	var buf bytes.Buffer
	if err := WriteUnaryResponse(&buf, schema, nil, batch, "", ""); err != nil {
		t.Fatal(err)
	}
	_, res, ok := ReadUnaryResult(buf.Bytes())
	t.Logf("null result: ok=%v res=%q (nil=%v)", ok, res, res == nil)
}

// F3: ReadRequest swallows the error of its drain-to-EOS loop. A body whose
// first batch is fine but which then continues with a corrupt message (and
// never reaches an EOS) is ACCEPTED as a well-formed request.
func TestScoutReadRequestAcceptsCorruptTrailingMessage(t *testing.T) {
	params := makeBinaryParamsBatch(t, []byte("p"))
	defer params.Release()
	var buf bytes.Buffer
	if err := WriteRequest(&buf, "m", params, "7"); err != nil {
		t.Fatal(err)
	}
	good := buf.Bytes()
	// Strip the 8-byte EOS (0xFFFFFFFF 0x00000000) and append a bogus
	// 16-byte "message" of 0xAB bytes in its place.
	if !bytes.HasSuffix(good, []byte{0xff, 0xff, 0xff, 0xff, 0, 0, 0, 0}) {
		t.Fatal("no EOS suffix")
	}
	bad := append(bytes.Clone(good[:len(good)-8]), []byte{0xff, 0xff, 0xff, 0xff, 0x10, 0, 0, 0}...)
	bad = append(bad, bytes.Repeat([]byte{0xAB}, 16)...)

	// Sanity: arrow itself reports this stream as broken.
	rdr, err := ipc.NewReader(bytes.NewReader(bad))
	if err != nil {
		t.Fatal(err)
	}
	for rdr.Next() {
	}
	if rdr.Err() == nil {
		t.Fatal("test construction: arrow did not flag the stream as corrupt")
	}
	t.Logf("arrow reader error for the body: %v", rdr.Err())
	rdr.Release()

	req, err := ReadRequest(bytes.NewReader(bad))
	if err == nil {
		t.Errorf("ReadRequest accepted a malformed body (corrupt message after the first batch, no EOS): method=%q", req.Method)
		req.Batch.Release()
	}
}

// Round-trip sweep for WriteRequest/ReadRequest/Find* over odd shapes.
func TestScoutProbeRoundTripSweep(t *testing.T) {
	methods := []string{"", "m", "a\x00b", "méthode", "vgi_rpc.method", string(bytes.Repeat([]byte("x"), 70000))}
	versions := []string{"", "1", "0", " ", "v\x00", "ü"}
	for _, m := range methods {
		for _, v := range versions {
			params := makeBinaryParamsBatch(t, []byte("payload"))
			var buf bytes.Buffer
			if err := WriteRequest(&buf, m, params, v); err != nil {
				t.Errorf("write m=%q v=%q: %v", m, v, err)
				params.Release()
				continue
			}
			if got := FindProtocolVersion(buf.Bytes()); got != v {
				t.Errorf("FindProtocolVersion m=%.10q v=%q got %q", m, v, got)
			}
			req, err := ReadRequest(bytes.NewReader(buf.Bytes()))
			if err != nil {
				t.Errorf("read m=%.10q v=%q: %v", m, v, err)
				params.Release()
				continue
			}
			if req.Method != m {
				t.Errorf("method mismatch %.10q", m)
			}
			if req.Metadata[MetaProtocolVersion] != v {
				t.Errorf("pv mismatch %q vs %q", req.Metadata[MetaProtocolVersion], v)
			}
			if !array.RecordEqual(req.Batch, params) {
				t.Errorf("params mismatch")
			}
			req.Batch.Release()
			params.Release()
		}
	}
}

// Params batch that already carries metadata colliding with the stamped keys.
func TestScoutProbeParamsWithCollidingMetadata(t *testing.T) {
	base := makeBinaryParamsBatch(t, []byte("payload"))
	defer base.Release()
	meta := arrow.NewMetadata(
		[]string{MetaMethod, MetaRequestVersion, MetaProtocolVersion, MetaLocation},
		[]string{"evil", "999", "666", "http://x"})
	params := array.NewRecordBatchWithMetadata(base.Schema(), base.Columns(), 1, meta)
	defer params.Release()
	var buf bytes.Buffer
	if err := WriteRequest(&buf, "good", params, "3"); err != nil {
		t.Fatal(err)
	}
	req, err := ReadRequest(bytes.NewReader(buf.Bytes()))
	if err != nil {
		t.Fatal(err)
	}
	defer req.Batch.Release()
	if req.Method != "good" || req.Metadata[MetaProtocolVersion] != "3" || len(req.Metadata) != 3 {
		t.Errorf("colliding metadata leaked: %+v", req.Metadata)
	}
}

// Sliced params, many column types, dictionary columns.
func TestScoutProbeSlicedAndDictParams(t *testing.T) {
	mem := defaultAllocator()
	schema := arrow.NewSchema([]arrow.Field{
		{Name: "i", Type: arrow.PrimitiveTypes.Int64, Nullable: true},
		{Name: "s", Type: arrow.BinaryTypes.String},
		{Name: "d", Type: &arrow.DictionaryType{IndexType: arrow.PrimitiveTypes.Int8, ValueType: arrow.BinaryTypes.String}},
		{Name: "l", Type: arrow.ListOf(arrow.PrimitiveTypes.Int32)},
	}, nil)
	rb := array.NewRecordBuilder(mem, schema)
	defer rb.Release()
	for k := 0; k < 3; k++ {
		if k == 1 {
			rb.Field(0).AppendNull()
		} else {
			rb.Field(0).(*array.Int64Builder).Append(int64(k) - 1<<62)
		}
		rb.Field(1).(*array.StringBuilder).Append(fmt.Sprintf("s%d", k))
		if err := rb.Field(2).(*array.BinaryDictionaryBuilder).AppendString(fmt.Sprintf("d%d", k)); err != nil {
			t.Fatal(err)
		}
		lb := rb.Field(3).(*array.ListBuilder)
		lb.Append(true)
		lb.ValueBuilder().(*array.Int32Builder).Append(int32(k))
	}
	full := rb.NewRecordBatch()
	defer full.Release()
	for k := int64(0); k < 3; k++ {
		params := full.NewSlice(k, k+1)
		var buf bytes.Buffer
		if err := WriteRequest(&buf, "m", params, "1"); err != nil {
			t.Fatal(err)
		}
		req, err := ReadRequest(bytes.NewReader(buf.Bytes()))
		if err != nil {
			t.Fatalf("slice %d: %v", k, err)
		}
		if !array.RecordEqual(req.Batch, params) {
			t.Errorf("slice %d: params differ:\n%v\n%v", k, req.Batch, params)
		}
		if got := FindProtocolVersion(buf.Bytes()); got != "1" {
			t.Errorf("slice %d: FindProtocolVersion=%q", k, got)
		}
		req.Batch.Release()
		params.Release()
	}
}

// Tokens: stamp via writeStateTokenBatch, in several body shapes.
func TestScoutProbeTokens(t *testing.T) {
	dataSchema := arrow.NewSchema([]arrow.Field{{Name: "v", Type: arrow.PrimitiveTypes.Int64}}, nil)
	hdrSchema := arrow.NewSchema([]arrow.Field{{Name: "h", Type: arrow.BinaryTypes.String}}, nil)

	mk := func(schema *arrow.Schema, f func(w *ipc.Writer)) []byte {
		var buf bytes.Buffer
		w := ipc.NewWriter(&buf, ipc.WithSchema(schema))
		f(w)
		if err := w.Close(); err != nil {
			t.Fatal(err)
		}
		return buf.Bytes()
	}
	dataBatch := func(n int) arrow.RecordBatch {
		b := array.NewInt64Builder(defaultAllocator())
		defer b.Release()
		for i := 0; i < n; i++ {
			b.Append(int64(i))
		}
		a := b.NewArray()
		defer a.Release()
		return array.NewRecordBatch(dataSchema, []arrow.Array{a}, int64(n))
	}

	toks := [][]byte{[]byte("tok"), []byte("a\x00b"), {0xff, 0xfe}, bytes.Repeat([]byte("z"), 100000)}
	for _, tok := range toks {
		for _, call := range [][]byte{nil, []byte("call"), {0x80}} {
			hdr := mk(hdrSchema, func(w *ipc.Writer) {
				b := emptyBatch(hdrSchema)
				defer b.Release()
				if err := w.Write(b); err != nil {
					t.Fatal(err)
				}
			})
			data := mk(dataSchema, func(w *ipc.Writer) {
				d := dataBatch(3)
				defer d.Release()
				if err := w.Write(d); err != nil {
					t.Fatal(err)
				}
				if err := writeLogBatch(w, dataSchema, LogMessage{Level: LogInfo, Message: "x"}, "", ""); err != nil {
					t.Fatal(err)
				}
				if err := writeStateTokenBatch(w, dataSchema, tok, call); err != nil {
					t.Fatal(err)
				}
			})
			for _, body := range [][]byte{data, append(bytes.Clone(hdr), data...), append(append(bytes.Clone(hdr), hdr...), data...)} {
				s, c := FindStreamTokens(body)
				if !bytes.Equal(s, tok) || !bytes.Equal(c, call) {
					t.Errorf("tokens mismatch: tok=%.10q call=%q got s=%.10q c=%q", tok, call, s, c)
				}
				if !bytes.Equal(FindStateToken(body), tok) || !bytes.Equal(FindCallStateToken(body), call) {
					t.Errorf("single finders mismatch")
				}
			}
		}
	}
}

// Unary results: sweep of payloads and schema variants.
func TestScoutProbeUnarySweep(t *testing.T) {
	payloads := [][]byte{nil, {}, {0}, []byte("x"), bytes.Repeat([]byte{0xff}, 1<<20)}
	schemas := []*arrow.Schema{
		scoutEnvelope,
		arrow.NewSchema([]arrow.Field{{Name: "result", Type: arrow.BinaryTypes.Binary, Nullable: true}}, nil),
		func() *arrow.Schema {
			md := arrow.NewMetadata([]string{"k"}, []string{"v"})
			return arrow.NewSchema([]arrow.Field{{Name: "result", Type: arrow.BinaryTypes.Binary, Metadata: md}}, &md)
		}(),
	}
	for _, s := range schemas {
		for _, p := range payloads {
			var buf bytes.Buffer
			if err := WriteUnaryResult(&buf, s, p); err != nil {
				t.Fatal(err)
			}
			gs, res, ok := ReadUnaryResult(buf.Bytes())
			if !ok || !bytes.Equal(res, p) {
				t.Errorf("unary round trip failed: ok=%v len=%d want=%d", ok, len(res), len(p))
				continue
			}
			if !gs.Equal(s) {
				t.Errorf("schema differs: %v vs %v", gs, s)
			}
			// re-wrap using returned schema
			var buf2 bytes.Buffer
			if err := WriteUnaryResult(&buf2, gs, res); err != nil {
				t.Errorf("rewrap: %v", err)
			}
			if !bytes.Equal(buf.Bytes(), buf2.Bytes()) {
				t.Logf("rewrapped bytes differ (len %d vs %d)", buf.Len(), buf2.Len())
			}
		}
	}
	// Non-"result" envelope field name accepted by WriteUnaryResult
	other := arrow.NewSchema([]arrow.Field{{Name: "payload", Type: arrow.BinaryTypes.Binary}}, nil)
	var buf bytes.Buffer
	err := WriteUnaryResult(&buf, other, []byte("x"))
	_, _, ok := ReadUnaryResult(buf.Bytes())
	t.Logf("envelope field 'payload': write err=%v, read ok=%v", err, ok)
}

// Truncation / bit-flip fuzz: no helper may panic on any mutated body.
func TestScoutProbeMutationNoPanic(t *testing.T) {
	params := makeBinaryParamsBatch(t, []byte("payload-bytes"))
	defer params.Release()
	var rq bytes.Buffer
	if err := WriteRequest(&rq, "method", params, "2"); err != nil {
		t.Fatal(err)
	}
	var ur bytes.Buffer
	if err := WriteUnaryResult(&ur, scoutEnvelope, []byte("serialized")); err != nil {
		t.Fatal(err)
	}
	f1 := 0
	guard := func(name, helper string, known bool, f func()) {
		defer func() {
			if r := recover(); r != nil {
				if known {
					f1++ // finding F1, asserted by the dedicated tests above
					return
				}
				t.Errorf("%s: %s PANIC: %v", name, helper, r)
			}
		}()
		f()
	}
	run := func(name string, body []byte) {
		if scoutDeclaresHugeAlloc(body) {
			return // covered separately (F2): arrow-go allocates the declared size up front
		}
		guard(name, "ReadRequest", false, func() {
			if req, err := ReadRequest(bytes.NewReader(body)); err == nil {
				req.Batch.Release()
			}
		})
		guard(name, "FindStreamTokens", false, func() { FindStreamTokens(body) })
		guard(name, "FindProtocolVersion", false, func() { FindProtocolVersion(body) })
		guard(name, "ReadUnaryResult", true, func() { ReadUnaryResult(body) })
	}
	defer func() { t.Logf("ReadUnaryResult panicked on %d single-byte mutations (finding F1)", f1) }()
	for _, src := range [][]byte{rq.Bytes(), ur.Bytes()} {
		for n := 0; n <= len(src); n++ {
			run(fmt.Sprintf("trunc%d", n), src[:n])
		}
		// Flips are confined to the record-batch BODY region (buffers + EOS):
		// flips in the flatbuffer metadata make arrow-go allocate attacker
		// declared sizes (tens of GB) before reading, see findings F2.
		for i := len(src) - 40; i < len(src); i++ {
			for _, x := range []byte{0x01, 0x04, 0x80, 0xff} {
				m := bytes.Clone(src)
				m[i] ^= x
				run(fmt.Sprintf("flip%d^%x", i, x), m)
			}
		}
	}
}

// scoutDeclaresHugeAlloc walks the encapsulated-message framing of body and
// reports whether any message declares a metadata or body length larger than
// the body itself (arrow-go allocates that size before reading).
func scoutDeclaresHugeAlloc(b []byte) (huge bool) {
	defer func() {
		if recover() != nil {
			huge = false // out-of-bounds flatbuffer: the reader fails fast on these
		}
	}()
	n := len(b)
	pos := 0
	for pos+4 <= n {
		l := int32(binary.LittleEndian.Uint32(b[pos:]))
		pos += 4
		if uint32(l) == 0xFFFFFFFF {
			if pos+4 > n {
				return false
			}
			l = int32(binary.LittleEndian.Uint32(b[pos:]))
			pos += 4
		}
		if l == 0 {
			continue // EOS; next concatenated stream
		}
		if l < 0 {
			return false
		}
		if int(l) > n {
			return true
		}
		if pos+int(l) > n {
			return false
		}
		m := b[pos : pos+int(l)]
		root := int(binary.LittleEndian.Uint32(m))
		vt := root - int(int32(binary.LittleEndian.Uint32(m[root:])))
		vtlen := int(binary.LittleEndian.Uint16(m[vt:]))
		var bodyLen int64
		if vtlen >= 12 {
			if off := int(binary.LittleEndian.Uint16(m[vt+10:])); off != 0 {
				bodyLen = int64(binary.LittleEndian.Uint64(m[root+off:]))
			}
		}
		if bodyLen > int64(n) {
			return true
		}
		if bodyLen < 0 {
			return false
		}
		pos += int(l) + int(bodyLen)
	}
	return false
}

// ---------------------------------------------------------------------------
// F2 (environment dependent): a ~300-byte body whose record-batch
// message declares bodyLength = 1<<46 makes arrow-go allocate 64 TiB before
// reading a single body byte. The Go runtime answers with an unrecoverable
// "fatal error: runtime: out of memory" -- the process dies; no recover()
// in the helper or its caller can intercept it. Run in a child process.
// ---------------------------------------------------------------------------

func scoutHugeBodyLen(t *testing.T) []byte {
	t.Helper()
	params := makeBinaryParamsBatch(t, []byte("payload-bytes"))
	defer params.Release()
	var rq bytes.Buffer
	if err := WriteRequest(&rq, "method", params, "2"); err != nil {
		t.Fatal(err)
	}
	body := bytes.Clone(rq.Bytes())
	// Locate the record-batch message (second encapsulated message) and its
	// flatbuffer bodyLength slot.
	pos := 0
	for k := 0; ; k++ {
		if binary.LittleEndian.Uint32(body[pos:]) != 0xFFFFFFFF {
			t.Fatal("unexpected framing")
		}
		l := int(binary.LittleEndian.Uint32(body[pos+4:]))
		m := body[pos+8 : pos+8+l]
		root := int(binary.LittleEndian.Uint32(m))
		vt := root - int(int32(binary.LittleEndian.Uint32(m[root:])))
		off := 0
		if int(binary.LittleEndian.Uint16(m[vt:])) >= 12 {
			off = int(binary.LittleEndian.Uint16(m[vt+10:]))
		}
		if off == 0 { // schema message: bodyLength defaulted to 0
			pos += 8 + l
			continue
		}
		binary.LittleEndian.PutUint64(m[root+off:], 1<<46)
		return body
	}
}

func TestScoutHugeBodyLenChild(t *testing.T) {
	if os.Getenv("SCOUT_HUGE_CHILD") != "1" {
		t.Skip("child only")
	}
	body := scoutHugeBodyLen(t)
	defer func() {
		if r := recover(); r != nil {
			fmt.Println("CHILD: recovered panic:", r)
		}
	}()
	_, err := ReadRequest(bytes.NewReader(body))
	fmt.Println("CHILD: ReadRequest returned err =", err)
}

func TestScoutHugeDeclaredBodyLengthKillsProcess(t *testing.T) {
	body := scoutHugeBodyLen(t)
	cmd := exec.Command(os.Args[0], "-test.run=^TestScoutHugeBodyLenChild$", "-test.v")
	cmd.Env = append(os.Environ(), "SCOUT_HUGE_CHILD=1")
	out, err := cmd.CombinedOutput()
	head := out
	if len(head) > 600 {
		head = head[:600]
	}
	t.Logf("body is %d bytes; child exit: %v; output (head):\n%s", len(body), err, head)
	if err != nil && bytes.Contains(out, []byte("fatal error")) {
		t.Errorf("a %d-byte malformed request body terminated the process with an unrecoverable runtime fatal error", len(body))
	}
}

// TestVerifReplay: the reproducers of the repaired defect (a result column whose offsets run backwards panicked in ReadUnaryResult) and the scout's passing round-trip sweeps; TestScoutHugeDeclaredBodyLengthKillsProcess reproduces a finding that is not repaired and is not run
func TestVerifReplay(t *testing.T) {
	t.Run("TestScoutReadUnaryResultPanicsOnDecreasingOffsets", TestScoutReadUnaryResultPanicsOnDecreasingOffsets)
	t.Run("TestScoutReadUnaryResultPanicsOnNegativeOffset", TestScoutReadUnaryResultPanicsOnNegativeOffset)
	t.Run("TestScoutSiblingsDoNotPanicOnSameBody", TestScoutSiblingsDoNotPanicOnSameBody)
	t.Run("TestScoutProbeNullResult", TestScoutProbeNullResult)
	t.Run("TestScoutProbeRoundTripSweep", TestScoutProbeRoundTripSweep)
	t.Run("TestScoutProbeParamsWithCollidingMetadata", TestScoutProbeParamsWithCollidingMetadata)
	t.Run("TestScoutProbeSlicedAndDictParams", TestScoutProbeSlicedAndDictParams)
	t.Run("TestScoutProbeTokens", TestScoutProbeTokens)
	t.Run("TestScoutProbeUnarySweep", TestScoutProbeUnarySweep)
	t.Run("TestScoutProbeMutationNoPanic", TestScoutProbeMutationNoPanic)
	t.Run("TestScoutReadRequestAcceptsCorruptTrailingMessage", TestScoutReadRequestAcceptsCorruptTrailingMessage)
}
