package vgirpc

// Replay for property C14: a continuation token only resumes the stream method that minted it.
// (a) method A's token presented at exchange method B's route must be refused, not run A's
//     state under B;  (b) method A's token presented at a PRODUCER route must be refused with a
//     response, not abort the exchange with a panic.
// VERIF_C14_HALF=panic restricts the replay to (b).

import (
	"bytes"
	"context"
	"io"
	"net/http"
	"net/http/httptest"
	"os"
	"testing"

	"github.com/apache/arrow-go/v18/arrow"
	"github.com/apache/arrow-go/v18/arrow/array"
	"github.com/apache/arrow-go/v18/arrow/ipc"
	"github.com/apache/arrow-go/v18/arrow/memory"
)

type c14Params struct {
	F float64 `vgirpc:"f"`
}
type c14ExState struct{ Tag string }

func (s *c14ExState) Exchange(_ context.Context, in arrow.RecordBatch, out *OutputCollector, _ *CallContext) error {
	in.Retain()
	return out.Emit(in)
}

type c14ProdState struct{ N int }

func (s *c14ProdState) Produce(_ context.Context, out *OutputCollector, _ *CallContext) error {
	return out.Finish()
}

func TestVerifReplay(t *testing.T) {
	RegisterStateType(&c14ExState{})
	RegisterStateType(&c14ProdState{})
	vs := arrow.NewSchema([]arrow.Field{{Name: "value", Type: arrow.PrimitiveTypes.Float64}}, nil)
	srv := NewServer()
	mk := func(tag string) func(context.Context, *CallContext, c14Params) (*StreamResult, error) {
		return func(context.Context, *CallContext, c14Params) (*StreamResult, error) {
			return &StreamResult{OutputSchema: vs, InputSchema: vs, State: &c14ExState{Tag: tag}}, nil
		}
	}
	Exchange(srv, "a", vs, vs, mk("a"))
	Exchange(srv, "b", vs, vs, mk("b"))
	Producer(srv, "p", vs, func(context.Context, *CallContext, c14Params) (*StreamResult, error) {
		return &StreamResult{OutputSchema: vs, State: &c14ProdState{}}, nil
	})
	h := NewHttpServer(srv)
	h.InitPages()
	ts := httptest.NewServer(h)
	defer ts.Close()
	mem := memory.NewGoAllocator()

	// init method "a"
	pb := array.NewFloat64Builder(mem)
	pb.Append(1)
	ps := arrow.NewSchema([]arrow.Field{{Name: "f", Type: arrow.PrimitiveTypes.Float64}}, nil)
	var initBody bytes.Buffer
	if err := WriteRequest(&initBody, "a", array.NewRecordBatch(ps, []arrow.Array{pb.NewArray()}, 1), ""); err != nil {
		t.Fatal(err)
	}
	resp, err := http.Post(ts.URL+"/a/init", arrowContentType, &initBody)
	if err != nil {
		t.Fatal(err)
	}
	ib, _ := io.ReadAll(resp.Body)
	resp.Body.Close()
	token, callToken := FindStreamTokens(ib)
	if token == nil {
		t.Skipf("no token from /a/init (status %d)", resp.StatusCode)
	}
	exchange := func(route string) (int, error) {
		vb := array.NewFloat64Builder(mem)
		vb.Append(2)
		in := array.NewRecordBatch(vs, []arrow.Array{vb.NewArray()}, 1)
		meta := arrow.NewMetadata([]string{MetaStreamState, MetaCallState}, []string{string(token), string(callToken)})
		var body bytes.Buffer
		w := ipc.NewWriter(&body, ipc.WithSchema(vs))
		w.Write(array.NewRecordBatchWithMetadata(vs, in.Columns(), 1, meta))
		w.Close()
		r, err := http.Post(ts.URL+route, arrowContentType, &body)
		if err != nil {
			return 0, err
		}
		io.Copy(io.Discard, r.Body)
		r.Body.Close()
		return r.StatusCode, nil
	}
	// (b) A's token at the producer route: must be answered (4xx), not abort the connection
	if code, err := exchange("/p/exchange"); err != nil {
		t.Errorf("method a's token at /p/exchange aborted the HTTP exchange (handler panic): %v", err)
	} else if code == http.StatusOK {
		t.Errorf("method a's token at /p/exchange was accepted (200)")
	}
	if os.Getenv("VERIF_C14_HALF") == "panic" {
		return
	}
	// (a) A's token at B's route: must be refused
	if code, err := exchange("/b/exchange"); err != nil {
		t.Errorf("/b/exchange: %v", err)
	} else if code == http.StatusOK {
		t.Errorf("method a's token resumed at /b/exchange with 200: a's state ran under b's route")
	}
}
