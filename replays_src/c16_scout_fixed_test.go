// Scout tests for property C16 (HTTP continuations advance the stream exactly
// one turn). This file belongs in the package directory  vgirpc/  of the main
// module (package vgirpc).

package vgirpc

import (
	"bytes"
	"context"
	"io"
	"net/http"
	"net/http/httptest"
	"strings"
	"sync"
	"testing"

	"github.com/apache/arrow-go/v18/arrow"
	"github.com/apache/arrow-go/v18/arrow/array"
	"github.com/apache/arrow-go/v18/arrow/ipc"
	"github.com/apache/arrow-go/v18/arrow/memory"
)

// ---------------------------------------------------------------------------
// helpers
// ---------------------------------------------------------------------------

type scoutParams struct {
	Factor float64 `vgirpc:"factor"`
}

var (
	scoutOneCol = arrow.NewSchema([]arrow.Field{{Name: "value", Type: arrow.PrimitiveTypes.Float64}}, nil)
	scoutTwoCol = arrow.NewSchema([]arrow.Field{
		{Name: "value", Type: arrow.PrimitiveTypes.Float64},
		{Name: "extra", Type: arrow.PrimitiveTypes.Float64},
	}, nil)
)

func scoutF64(vals ...float64) arrow.Array {
	b := array.NewFloat64Builder(memory.NewGoAllocator())
	defer b.Release()
	for _, v := range vals {
		b.Append(v)
	}
	return b.NewArray()
}

// scoutInit runs /<method>/init and returns (cursor, callToken).
func scoutInit(t *testing.T, base, method string) ([]byte, []byte) {
	t.Helper()
	arr := scoutF64(2.0)
	defer arr.Release()
	ps := arrow.NewSchema([]arrow.Field{{Name: "factor", Type: arrow.PrimitiveTypes.Float64}}, nil)
	pb := array.NewRecordBatch(ps, []arrow.Array{arr}, 1)
	defer pb.Release()
	var body bytes.Buffer
	if err := WriteRequest(&body, method, pb, ""); err != nil {
		t.Fatal(err)
	}
	resp, err := http.Post(base+"/"+method+"/init", "application/vnd.apache.arrow.stream", &body)
	if err != nil {
		t.Fatal(err)
	}
	data, _ := io.ReadAll(resp.Body)
	_ = resp.Body.Close()
	if resp.StatusCode != http.StatusOK {
		t.Fatalf("/init: status %d: %s", resp.StatusCode, data)
	}
	tok, call := FindStreamTokens(data)
	if tok == nil || call == nil {
		t.Fatal("/init returned no tokens")
	}
	return tok, call
}

// scoutExchangeBody builds a one-batch exchange request body.
func scoutExchangeBody(t *testing.T, schema *arrow.Schema, cols []arrow.Array, rows int64, keys, vals []string) *bytes.Buffer {
	t.Helper()
	rb := array.NewRecordBatchWithMetadata(schema, cols, rows, arrow.NewMetadata(keys, vals))
	defer rb.Release()
	var body bytes.Buffer
	w := ipc.NewWriter(&body, ipc.WithSchema(schema))
	if err := w.Write(rb); err != nil {
		t.Fatal(err)
	}
	if err := w.Close(); err != nil {
		t.Fatal(err)
	}
	return &body
}

type scoutTurn struct {
	status     int
	errHeader  string
	dataBatch  int  // batches that are neither log nor error batches
	errorBatch int  // batches carrying an EXCEPTION log level
	cursor     bool // some batch carried MetaStreamState
	raw        []byte
}

func scoutDecodeTurn(t *testing.T, resp *http.Response) scoutTurn {
	t.Helper()
	data, err := io.ReadAll(resp.Body)
	_ = resp.Body.Close()
	if err != nil {
		t.Fatal(err)
	}
	out := scoutTurn{status: resp.StatusCode, errHeader: resp.Header.Get("X-VGI-RPC-Error"), raw: data}
	rd, err := ipc.NewReader(bytes.NewReader(data))
	if err != nil {
		return out
	}
	defer rd.Release()
	for rd.Next() {
		rb := rd.RecordBatch()
		var meta arrow.Metadata
		if bwm, ok := rb.(arrow.RecordBatchWithMetadata); ok {
			meta = bwm.Metadata()
		}
		if _, ok := meta.GetValue(MetaStreamState); ok {
			out.cursor = true
		}
		if lvl, ok := meta.GetValue(MetaLogLevel); ok {
			if strings.EqualFold(lvl, "EXCEPTION") {
				out.errorBatch++
			}
			continue
		}
		out.dataBatch++
	}
	return out
}

// ---------------------------------------------------------------------------
// Finding 1: the exchange handler is handed the sealed cursor token (and the
// call token) on the input batch itself.
// ---------------------------------------------------------------------------

type scoutPeekState struct{}

var (
	scoutPeekMu   sync.Mutex
	scoutPeekSeen []string // framework keys visible on the input batch
	scoutPeekUser string
	scoutPeekCtx  []string // framework keys visible in CallContext.InputMetadata
)

func (s *scoutPeekState) Exchange(_ context.Context, in arrow.RecordBatch, out *OutputCollector, callCtx *CallContext) error {
	scoutPeekMu.Lock()
	scoutPeekSeen, scoutPeekCtx, scoutPeekUser = nil, nil, ""
	if bwm, ok := in.(arrow.RecordBatchWithMetadata); ok {
		m := bwm.Metadata()
		for _, k := range []string{MetaStreamState, MetaCallState, MetaCancel} {
			if v, ok := m.GetValue(k); ok && v != "" {
				scoutPeekSeen = append(scoutPeekSeen, k)
			}
		}
		scoutPeekUser, _ = m.GetValue("if_none_match")
	}
	for _, k := range []string{MetaStreamState, MetaCallState, MetaCancel} {
		if _, ok := callCtx.InputMetadata.GetValue(k); ok {
			scoutPeekCtx = append(scoutPeekCtx, k)
		}
	}
	scoutPeekMu.Unlock()
	arr := scoutF64(1)
	defer arr.Release()
	return out.Emit(array.NewRecordBatch(scoutOneCol, []arrow.Array{arr}, 1))
}

// TestScoutExchangeHandlerSeesTokenOnInputBatch: a conformant client sends an
// input batch whose schema is exactly the registered input schema (the normal
// case, so no cast happens). The handler's `input` argument then still carries
// the request's raw custom metadata, including the sealed cursor token.
func TestScoutExchangeHandlerSeesTokenOnInputBatch(t *testing.T) {
	RegisterStateType(&scoutPeekState{})
	srv := NewServer()
	Exchange(srv, "peek", scoutOneCol, scoutOneCol,
		func(_ context.Context, _ *CallContext, _ scoutParams) (*StreamResult, error) {
			return &StreamResult{OutputSchema: scoutOneCol, InputSchema: scoutOneCol, State: &scoutPeekState{}}, nil
		})
	h := NewHttpServer(srv)
	h.InitPages()
	ts := httptest.NewServer(h)
	defer ts.Close()

	tok, call := scoutInit(t, ts.URL, "peek")

	arr := scoutF64(21)
	defer arr.Release()
	body := scoutExchangeBody(t, scoutOneCol, []arrow.Array{arr}, 1,
		[]string{MetaStreamState, MetaCallState, "if_none_match"},
		[]string{string(tok), string(call), "etag-abc"})
	resp, err := http.Post(ts.URL+"/peek/exchange", "application/vnd.apache.arrow.stream", body)
	if err != nil {
		t.Fatal(err)
	}
	turn := scoutDecodeTurn(t, resp)
	if turn.status != 200 || turn.dataBatch != 1 || !turn.cursor {
		t.Fatalf("turn did not succeed: %+v", turn)
	}

	scoutPeekMu.Lock()
	defer scoutPeekMu.Unlock()
	if len(scoutPeekCtx) != 0 {
		t.Fatalf("CallContext.InputMetadata leaked %v", scoutPeekCtx)
	}
	if scoutPeekUser != "etag-abc" {
		t.Logf("note: user metadata on the input batch = %q", scoutPeekUser)
	}
	if len(scoutPeekSeen) != 0 {
		t.Fatalf("exchange handler was handed framework token keys on the input batch's own metadata: %v "+
			"(CallContext.InputMetadata is stripped, but the same metadata rides the `input` RecordBatch untouched)", scoutPeekSeen)
	}
}

// ---------------------------------------------------------------------------
// Finding 2: a turn whose data batch cannot be written ends the stream with
// neither a data batch, nor an error, nor a cursor (meta != nil), or with no
// HTTP response at all (meta == nil: panic outside every recover).
// Reachable by a client with two well-behaved methods and a foreign token.
// ---------------------------------------------------------------------------

// scoutNarrowState is a perfectly well-behaved state for a ONE-column method.
type scoutNarrowState struct{ WithMeta bool }

func (s *scoutNarrowState) Exchange(_ context.Context, _ arrow.RecordBatch, out *OutputCollector, _ *CallContext) error {
	arr := scoutF64(7)
	defer arr.Release()
	b := array.NewRecordBatch(scoutOneCol, []arrow.Array{arr}, 1)
	if s.WithMeta {
		return out.EmitWithMetadata(b, map[string]string{"vgi_batch_index": "0"})
	}
	return out.Emit(b)
}

// scoutWideState is a perfectly well-behaved state for a TWO-column method.
type scoutWideState struct{}

func (s *scoutWideState) Exchange(_ context.Context, _ arrow.RecordBatch, out *OutputCollector, _ *CallContext) error {
	a, b := scoutF64(1), scoutF64(2)
	defer a.Release()
	defer b.Release()
	return out.Emit(array.NewRecordBatch(scoutTwoCol, []arrow.Array{a, b}, 1))
}

func scoutTwoMethodServer(t *testing.T, withMeta bool) *httptest.Server {
	RegisterStateType(&scoutNarrowState{})
	RegisterStateType(&scoutWideState{})
	srv := NewServer()
	Exchange(srv, "narrow", scoutOneCol, scoutOneCol,
		func(_ context.Context, _ *CallContext, _ scoutParams) (*StreamResult, error) {
			return &StreamResult{OutputSchema: scoutOneCol, InputSchema: scoutOneCol, State: &scoutNarrowState{WithMeta: withMeta}}, nil
		})
	Exchange(srv, "wide", scoutTwoCol, scoutOneCol,
		func(_ context.Context, _ *CallContext, _ scoutParams) (*StreamResult, error) {
			return &StreamResult{OutputSchema: scoutTwoCol, InputSchema: scoutOneCol, State: &scoutWideState{}}, nil
		})
	h := NewHttpServer(srv)
	h.InitPages()
	return httptest.NewServer(h)
}

// The cursor minted by "narrow" is presented on "wide"'s /exchange route. The
// server accepts it (tokens are not bound to a method) and runs the turn. The
// turn must then either deliver one data batch + cursor, or an error.
func TestScoutForeignTokenTurnSilentlyEndsStream(t *testing.T) {
	ts := scoutTwoMethodServer(t, true)
	defer ts.Close()

	// sanity: both methods work on their own routes
	for _, m := range []string{"narrow", "wide"} {
		tok, call := scoutInit(t, ts.URL, m)
		arr := scoutF64(1)
		body := scoutExchangeBody(t, scoutOneCol, []arrow.Array{arr}, 1,
			[]string{MetaStreamState, MetaCallState}, []string{string(tok), string(call)})
		arr.Release()
		resp, err := http.Post(ts.URL+"/"+m+"/exchange", "application/vnd.apache.arrow.stream", body)
		if err != nil {
			t.Fatal(err)
		}
		turn := scoutDecodeTurn(t, resp)
		if turn.dataBatch != 1 || !turn.cursor || turn.errorBatch != 0 {
			t.Fatalf("sanity %s: %+v", m, turn)
		}
	}

	tok, call := scoutInit(t, ts.URL, "narrow")
	arr := scoutF64(1)
	defer arr.Release()
	body := scoutExchangeBody(t, scoutOneCol, []arrow.Array{arr}, 1,
		[]string{MetaStreamState, MetaCallState}, []string{string(tok), string(call)})
	resp, err := http.Post(ts.URL+"/wide/exchange", "application/vnd.apache.arrow.stream", body)
	if err != nil {
		t.Fatalf("no HTTP response: %v", err)
	}
	turn := scoutDecodeTurn(t, resp)
	t.Logf("status=%d X-VGI-RPC-Error=%q data=%d error=%d cursor=%v bodyLen=%d",
		turn.status, turn.errHeader, turn.dataBatch, turn.errorBatch, turn.cursor, len(turn.raw))
	if turn.status == http.StatusBadRequest {
		return // rejected outright: fine
	}
	ok := (turn.dataBatch == 1 && turn.cursor && turn.errorBatch == 0) ||
		(turn.errorBatch >= 1 && !turn.cursor)
	if !ok {
		t.Fatalf("turn was accepted (status %d, no error header %q) but returned neither one data batch with a cursor nor an error: "+
			"data=%d error=%d cursor=%v — the client sees a clean end-of-stream", turn.status, turn.errHeader, turn.dataBatch, turn.errorBatch, turn.cursor)
	}
}

// Same history, but the minting method emits without per-emit metadata: the
// flush path re-wraps the 1-column batch under the route's 2-column schema,
// array.NewRecordBatchWithMetadata panics, and that panic is outside the
// handler's recover — net/http kills the connection, the client gets no
// response at all.
func TestScoutForeignTokenTurnLosesResponse(t *testing.T) {
	ts := scoutTwoMethodServer(t, false)
	defer ts.Close()

	tok, call := scoutInit(t, ts.URL, "narrow")
	arr := scoutF64(1)
	defer arr.Release()
	body := scoutExchangeBody(t, scoutOneCol, []arrow.Array{arr}, 1,
		[]string{MetaStreamState, MetaCallState}, []string{string(tok), string(call)})
	resp, err := http.Post(ts.URL+"/wide/exchange", "application/vnd.apache.arrow.stream", body)
	if err != nil {
		t.Fatalf("exchange turn produced NO HTTP response (server goroutine panicked outside recover): %v", err)
	}
	turn := scoutDecodeTurn(t, resp)
	if turn.status == http.StatusBadRequest {
		return
	}
	ok := (turn.dataBatch == 1 && turn.cursor && turn.errorBatch == 0) ||
		(turn.errorBatch >= 1 && !turn.cursor)
	if !ok {
		t.Fatalf("neither data+cursor nor error: %+v", turn)
	}
}

// Same defect without any foreign token: the handler of the method itself
// emits a batch whose column count differs from the output schema (handler
// bug). A failed turn must surface as an error.
type scoutBadEmitState struct{}

func (s *scoutBadEmitState) Exchange(_ context.Context, _ arrow.RecordBatch, out *OutputCollector, _ *CallContext) error {
	a, b := scoutF64(1), scoutF64(2)
	defer a.Release()
	defer b.Release()
	return out.EmitWithMetadata(array.NewRecordBatch(scoutTwoCol, []arrow.Array{a, b}, 1), map[string]string{"k": "v"})
}

func TestScoutUnwritableEmitSilentlyEndsStream(t *testing.T) {
	RegisterStateType(&scoutBadEmitState{})
	srv := NewServer()
	Exchange(srv, "bademit", scoutOneCol, scoutOneCol,
		func(_ context.Context, _ *CallContext, _ scoutParams) (*StreamResult, error) {
			return &StreamResult{OutputSchema: scoutOneCol, InputSchema: scoutOneCol, State: &scoutBadEmitState{}}, nil
		})
	h := NewHttpServer(srv)
	h.InitPages()
	ts := httptest.NewServer(h)
	defer ts.Close()

	tok, call := scoutInit(t, ts.URL, "bademit")
	arr := scoutF64(1)
	defer arr.Release()
	body := scoutExchangeBody(t, scoutOneCol, []arrow.Array{arr}, 1,
		[]string{MetaStreamState, MetaCallState}, []string{string(tok), string(call)})
	resp, err := http.Post(ts.URL+"/bademit/exchange", "application/vnd.apache.arrow.stream", body)
	if err != nil {
		t.Fatal(err)
	}
	turn := scoutDecodeTurn(t, resp)
	t.Logf("status=%d X-VGI-RPC-Error=%q data=%d error=%d cursor=%v", turn.status, turn.errHeader, turn.dataBatch, turn.errorBatch, turn.cursor)
	ok := (turn.dataBatch == 1 && turn.cursor && turn.errorBatch == 0) ||
		(turn.errorBatch >= 1 && !turn.cursor)
	if !ok {
		t.Fatalf("failed turn returned no error (and no data, no cursor): %+v", turn)
	}
}

// TestVerifReplay: the reproducers of repaired defects (they failed before the repair and pass on the repaired code)
func TestVerifReplay(t *testing.T) {
	t.Run("TestScoutExchangeHandlerSeesTokenOnInputBatch", TestScoutExchangeHandlerSeesTokenOnInputBatch)
}
