package vgirpc

// Replay for property C37 (pairing): on the pipe and over HTTP, for unary and stream-init calls
// that succeed, fail or panic, a hook whose start returned normally has its end run exactly once
// with that start's token, and end receives a non-nil error exactly when the response reports an
// error; a hook that panics in start gets no end and changes neither the response nor later calls;
// a hook that panics in end does not change the response either.

import (
	"bytes"
	"context"
	"errors"
	"net/http"
	"net/http/httptest"
	"sync"
	"testing"

	"github.com/apache/arrow-go/v18/arrow"
	"github.com/apache/arrow-go/v18/arrow/array"
	"github.com/apache/arrow-go/v18/arrow/ipc"
	"github.com/apache/arrow-go/v18/arrow/memory"
)

type c37pEvent struct {
	kind   string // "start" | "end"
	token  int
	method string
	err    error
}

type c37pHook struct {
	mu         sync.Mutex
	next       int
	events     []c37pEvent
	panicStart bool
	panicEnd   bool
}

func (h *c37pHook) OnDispatchStart(ctx context.Context, info DispatchInfo) (context.Context, HookToken) {
	h.mu.Lock()
	if h.panicStart {
		h.mu.Unlock()
		panic("hook start panic")
	}
	h.next++
	tok := h.next
	h.events = append(h.events, c37pEvent{kind: "start", token: tok, method: info.Method})
	h.mu.Unlock()
	return ctx, tok
}

func (h *c37pHook) OnDispatchEnd(_ context.Context, token HookToken, info DispatchInfo, _ *CallStatistics, err error) {
	h.mu.Lock()
	tok, _ := token.(int)
	h.events = append(h.events, c37pEvent{kind: "end", token: tok, method: info.Method, err: err})
	pe := h.panicEnd
	h.mu.Unlock()
	if pe {
		panic("hook end panic")
	}
}

func (h *c37pHook) take() []c37pEvent {
	h.mu.Lock()
	defer h.mu.Unlock()
	ev := h.events
	h.events = nil
	return ev
}

type c37pParams struct {
	Value int64 `vgirpc:"value"`
}

var c37pSchema = arrow.NewSchema([]arrow.Field{{Name: "value", Type: arrow.PrimitiveTypes.Int64}}, nil)

func c37pRequest(t *testing.T, method string, v int64) []byte {
	b := array.NewInt64Builder(memory.NewGoAllocator())
	b.Append(v)
	col := b.NewArray()
	b.Release()
	rec := array.NewRecordBatch(c37pSchema, []arrow.Array{col}, 1)
	col.Release()
	defer rec.Release()
	var buf bytes.Buffer
	if err := WriteRequest(&buf, method, rec, ""); err != nil {
		t.Fatal(err)
	}
	return buf.Bytes()
}

// c37pReportsError: does the response body carry an exception batch?
func c37pReportsError(body []byte) bool {
	rest := body
	for len(rest) > 0 {
		rd := bytes.NewReader(rest)
		r, err := ipc.NewReader(rd)
		if err != nil {
			return false
		}
		for r.Next() {
			if rb, ok := r.RecordBatch().(arrow.RecordBatchWithMetadata); ok {
				if lv, _ := rb.Metadata().GetValue(MetaLogLevel); lv == string(LogException) {
					r.Release()
					return true
				}
			}
		}
		r.Release()
		if rd.Len() == 0 || rd.Len() == len(rest) {
			break
		}
		rest = rest[len(rest)-rd.Len():]
	}
	return false
}

func TestVerifReplay(t *testing.T) {
	hook := &c37pHook{}
	s := NewServer()
	s.SetDispatchHook(hook)
	// value 1: success, 2: error, 3: panic
	Unary(s, "u", func(_ context.Context, _ *CallContext, p c37pParams) (int64, error) {
		switch p.Value {
		case 2:
			return 0, errors.New("handler failed")
		case 3:
			panic("handler panic")
		}
		return p.Value, nil
	})
	Producer[c37pParams](s, "p", c37pSchema, func(_ context.Context, _ *CallContext, p c37pParams) (*StreamResult, error) {
		switch p.Value {
		case 2:
			return nil, &RpcError{Type: "ValueError", Message: "init failed"}
		case 3:
			panic("init panic")
		}
		return nil, &RpcError{Type: "ValueError", Message: "no stream in this witness"}
	})
	h := NewHttpServer(s)
	h.InitPages()

	pipe := func(method string, v int64) []byte {
		var out bytes.Buffer
		s.serveOne(context.Background(), bytes.NewReader(c37pRequest(t, method, v)), &out, &shmConnState{})
		return out.Bytes()
	}
	post := func(path, method string, v int64) []byte {
		req := httptest.NewRequest(http.MethodPost, path, bytes.NewReader(c37pRequest(t, method, v)))
		req.Header.Set("Content-Type", arrowContentType)
		w := httptest.NewRecorder()
		h.ServeHTTP(w, req)
		return w.Body.Bytes()
	}
	type call struct {
		name string
		run  func() []byte
	}
	var calls []call
	for _, v := range []int64{1, 2, 3} {
		v := v
		calls = append(calls,
			call{"pipe unary", func() []byte { return pipe("u", v) }},
			call{"pipe stream init", func() []byte { return pipe("p", v) }},
			call{"http unary", func() []byte { return post("/u", "u", v) }},
			call{"http stream init", func() []byte { return post("/p/init", "p", v) }},
		)
	}
	// 1. well-behaved hook
	for _, c := range calls {
		body := c.run()
		ev := hook.take()
		if len(ev) != 2 || ev[0].kind != "start" || ev[1].kind != "end" {
			t.Errorf("%s: hook events %+v, want one start then one end", c.name, ev)
			continue
		}
		if ev[1].token != ev[0].token {
			t.Errorf("%s: end received token %d, start returned %d", c.name, ev[1].token, ev[0].token)
		}
		if reported := c37pReportsError(body); reported != (ev[1].err != nil) {
			t.Errorf("%s: response reports an error = %v, but the hook's end received err = %v", c.name, reported, ev[1].err)
		}
	}
	// 2. hook that panics in end: same responses, still one start and one end each
	reference := map[int]bool{}
	for i, c := range calls {
		reference[i] = c37pReportsError(c.run())
	}
	hook.take()
	hook.panicEnd = true
	for i, c := range calls {
		body := c.run()
		ev := hook.take()
		if len(ev) != 2 {
			t.Errorf("%s (end panics): %d hook events, want start and end", c.name, len(ev))
		}
		if len(body) == 0 || c37pReportsError(body) != reference[i] {
			t.Errorf("%s (end panics): the response changed (empty=%v, error=%v, reference error=%v)", c.name, len(body) == 0, c37pReportsError(body), reference[i])
		}
	}
	hook.panicEnd = false
	// 3. hook that panics in start: no end, same responses
	hook.panicStart = true
	for i, c := range calls {
		body := c.run()
		ev := hook.take()
		if len(ev) != 0 {
			t.Errorf("%s (start panics): hook events %+v, want none (no end for a start that did not return)", c.name, ev)
		}
		if len(body) == 0 || c37pReportsError(body) != reference[i] {
			t.Errorf("%s (start panics): the response changed (empty=%v, error=%v, reference error=%v)", c.name, len(body) == 0, c37pReportsError(body), reference[i])
		}
	}
	hook.panicStart = false
	// 4. and later calls are unaffected
	for _, c := range calls[:4] {
		c.run()
		if ev := hook.take(); len(ev) != 2 || ev[0].token != ev[1].token {
			t.Errorf("%s after the panicking rounds: hook events %+v", c.name, ev)
		}
	}
	h.DrainHandle().Shutdown()
}
