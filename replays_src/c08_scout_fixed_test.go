// Scout tests for property C08 (values survive Arrow serialization).
// This file belongs in the package directory  vgirpc/  of the main module
// (package vgirpc, internal test).  Every TestScout* below FAILS on the
// unchanged code.
package vgirpc

import (
	"bytes"
	"fmt"
	"reflect"
	"testing"
	"time"

	"github.com/apache/arrow-go/v18/arrow"
	"github.com/apache/arrow-go/v18/arrow/array"
	"github.com/apache/arrow-go/v18/arrow/ipc"
)

// scoutRT sends value down the exact path a parameter struct takes:
// serializeVgirpcStruct -> IPC bytes -> ipc.Reader -> deserializeParams.
// A panic anywhere is turned into an error so every test reports cleanly.
func scoutRT(value any) (out reflect.Value, err error) {
	defer func() {
		if r := recover(); r != nil {
			err = fmt.Errorf("PANIC: %v", r)
		}
	}()
	data, err := serializeVgirpcStruct(value)
	if err != nil {
		return reflect.Value{}, fmt.Errorf("serialize: %w", err)
	}
	r, err := ipc.NewReader(bytes.NewReader(data))
	if err != nil {
		return reflect.Value{}, err
	}
	defer r.Release()
	if !r.Next() {
		return reflect.Value{}, fmt.Errorf("no batch")
	}
	out, err = deserializeParams(r.RecordBatch(), reflect.TypeOf(value))
	if err != nil {
		return reflect.Value{}, fmt.Errorf("deserialize: %w", err)
	}
	return out, nil
}

// ---------------------------------------------------------------------------
// F1: a nullable map field (*map[K]V) cannot be decoded at all.
// setMapField strips a pointer that setFieldFromArrow already stripped, so it
// calls reflect.MakeMapWithSize on the map's VALUE type and panics.
// ---------------------------------------------------------------------------

func TestScoutNullableMapFieldDecodes(t *testing.T) {
	type P struct {
		M *map[string]int64 `vgirpc:"m"`
	}
	m := map[string]int64{"a": 1, "b": 2}
	out, err := scoutRT(P{M: &m})
	if err != nil {
		t.Fatalf("round trip of *map[string]int64 failed: %v", err)
	}
	got := out.Interface().(P)
	if got.M == nil || !reflect.DeepEqual(*got.M, m) {
		t.Fatalf("got %v, want %v", got.M, m)
	}
}

// Same defect, empty map behind the pointer (nothing exotic in the value).
func TestScoutNullableMapFieldDecodesEmpty(t *testing.T) {
	type P struct {
		M *map[string]string `vgirpc:"m"`
	}
	m := map[string]string{}
	out, err := scoutRT(P{M: &m})
	if err != nil {
		t.Fatalf("round trip of *map[string]string failed: %v", err)
	}
	if got := out.Interface().(P); got.M == nil || len(*got.M) != 0 {
		t.Fatalf("got %v", got.M)
	}
}

// ---------------------------------------------------------------------------
// F2: a null map item is decoded as a pointer to the zero value.
// setMapField never asks items.IsNull, unlike setListField / setStructField.
// ---------------------------------------------------------------------------

func TestScoutMapNullItemStaysNil(t *testing.T) {
	type P struct {
		M map[string]*int64 `vgirpc:"m"`
	}
	one := int64(1)
	out, err := scoutRT(P{M: map[string]*int64{"a": nil, "b": &one}})
	if err != nil {
		t.Fatalf("round trip failed: %v", err)
	}
	got := out.Interface().(P)
	if p, ok := got.M["a"]; !ok || p != nil {
		t.Fatalf(`M["a"] was nil when sent; decoded as pointer to %d`, *p)
	}
	if got.M["b"] == nil || *got.M["b"] != 1 {
		t.Fatalf(`M["b"] = %v`, got.M["b"])
	}
}

type scoutPoint struct {
	X float64 `arrow:"x"`
}

func (scoutPoint) ArrowSchema() *arrow.Schema {
	return arrow.NewSchema([]arrow.Field{{Name: "x", Type: arrow.PrimitiveTypes.Float64}}, nil)
}

// Same root cause; with an ArrowSerializable item the null slot is handed to
// the IPC reader as zero bytes and the whole request is refused.
func TestScoutMapNullStructItemStaysNil(t *testing.T) {
	type P struct {
		M map[string]*scoutPoint `vgirpc:"m"`
	}
	out, err := scoutRT(P{M: map[string]*scoutPoint{"a": nil, "b": {X: 2}}})
	if err != nil {
		t.Fatalf("round trip failed: %v", err)
	}
	got := out.Interface().(P)
	if got.M["a"] != nil || got.M["b"] == nil || got.M["b"].X != 2 {
		t.Fatalf("got %v", got.M)
	}
}

// ---------------------------------------------------------------------------
// F3: the timestamp writer ignores the column's declared unit.
// buildArray/appendToBuilder always write t.UnixMicro(); the reader
// (timestampToTime) honours the unit. Any timestamp[s|ms|ns] column an
// ArrowSerializable / AnnotatedReturn type declares is silently off by 10^3
// or 10^6.
// ---------------------------------------------------------------------------

type scoutTSUnits struct {
	S  time.Time `arrow:"s"`
	MS time.Time `arrow:"ms"`
	NS time.Time `arrow:"ns"`
}

func (scoutTSUnits) ArrowSchema() *arrow.Schema {
	return arrow.NewSchema([]arrow.Field{
		{Name: "s", Type: &arrow.TimestampType{Unit: arrow.Second}},
		{Name: "ms", Type: &arrow.TimestampType{Unit: arrow.Millisecond}},
		{Name: "ns", Type: &arrow.TimestampType{Unit: arrow.Nanosecond}},
	}, nil)
}

func TestScoutTimestampUnitRoundTrip(t *testing.T) {
	type P struct {
		V scoutTSUnits `vgirpc:"v"`
	}
	ts := time.Date(2024, 5, 6, 7, 8, 9, 0, time.UTC)
	out, err := scoutRT(P{V: scoutTSUnits{S: ts, MS: ts, NS: ts}})
	if err != nil {
		t.Fatalf("round trip failed: %v", err)
	}
	got := out.Interface().(P).V
	if !got.S.Equal(ts) {
		t.Errorf("timestamp[s]:  sent %v, decoded %v", ts, got.S)
	}
	if !got.MS.Equal(ts) {
		t.Errorf("timestamp[ms]: sent %v, decoded %v", ts, got.MS)
	}
	if !got.NS.Equal(ts) {
		t.Errorf("timestamp[ns]: sent %v, decoded %v", ts, got.NS)
	}
}

// The same thing seen without this library's decoder: the raw wire value of a
// unary result whose type declares timestamp[ms] via AnnotatedReturn.
type scoutMillis time.Time

func (scoutMillis) VgirpcArrowResult() arrow.DataType {
	return &arrow.TimestampType{Unit: arrow.Millisecond, TimeZone: "UTC"}
}

func TestScoutTimestampUnitWireValue(t *testing.T) {
	schema, err := resultSchema(reflect.TypeOf(scoutMillis{}))
	if err != nil {
		t.Fatal(err)
	}
	ts := time.Date(2024, 5, 6, 7, 8, 9, 0, time.UTC)
	batch, err := serializeResult(schema, scoutMillis(ts))
	if err != nil {
		t.Fatal(err)
	}
	defer batch.Release()
	col := batch.Column(0).(*array.Timestamp)
	if got, want := int64(col.Value(0)), ts.UnixMilli(); got != want {
		t.Fatalf("timestamp[ms] column carries %d, want %d (= %v); a peer reads %v",
			got, want, ts, time.UnixMilli(got).UTC())
	}
}

// ---------------------------------------------------------------------------
// F4: an ArrowSerializable described by `vgirpc` tags is written correctly
// (findArrowField falls back to the vgirpc tag, on purpose) but read back as
// the zero value without any error: deserializeArrowSerializable only looks at
// `arrow` tags and skips every other field.
// ---------------------------------------------------------------------------

type scoutVgTagAS struct {
	X int64  `vgirpc:"x"`
	S string `vgirpc:"s"`
}

func (scoutVgTagAS) ArrowSchema() *arrow.Schema {
	return arrow.NewSchema([]arrow.Field{
		{Name: "x", Type: arrow.PrimitiveTypes.Int64},
		{Name: "s", Type: arrow.BinaryTypes.String},
	}, nil)
}

func TestScoutVgirpcTaggedArrowSerializableRoundTrip(t *testing.T) {
	type P struct {
		V scoutVgTagAS `vgirpc:"v"`
	}
	out, err := scoutRT(P{V: scoutVgTagAS{X: 7, S: "hi"}})
	if err != nil {
		t.Fatalf("round trip failed: %v", err)
	}
	if got := out.Interface().(P).V; got.X != 7 || got.S != "hi" {
		t.Fatalf("sent {X:7 S:hi}, decoded %+v (no error reported)", got)
	}
}

// ---------------------------------------------------------------------------
// F5: an ArrowSerializable whose ArrowSchema has a POINTER receiver.
// goTypeToArrowType and setFieldFromArrow both accept it
// (reflect.PointerTo(t).Implements(...)), the writer does not: buildArray
// dereferences the pointer and then fails the interface check (error), and
// appendToBuilder does an unchecked value.([]byte) (panic).
// ---------------------------------------------------------------------------

type scoutPtrAS struct {
	X int64 `arrow:"x"`
}

func (*scoutPtrAS) ArrowSchema() *arrow.Schema {
	return arrow.NewSchema([]arrow.Field{{Name: "x", Type: arrow.PrimitiveTypes.Int64}}, nil)
}

func TestScoutPointerReceiverArrowSerializableField(t *testing.T) {
	type P struct {
		V *scoutPtrAS `vgirpc:"v"`
	}
	if _, err := structToSchema(reflect.TypeOf(P{})); err != nil {
		t.Fatalf("schema derivation refuses the type (then it is simply unsupported): %v", err)
	}
	out, err := scoutRT(P{V: &scoutPtrAS{X: 7}})
	if err != nil {
		t.Fatalf("schema derives, round trip fails: %v", err)
	}
	if got := out.Interface().(P); got.V == nil || got.V.X != 7 {
		t.Fatalf("got %+v", got.V)
	}
}

func TestScoutPointerReceiverArrowSerializableInList(t *testing.T) {
	type P struct {
		V []*scoutPtrAS `vgirpc:"v"`
	}
	if _, err := structToSchema(reflect.TypeOf(P{})); err != nil {
		t.Fatalf("schema derivation refuses the type: %v", err)
	}
	out, err := scoutRT(P{V: []*scoutPtrAS{{X: 7}, nil}})
	if err != nil {
		t.Fatalf("schema derives, round trip fails: %v", err)
	}
	got := out.Interface().(P)
	if len(got.V) != 2 || got.V[0] == nil || got.V[0].X != 7 || got.V[1] != nil {
		t.Fatalf("got %+v", got.V)
	}
}

// TestVerifReplay: the reproducers of the repaired round-trip defects (nullable maps, null map items, timestamp units, vgirpc-tagged ArrowSerializable types); the two TestScoutPointerReceiver* functions reproduce a finding that is not repaired and are not run
func TestVerifReplay(t *testing.T) {
	t.Run("TestScoutNullableMapFieldDecodes", TestScoutNullableMapFieldDecodes)
	t.Run("TestScoutNullableMapFieldDecodesEmpty", TestScoutNullableMapFieldDecodesEmpty)
	t.Run("TestScoutMapNullItemStaysNil", TestScoutMapNullItemStaysNil)
	t.Run("TestScoutMapNullStructItemStaysNil", TestScoutMapNullStructItemStaysNil)
	t.Run("TestScoutTimestampUnitRoundTrip", TestScoutTimestampUnitRoundTrip)
	t.Run("TestScoutTimestampUnitWireValue", TestScoutTimestampUnitWireValue)
	t.Run("TestScoutVgirpcTaggedArrowSerializableRoundTrip", TestScoutVgirpcTaggedArrowSerializableRoundTrip)
}
