package vgirpc

// Replay for property C18 (readHTTPBody / decompressBounded): cap arithmetic must not wrap.
// With the largest configurable cap a valid body must still be read exactly.

import (
	"bytes"
	"math"
	"net/http/httptest"
	"testing"

	"github.com/klauspost/compress/zstd"
)

func TestVerifReplay(t *testing.T) {
	payload := []byte("hello")
	// (1) limit+1 wraps to a negative LimitReader bound: the body is read as empty
	h := NewHttpServer(NewServer())
	h.SetMaxBodySize(math.MaxInt64)
	r := httptest.NewRequest("POST", "/x", bytes.NewReader(payload))
	got, err := h.readHTTPBody(r)
	if err != nil || !bytes.Equal(got, payload) {
		t.Errorf("max body size MaxInt64: 5-byte body read as %q, err=%v", got, err)
	}
	// (2) limit*16 wraps: the derived decoded cap becomes negative / tiny
	enc, _ := zstd.NewWriter(nil)
	comp := enc.EncodeAll(payload, nil)
	for _, lim := range []int64{math.MaxInt64/16 + 1, 1 << 60, 1<<62 + 1} {
		h2 := NewHttpServer(NewServer())
		h2.SetMaxBodySize(lim)
		r2 := httptest.NewRequest("POST", "/x", bytes.NewReader(comp))
		r2.Header.Set("Content-Encoding", "zstd")
		got2, err2 := h2.readHTTPBody(r2)
		if err2 != nil || !bytes.Equal(got2, payload) {
			t.Errorf("max body size %d: zstd body decoded as %q, err=%v", lim, got2, err2)
		}
	}
	// (3) maxOutput+1 wraps inside decompressBounded
	got3, err3 := decompressBounded("zstd", comp, math.MaxInt64)
	if err3 != nil || !bytes.Equal(got3, payload) {
		t.Errorf("decompressBounded cap MaxInt64: decoded %q, err=%v", got3, err3)
	}
}
