package vgirpc

// Replay for property C03 (deserializeParams): a structurally valid request with zero rows that
// carries a vgi_rpc.location key passes ReadRequest's row check (pointer exemption) and must be
// answered with an error, not crash the server loop.

import (
	"bytes"
	"context"
	"testing"

	"github.com/apache/arrow-go/v18/arrow"
	"github.com/apache/arrow-go/v18/arrow/array"
	"github.com/apache/arrow-go/v18/arrow/ipc"
	"github.com/apache/arrow-go/v18/arrow/memory"
)

type replayParams struct {
	X int64 `vgirpc:"x"`
}

func TestVerifReplay(t *testing.T) {
	s := NewServer()
	Unary(s, "echo", func(ctx context.Context, c *CallContext, p replayParams) (int64, error) { return p.X, nil })

	schema := arrow.NewSchema([]arrow.Field{{Name: "x", Type: arrow.PrimitiveTypes.Int64}}, nil)
	b := array.NewInt64Builder(memory.DefaultAllocator)
	col := b.NewArray() // zero rows
	meta := arrow.NewMetadata(
		[]string{MetaMethod, MetaRequestVersion, MetaLocation},
		[]string{"echo", ProtocolVersion, "https://example.invalid/obj"})
	zero := array.NewRecordBatchWithMetadata(schema, []arrow.Array{col}, 0, meta)
	var in bytes.Buffer
	w := ipc.NewWriter(&in, ipc.WithSchema(schema))
	if err := w.Write(zero); err != nil {
		t.Fatal(err)
	}
	w.Close()

	var out bytes.Buffer
	panicked := func() (p any) {
		defer func() { p = recover() }()
		s.Serve(&in, &out)
		return nil
	}()
	if panicked != nil {
		t.Fatalf("a zero-row request carrying %s made a panic escape Server.Serve: %v", MetaLocation, panicked)
	}
	if out.Len() == 0 {
		t.Fatalf("no response was written for the malformed request")
	}
}
