// Scout reproducer for property C15. Belongs in: vgirpc/  (package vgirpc,
// main module at the worktree root). Run with:
//
//	go test ./vgirpc -run 'TestScout' -count=1 -v
package vgirpc

import (
	"bytes"
	"context"
	"io"
	"net/http"
	"net/http/httptest"
	"testing"
	"time"

	"github.com/apache/arrow-go/v18/arrow"
	"github.com/apache/arrow-go/v18/arrow/array"
	"github.com/apache/arrow-go/v18/arrow/ipc"
	"github.com/apache/arrow-go/v18/arrow/memory"
)

type scoutParams struct {
	Factor float64 `vgirpc:"factor"`
}

type scoutExchangeState struct{ N int }

func (s *scoutExchangeState) Exchange(_ context.Context, in arrow.RecordBatch, out *OutputCollector, _ *CallContext) error {
	s.N++
	in.Retain()
	return out.Emit(in)
}

var scoutValueSchema = arrow.NewSchema([]arrow.Field{{Name: "value", Type: arrow.PrimitiveTypes.Float64}}, nil)

// scoutInstance builds one HTTP instance sharing `key`. configure runs before
// the instance serves anything.
func scoutInstance(t *testing.T, key []byte, configure func(h *HttpServer)) (*HttpServer, *httptest.Server) {
	t.Helper()
	RegisterStateType(&scoutExchangeState{})
	srv := NewServer()
	Exchange(srv, "scout", scoutValueSchema, scoutValueSchema,
		func(_ context.Context, _ *CallContext, _ scoutParams) (*StreamResult, error) {
			return &StreamResult{OutputSchema: scoutValueSchema, InputSchema: scoutValueSchema, State: &scoutExchangeState{}}, nil
		})
	h, err := NewHttpServerWithKey(srv, key)
	if err != nil {
		t.Fatal(err)
	}
	if configure != nil {
		configure(h)
	}
	h.InitPages()
	ts := httptest.NewServer(h)
	t.Cleanup(ts.Close)
	return h, ts
}

func scoutInit(t *testing.T, ts *httptest.Server) (cursor, call []byte) {
	t.Helper()
	mem := memory.NewGoAllocator()
	pb := array.NewFloat64Builder(mem)
	pb.Append(2.0)
	arr := pb.NewArray()
	pb.Release()
	ps := arrow.NewSchema([]arrow.Field{{Name: "factor", Type: arrow.PrimitiveTypes.Float64}}, nil)
	batch := array.NewRecordBatch(ps, []arrow.Array{arr}, 1)
	var body bytes.Buffer
	if err := WriteRequest(&body, "scout", batch, ""); err != nil {
		t.Fatal(err)
	}
	batch.Release()
	arr.Release()
	resp, err := http.Post(ts.URL+"/scout/init", "application/vnd.apache.arrow.stream", &body)
	if err != nil {
		t.Fatal(err)
	}
	b, _ := io.ReadAll(resp.Body)
	_ = resp.Body.Close()
	if resp.StatusCode != 200 {
		t.Fatalf("/init: %d %s", resp.StatusCode, b)
	}
	cursor, call = FindStreamTokens(b)
	if cursor == nil || call == nil {
		t.Fatal("/init response missing tokens")
	}
	return cursor, call
}

// scoutExchange posts one continuation. callToken == nil means "do not send a
// call token at all". Returns status, X-VGI-RPC-Error header, body and the next
// cursor (nil if none).
func scoutExchange(t *testing.T, ts *httptest.Server, cursor, callToken []byte) (int, string, []byte, []byte) {
	t.Helper()
	mem := memory.NewGoAllocator()
	vb := array.NewFloat64Builder(mem)
	vb.Append(21.0)
	arr := vb.NewArray()
	vb.Release()
	keys := []string{MetaStreamState}
	vals := []string{string(cursor)}
	if callToken != nil {
		keys = append(keys, MetaCallState)
		vals = append(vals, string(callToken))
	}
	in := array.NewRecordBatchWithMetadata(scoutValueSchema, []arrow.Array{arr}, 1, arrow.NewMetadata(keys, vals))
	var body bytes.Buffer
	w := ipc.NewWriter(&body, ipc.WithSchema(scoutValueSchema))
	if err := w.Write(in); err != nil {
		t.Fatal(err)
	}
	if err := w.Close(); err != nil {
		t.Fatal(err)
	}
	in.Release()
	arr.Release()
	resp, err := http.Post(ts.URL+"/scout/exchange", "application/vnd.apache.arrow.stream", &body)
	if err != nil {
		t.Fatal(err)
	}
	b, _ := io.ReadAll(resp.Body)
	_ = resp.Body.Close()
	next, _ := FindStreamTokens(b)
	return resp.StatusCode, resp.Header.Get("X-VGI-RPC-Error"), b, next
}

func scoutKey() []byte { return bytes.Repeat([]byte{0x5c}, 32) }

// Finding 1. The very same continuation request gets a different outcome
// depending on whether the call-state cache hits (instance that served /init),
// is disabled, or misses (a second instance sharing the key).
func TestScoutSameRequestDifferentOutcomeOnHitVsMiss(t *testing.T) {
	key := scoutKey()
	_, warm := scoutInstance(t, key, nil)                                                  // served /init -> cache hit
	_, peer := scoutInstance(t, key, nil)                                                  // same key, never saw /init -> miss
	_, nocache := scoutInstance(t, key, func(h *HttpServer) { h.SetCallStateCacheEntries(0) }) // cache disabled

	cursor, call := scoutInit(t, warm)
	_, otherCall := scoutInit(t, warm) // a different call's (perfectly valid) call token

	// A call token sealed under a DIFFERENT key: a forgery as far as these
	// instances are concerned.
	_, foreign := scoutInstance(t, bytes.Repeat([]byte{0x11}, 32), nil)
	_, forgedCall := scoutInit(t, foreign)

	// Control: a conformant request has the same outcome everywhere.
	for name, ts := range map[string]*httptest.Server{"warm": warm, "peer": peer, "nocache": nocache} {
		if st, _, b, _ := scoutExchange(t, ts, cursor, call); st != 200 {
			t.Fatalf("control on %s: %d %s", name, st, b)
		}
	}

	cases := []struct {
		name string
		call []byte
	}{
		{"no-call-token", nil},
		{"garbage-call-token", []byte("AAAA")},
		{"another-calls-token", otherCall},
		{"call-token-sealed-under-foreign-key", forgedCall},
	}
	for _, c := range cases {
		// Re-warm deterministically: the control above already did, but be explicit.
		stWarm, errWarm, _, _ := scoutExchange(t, warm, cursor, c.call)
		stPeer, errPeer, _, _ := scoutExchange(t, peer2(t, key), cursor, c.call)
		stOff, errOff, _, _ := scoutExchange(t, nocache, cursor, c.call)
		t.Logf("%-40s hit: %d err=%q | miss(other instance): %d err=%q | cache disabled: %d err=%q",
			c.name, stWarm, errWarm, stPeer, errPeer, stOff, errOff)
		if stWarm != stPeer || stWarm != stOff || errWarm != errPeer || errWarm != errOff {
			t.Errorf("%s: outcome of the SAME request depends on the cache: hit=%d/%q miss=%d/%q disabled=%d/%q",
				c.name, stWarm, errWarm, stPeer, errPeer, stOff, errOff)
		}
	}
}

// peer2 returns a brand-new instance sharing the key whose cache has never
// seen anything (so every lookup is a genuine miss).
func peer2(t *testing.T, key []byte) *httptest.Server {
	_, ts := scoutInstance(t, key, nil)
	return ts
}

// Finding 2. SetCallStateCacheEntries(0) documents "0 disables it ... every
// continuation then takes the miss path, so a client that fails to echo the
// call token fails immediately". A later SetTokenTTL silently rebuilds the
// cache at the DEFAULT size, so the "disabled" configuration hits again.
func TestScoutSetTokenTTLReenablesDisabledCache(t *testing.T) {
	key := scoutKey()
	h, ts := scoutInstance(t, key, func(h *HttpServer) {
		h.SetCallStateCacheEntries(0)
		h.SetTokenTTL(10 * time.Minute)
	})
	_, ref := scoutInstance(t, key, func(h *HttpServer) {
		h.SetTokenTTL(10 * time.Minute)
		h.SetCallStateCacheEntries(0)
	})
	if h.callStates.max != 0 {
		t.Errorf("cache was disabled with SetCallStateCacheEntries(0) but has max=%d after SetTokenTTL", h.callStates.max)
	}
	cursor, _ := scoutInit(t, ts)
	st, _, _, _ := scoutExchange(t, ts, cursor, nil)
	rcursor, _ := scoutInit(t, ref)
	rst, _, _, _ := scoutExchange(t, ref, rcursor, nil)
	t.Logf("continuation without call token: disable-then-TTL -> %d ; TTL-then-disable -> %d", st, rst)
	if st != rst {
		t.Errorf("same configuration in a different setter order gives a different outcome: %d vs %d", st, rst)
	}
}

// Probe (expected to PASS): the cache does not extend the call token's
// lifetime. Fresh cursor + expired call token is refused on hit, miss and
// disabled alike.
func TestScoutProbeExpiredCallTokenRefusedEverywhere(t *testing.T) {
	key := scoutKey()
	ttl := 3 * time.Second
	cfg := func(h *HttpServer) { h.SetTokenTTL(ttl) }
	_, warm := scoutInstance(t, key, cfg)
	_, peer := scoutInstance(t, key, cfg)
	_, nocache := scoutInstance(t, key, func(h *HttpServer) { h.SetTokenTTL(ttl); h.SetCallStateCacheEntries(0) })

	start := time.Now()
	cursor, call := scoutInit(t, warm)
	time.Sleep(2 * time.Second)
	st, _, b, cursor2 := scoutExchange(t, warm, cursor, call)
	if st != 200 || cursor2 == nil {
		t.Fatalf("mid exchange: %d %s", st, b)
	}
	time.Sleep(time.Until(start.Add(ttl + 200*time.Millisecond)))
	for name, ts := range map[string]*httptest.Server{"warm": warm, "peer": peer, "nocache": nocache} {
		for _, ct := range [][]byte{call, nil} {
			st, _, b, _ := scoutExchange(t, ts, cursor2, ct)
			t.Logf("%s call-token-present=%v -> %d", name, ct != nil, st)
			if st == 200 {
				t.Errorf("%s: continuation with an expired call token (fresh cursor) was accepted: %s", name, b)
			}
		}
	}
}

// TestVerifReplay: the reproducer of the repaired defect (SetTokenTTL keeps a disabled cache disabled) and the expiry probe; TestScoutSameRequestDifferentOutcomeOnHitVsMiss reproduces documented behaviour and is not run
func TestVerifReplay(t *testing.T) {
	t.Run("TestScoutSetTokenTTLReenablesDisabledCache", TestScoutSetTokenTTLReenablesDisabledCache)
	t.Run("TestScoutProbeExpiredCallTokenRefusedEverywhere", TestScoutProbeExpiredCallTokenRefusedEverywhere)
}
