package vgirpc

// Replay for property C05 (buildErrorExtra): no Go type name may reach the wire; any error
// that is not an RpcError value or a typed framework error is a RuntimeError.

import (
	"encoding/json"
	"errors"
	"fmt"
	"testing"
)

func TestVerifReplay(t *testing.T) {
	for _, e := range []error{
		errors.New("boom"),
		fmt.Errorf("wrapped: %w", &RpcError{Type: "ValueError", Message: "x"}),
		fmt.Errorf("plain %d", 1),
	} {
		var extra struct {
			ExceptionType string `json:"exception_type"`
		}
		if err := json.Unmarshal([]byte(buildErrorExtra(e, false)), &extra); err != nil {
			t.Fatal(err)
		}
		if extra.ExceptionType != "RuntimeError" {
			t.Errorf("error %T reached the wire as exception_type %q, want RuntimeError", e, extra.ExceptionType)
		}
	}
}
