package vgirpc

// Replay for property C05 (buildErrorExtra): no Go type name may reach the wire; any error
// that is not an RpcError value or a typed framework error is a RuntimeError.

import (
	"bytes"
	"encoding/json"
	"errors"
	"fmt"
	"testing"

	"github.com/apache/arrow-go/v18/arrow"
	"github.com/apache/arrow-go/v18/arrow/ipc"
)

// c05Kind writes err as an exception batch and reads back its vgi_rpc.error_kind key.
func c05Kind(t *testing.T, err error) (kind string, present bool, excType string) {
	schema := arrow.NewSchema(nil, nil)
	var buf bytes.Buffer
	w := ipc.NewWriter(&buf, ipc.WithSchema(schema))
	if e := writeErrorBatch(w, schema, err, "srv", "req", false); e != nil {
		t.Fatal(e)
	}
	w.Close()
	r, e := ipc.NewReader(bytes.NewReader(buf.Bytes()))
	if e != nil {
		t.Fatal(e)
	}
	defer r.Release()
	if !r.Next() {
		t.Fatal("no exception batch written")
	}
	md := r.RecordBatch().(arrow.RecordBatchWithMetadata).Metadata()
	if i := md.FindKey(MetaErrorKind); i >= 0 {
		kind, present = md.Values()[i], true
	}
	extra, _ := md.GetValue(MetaLogExtra)
	var d errorExtra
	json.Unmarshal([]byte(extra), &d)
	if msg, _ := md.GetValue(MetaLogMessage); msg != err.Error() {
		t.Errorf("%T: message on the wire %q, want %q", err, msg, err.Error())
	}
	return kind, present, d.ExceptionType
}

func TestVerifReplay(t *testing.T) {
	for _, e := range []error{
		errors.New("boom"),
		fmt.Errorf("wrapped: %w", &RpcError{Type: "ValueError", Message: "x"}),
		fmt.Errorf("plain %d", 1),
	} {
		var extra struct {
			ExceptionType string `json:"exception_type"`
		}
		if err := json.Unmarshal([]byte(buildErrorExtra(e, false)), &extra); err != nil {
			t.Fatal(err)
		}
		if extra.ExceptionType != "RuntimeError" {
			t.Errorf("error %T reached the wire as exception_type %q, want RuntimeError", e, extra.ExceptionType)
		}
	}
	for _, c := range []struct {
		err           error
		kind, excType string
	}{
		{&RpcError{Type: "ValueError", Message: "m", Kind: "custom_kind"}, "custom_kind", "ValueError"},
		{&RpcError{Type: "ValueError", Message: "m"}, "", "ValueError"},
		{&ProtocolVersionError{Message: "m"}, "protocol_version_mismatch", "ProtocolVersionError"},
		{&SessionLostError{}, "session_lost", "SessionLostError"},
		{&ServerDrainingError{}, "server_draining", "ServerDrainingError"},
		{&MethodNotImplementedError{}, "MethodNotImplementedError", "AttributeError"},
		{errors.New("plain"), "", "RuntimeError"},
	} {
		kind, present, exc := c05Kind(t, c.err)
		if kind != c.kind || present != (c.kind != "") {
			t.Errorf("%T: error_kind on the wire %q (present=%v), want %q", c.err, kind, present, c.kind)
		}
		if exc != c.excType {
			t.Errorf("%T: exception type %q, want %q", c.err, exc, c.excType)
		}
	}
}
