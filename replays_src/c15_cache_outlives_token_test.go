package vgirpc

// Replay for property C15 (resolveCall / callStateCache.put): the call cache must never change
// an outcome. A call token minted at CreatedAt expires at CreatedAt+TTL on every instance; an
// instance that first sees the stream late (cache miss) must not keep accepting it afterwards.

import (
	"testing"
	"time"
)

func TestVerifReplay(t *testing.T) {
	h := NewHttpServer(NewServer())
	h.SetTokenTTL(2 * time.Second)
	callID, err := newCallID()
	if err != nil {
		t.Fatal(err)
	}
	// a call token minted 1 s ago by another instance sharing the key
	created := time.Now().Unix() - 1
	data := callTokenData{CreatedAt: created, CallID: callID, StreamID: "sid"}
	tok, err := h.sealToken(callTokenVersion, &data, callTokenAad(nil))
	if err != nil {
		t.Fatal(err)
	}
	cursor := &cursorTokenData{CreatedAt: time.Now().Unix(), CallID: callID}
	if _, err := h.resolveCall(cursor, tok, nil); err != nil {
		t.Skipf("token not accepted while fresh: %v", err)
	}
	// wait until the token itself has expired (age > 2 s) ...
	time.Sleep(time.Until(time.Unix(created, 0).Add(2*time.Second + 1100*time.Millisecond)))
	// ... an instance with a cold cache refuses it:
	cold := NewHttpServer(NewServer())
	cold.tokenKey = h.tokenKey
	cold.SetTokenTTL(2 * time.Second)
	_, coldErr := cold.resolveCall(cursor, tok, nil)
	// ... and so must the instance that cached it on a miss:
	_, warmErr := h.resolveCall(cursor, tok, nil)
	if coldErr != nil && warmErr == nil {
		t.Fatalf("token age %v > ttl 2s: cold-cache instance refuses (%v) but the instance that cached the call on a miss still accepts it", time.Since(time.Unix(created, 0)), coldErr)
	}
}
