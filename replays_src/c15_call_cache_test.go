package vgirpc

// Replay for property C15 (the call cache itself): a hit returns exactly what was stored under
// the same (call id, identity) pair and only until the stored token's creation time + ttl; other
// identities and other call ids miss; a disabled cache (nil, max <= 0) never hits; eviction keeps
// the map and the order list in step (no lookup ever panics or returns another key's call).

import (
	"fmt"
	"testing"
	"time"
)

func TestVerifReplay(t *testing.T) {
	alice := &AuthContext{Domain: "d", Principal: "alice", Authenticated: true}
	alice2 := &AuthContext{Domain: "d", Principal: "alice", Authenticated: true}
	bob := &AuthContext{Domain: "d", Principal: "bob", Authenticated: true}
	unauth := &AuthContext{Domain: "d", Principal: "alice", Authenticated: false}
	callA := &resolvedCall{StreamID: "A"}
	callB := &resolvedCall{StreamID: "B"}
	now := time.Now().Unix()

	for _, max := range []int{-1, 0} {
		c := newCallStateCache(max, time.Minute)
		c.put("id", alice, callA, now)
		if got := c.get("id", alice); got != nil {
			t.Errorf("max=%d: a disabled cache hit", max)
		}
		if len(c.entries) != 0 || c.order.Len() != 0 {
			t.Errorf("max=%d: a disabled cache stored something", max)
		}
	}
	var nilCache *callStateCache
	nilCache.put("id", alice, callA, now)
	if nilCache.get("id", alice) != nil {
		t.Errorf("nil cache hit")
	}

	c := newCallStateCache(8, time.Minute)
	c.put("id", alice, callA, now)
	if got := c.get("id", alice); got != callA {
		t.Errorf("fresh entry: got %v, want the stored call", got)
	}
	if got := c.get("id", alice2); got != callA {
		t.Errorf("same identity, different AuthContext object: got %v, want the stored call", got)
	}
	for name, who := range map[string]*AuthContext{"bob": bob, "unauthenticated alice": unauth, "nil": nil} {
		if got := c.get("id", who); got != nil {
			t.Errorf("identity %s hit alice's entry: %v", name, got)
		}
	}
	if got := c.get("id2", alice); got != nil {
		t.Errorf("another call id hit: %v", got)
	}
	// NUL-joined key: (id, domain="d\x00alice"...) must not collide with a plain pair it was not stored for
	if got := c.get("id\x00d", &AuthContext{Domain: "alice", Principal: "", Authenticated: true}); got != nil && got == callA {
		// ("id\x00d", "alice", "") renders the same bytes as ("id", "d", "alice"+"\x00"...)? only if the joins coincide
		t.Logf("note: NUL-containing call id collides with another pair (call ids are server-minted hex, so not reachable)")
	}
	// update in place keeps one entry and takes the new call and expiry
	c.put("id", alice, callB, now)
	if got := c.get("id", alice); got != callB {
		t.Errorf("updated entry: got %v, want the new call", got)
	}
	if len(c.entries) != 1 || c.order.Len() != 1 {
		t.Errorf("update in place left %d map entries / %d list elements", len(c.entries), c.order.Len())
	}

	// expiry is the token's creation time + ttl, whenever it was cached
	for _, tc := range []struct {
		ttl     time.Duration
		created int64
		hit     bool
	}{
		{time.Minute, now - 30, true},
		{time.Minute, now - 59, true},
		{time.Minute, now - 61, false},
		{time.Minute, now - 3600, false},
		{2 * time.Second, now - 3, false},
		{0, now - 3599, true}, // ttl <= 0 means one hour
		{0, now - 3601, false},
	} {
		c := newCallStateCache(8, tc.ttl)
		c.put("id", alice, callA, tc.created)
		got := c.get("id", alice)
		if (got != nil) != tc.hit {
			t.Errorf("ttl=%v token created %ds ago: hit=%v, want %v", tc.ttl, now-tc.created, got != nil, tc.hit)
		}
		if !tc.hit && (len(c.entries) != 0 || c.order.Len() != 0) {
			t.Errorf("ttl=%v: expired entry left behind (%d map entries, %d list elements)", tc.ttl, len(c.entries), c.order.Len())
		}
	}

	// eviction keeps map and list in step; every surviving key returns its own call
	for _, max := range []int{1, 2, 5} {
		c := newCallStateCache(max, time.Minute)
		calls := map[string]*resolvedCall{}
		for i := 0; i < 20; i++ {
			id := fmt.Sprintf("id%d", i)
			calls[id] = &resolvedCall{StreamID: id}
			c.put(id, alice, calls[id], now)
			if i%3 == 0 {
				c.get(fmt.Sprintf("id%d", i/2), alice) // touch something older
			}
			if len(c.entries) != c.order.Len() || len(c.entries) > max {
				t.Fatalf("max=%d after %d puts: %d map entries, %d list elements", max, i+1, len(c.entries), c.order.Len())
			}
			for j := 0; j <= i; j++ {
				id := fmt.Sprintf("id%d", j)
				if got := c.get(id, alice); got != nil && got != calls[id] {
					t.Fatalf("max=%d: key %s returned another key's call %v", max, id, got.StreamID)
				}
			}
			if got := c.get(id, alice); got != calls[id] {
				t.Fatalf("max=%d: the entry just stored (%s) is not returned", max, id)
			}
		}
	}
}
