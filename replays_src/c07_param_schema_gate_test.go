package vgirpc

// Replay for property C07: a call reaches its handler only if the parameter batch's schema equals
// the declared one (field order, names, types INCLUDING type parameters such as a duration's or
// timestamp's unit and zone, nullability); every other shape is answered with a TypeError and the
// handler does not run; a matching batch binds the values sent.

import (
	"bytes"
	"context"
	"encoding/json"
	"testing"
	"time"

	"github.com/apache/arrow-go/v18/arrow"
	"github.com/apache/arrow-go/v18/arrow/array"
	"github.com/apache/arrow-go/v18/arrow/ipc"
	"github.com/apache/arrow-go/v18/arrow/memory"
)

type c07Params struct {
	Name    string        `vgirpc:"name"`
	Timeout time.Duration `vgirpc:"timeout,duration"`
	When    time.Time     `vgirpc:"when,timestamp_utc"`
	N       int64         `vgirpc:"n"`
}

func c07Col(mem memory.Allocator, f arrow.Field) arrow.Array {
	b := array.NewBuilder(mem, f.Type)
	defer b.Release()
	switch bb := b.(type) {
	case *array.StringBuilder:
		bb.Append("job")
	case *array.DurationBuilder:
		bb.Append(5)
	case *array.TimestampBuilder:
		bb.Append(7)
	case *array.Int64Builder:
		bb.Append(9)
	case *array.Int32Builder:
		bb.Append(9)
	default:
		b.AppendNull()
	}
	return b.NewArray()
}

func c07Call(t *testing.T, s *Server, fields []arrow.Field) (excType string) {
	mem := memory.NewGoAllocator()
	schema := arrow.NewSchema(fields, nil)
	var cols []arrow.Array
	for _, f := range fields {
		cols = append(cols, c07Col(mem, f))
	}
	rec := array.NewRecordBatch(schema, cols, 1)
	var req bytes.Buffer
	if err := WriteRequest(&req, "m", rec, ""); err != nil {
		t.Fatal(err)
	}
	var resp bytes.Buffer
	s.Serve(&req, &resp)
	r, err := ipc.NewReader(bytes.NewReader(resp.Bytes()))
	if err != nil {
		t.Fatalf("unreadable response: %v", err)
	}
	defer r.Release()
	for r.Next() {
		if rb, ok := r.RecordBatch().(arrow.RecordBatchWithMetadata); ok {
			if lv, _ := rb.Metadata().GetValue(MetaLogLevel); lv == string(LogException) {
				extra, _ := rb.Metadata().GetValue(MetaLogExtra)
				var d errorExtra
				json.Unmarshal([]byte(extra), &d)
				return d.ExceptionType
			}
		}
	}
	return ""
}

func TestVerifReplay(t *testing.T) {
	calls := 0
	var got c07Params
	s := NewServer()
	Unary(s, "m", func(ctx context.Context, c *CallContext, p c07Params) (int64, error) { calls++; got = p; return 1, nil })
	declared := s.methods["m"].ParamsSchema.Fields()
	if len(declared) != 4 {
		t.Fatalf("declared schema: %v", s.methods["m"].ParamsSchema)
	}
	if exc := c07Call(t, s, declared); exc != "" || calls != 1 {
		t.Fatalf("declared schema refused: %q, handler ran %d times", exc, calls)
	}
	if got.Name != "job" || got.N != 9 {
		t.Errorf("bound values %+v", got)
	}
	with := func(i int, f func(arrow.Field) arrow.Field) []arrow.Field {
		out := append([]arrow.Field{}, declared...)
		out[i] = f(out[i])
		return out
	}
	dur := declared[1].Type.(*arrow.DurationType)
	ts := declared[2].Type.(*arrow.TimestampType)
	otherUnit := func(u arrow.TimeUnit) arrow.TimeUnit {
		if u == arrow.Millisecond {
			return arrow.Second
		}
		return arrow.Millisecond
	}
	bad := map[string][]arrow.Field{
		"duration unit":      with(1, func(f arrow.Field) arrow.Field { f.Type = &arrow.DurationType{Unit: otherUnit(dur.Unit)}; return f }),
		"timestamp unit":     with(2, func(f arrow.Field) arrow.Field { f.Type = &arrow.TimestampType{Unit: otherUnit(ts.Unit), TimeZone: ts.TimeZone}; return f }),
		"timestamp zone":     with(2, func(f arrow.Field) arrow.Field { f.Type = &arrow.TimestampType{Unit: ts.Unit, TimeZone: ts.TimeZone + "X/Y"}; return f }),
		"int width":          with(3, func(f arrow.Field) arrow.Field { f.Type = arrow.PrimitiveTypes.Int32; return f }),
		"nullability":        with(3, func(f arrow.Field) arrow.Field { f.Nullable = !f.Nullable; return f }),
		"renamed":            with(0, func(f arrow.Field) arrow.Field { f.Name = "nom"; return f }),
		"reordered":          {declared[1], declared[0], declared[2], declared[3]},
		"missing column":     declared[:3],
		"extra column":       append(append([]arrow.Field{}, declared...), arrow.Field{Name: "extra", Type: arrow.PrimitiveTypes.Int64}),
		"string for integer": with(3, func(f arrow.Field) arrow.Field { f.Type = arrow.BinaryTypes.String; return f }),
	}
	for name, fields := range bad {
		before := calls
		exc := c07Call(t, s, fields)
		if exc != "TypeError" || calls != before {
			t.Errorf("%s: answered %q, handler ran %d times; want TypeError and no handler run", name, exc, calls-before)
		}
	}
}
