// Scout tests for property C29 (sticky sessions isolated per caller and
// serialized per session).
//
// THIS FILE BELONGS IN: <module root>/vgirpc/   (package vgirpc, in-package test)
//
// Run:
//   go test ./vgirpc -run 'TestScout' -count=1 -v

package vgirpc

import (
	"bytes"
	"context"
	"io"
	"net/http"
	"net/http/httptest"
	"runtime"
	"strings"
	"sync"
	"sync/atomic"
	"testing"
	"time"

	"github.com/apache/arrow-go/v18/arrow"
	"github.com/apache/arrow-go/v18/arrow/array"
	"github.com/apache/arrow-go/v18/arrow/memory"
)

// ---------------------------------------------------------------------------
// helpers
// ---------------------------------------------------------------------------

type scoutParams struct {
	Value int64 `vgirpc:"value"`
}

// scoutState is the sticky session state. It records how often Close ran and
// whether any handler touched it after Close.
type scoutState struct {
	closes       atomic.Int32
	usedAfterEnd atomic.Int32
}

func (s *scoutState) Close() error {
	s.closes.Add(1)
	return nil
}

func scoutBody(t *testing.T, method string) []byte {
	t.Helper()
	schema := arrow.NewSchema([]arrow.Field{{Name: "value", Type: arrow.PrimitiveTypes.Int64}}, nil)
	b := array.NewInt64Builder(memory.NewGoAllocator())
	b.Append(1)
	col := b.NewArray()
	b.Release()
	rec := array.NewRecordBatch(schema, []arrow.Array{col}, 1)
	col.Release()
	defer rec.Release()
	var buf bytes.Buffer
	if err := WriteRequest(&buf, method, rec, ""); err != nil {
		t.Fatal(err)
	}
	return buf.Bytes()
}

type scoutResp struct {
	status      int
	rpcError    bool
	sessionLost bool
	token       string
	closeHdr    string
	body        []byte
}

func scoutDo(t *testing.T, base, httpMethod, path string, body []byte, hdr map[string]string) scoutResp {
	t.Helper()
	req, err := http.NewRequest(httpMethod, base+path, bytes.NewReader(body))
	if err != nil {
		t.Fatal(err)
	}
	req.Header.Set("Content-Type", arrowContentType)
	req.Header.Set("Accept-Encoding", "identity")
	for k, v := range hdr {
		req.Header.Set(k, v)
	}
	resp, err := http.DefaultClient.Do(req)
	if err != nil {
		t.Fatalf("%s %s: %v", httpMethod, path, err)
	}
	defer resp.Body.Close()
	b, _ := io.ReadAll(resp.Body)
	return scoutResp{
		status:      resp.StatusCode,
		rpcError:    resp.Header.Get("X-VGI-RPC-Error") != "",
		sessionLost: bytes.Contains(b, []byte("session_lost")),
		token:       resp.Header.Get(stickySessionHeader),
		closeHdr:    resp.Header.Get(stickySessionCloseHeader),
		body:        b,
	}
}

// scoutWaitBlockedOnSessionLock polls until at least n goroutines are parked
// in sync.(*Mutex).Lock called from installStickyOnRequestNoCtx, i.e. they
// have already passed registry.get() and are queued on the per-session lock.
func scoutWaitBlockedOnSessionLock(t *testing.T, n int) {
	t.Helper()
	deadline := time.Now().Add(10 * time.Second)
	buf := make([]byte, 1<<20)
	for time.Now().Before(deadline) {
		m := runtime.Stack(buf, true)
		count := 0
		for _, g := range strings.Split(string(buf[:m]), "\n\n") {
			if strings.Contains(g, "installStickyOnRequestNoCtx") && strings.Contains(g, "sync.(*Mutex).Lock") {
				count++
			}
		}
		if count >= n {
			return
		}
		time.Sleep(5 * time.Millisecond)
	}
	t.Fatalf("timed out waiting for %d request(s) to queue on the session lock", n)
}

func scoutWaitBlockedInDelete(t *testing.T) {
	t.Helper()
	deadline := time.Now().Add(10 * time.Second)
	buf := make([]byte, 1<<20)
	for time.Now().Before(deadline) {
		m := runtime.Stack(buf, true)
		for _, g := range strings.Split(string(buf[:m]), "\n\n") {
			if strings.Contains(g, "handleStickyDelete") && strings.Contains(g, "sync.(*Mutex).Lock") {
				return
			}
		}
		time.Sleep(5 * time.Millisecond)
	}
	t.Fatal("timed out waiting for DELETE to queue on the session lock")
}

type scoutServer struct {
	ts       *httptest.Server
	hs       *HttpServer
	state    *scoutState
	entered  chan struct{} // "hold" handler signals it is running (lock held)
	release  chan struct{} // closing lets "hold" finish
	holdDoes string        // "close" => hold calls ctx.CloseSession() before returning
	peekRan  atomic.Int32
	peekSaw  atomic.Value // any: what ctx.Session() returned in peek
}

func newScoutServer(t *testing.T, ttl time.Duration) *scoutServer {
	t.Helper()
	ss := &scoutServer{
		state:   &scoutState{},
		entered: make(chan struct{}, 1),
		release: make(chan struct{}),
	}
	s := NewServer()
	s.SetServerID("scout-worker")
	UnaryVoid(s, "open", func(_ context.Context, c *CallContext, _ scoutParams) error {
		return c.OpenSession(ss.state, 0)
	})
	UnaryVoid(s, "hold", func(_ context.Context, c *CallContext, _ scoutParams) error {
		ss.entered <- struct{}{}
		<-ss.release
		if ss.holdDoes == "close" {
			c.CloseSession()
		}
		return nil
	})
	UnaryVoid(s, "peek", func(_ context.Context, c *CallContext, _ scoutParams) error {
		ss.peekRan.Add(1)
		st := c.Session()
		if st != nil {
			ss.peekSaw.Store(st)
			if sst, ok := st.(*scoutState); ok && sst.closes.Load() > 0 {
				sst.usedAfterEnd.Add(1)
			}
		}
		return nil
	})
	ss.hs = NewHttpServer(s)
	ss.hs.EnableSticky(ttl)
	ss.ts = httptest.NewServer(ss.hs)
	t.Cleanup(func() {
		ss.ts.Close()
		ss.hs.DrainHandle().Shutdown()
	})
	return ss
}

func (ss *scoutServer) open(t *testing.T) string {
	t.Helper()
	r := scoutDo(t, ss.ts.URL, "POST", "/open", scoutBody(t, "open"), map[string]string{stickySessionAcceptHeader: "true"})
	if r.rpcError || r.token == "" {
		t.Fatalf("open failed: status=%d rpcError=%v token=%q body=%q", r.status, r.rpcError, r.token, r.body)
	}
	return r.token
}

// ---------------------------------------------------------------------------
// Finding 1a: a call that queued on the per-session lock is dispatched on a
// session that the lock holder CLOSED (ctx.CloseSession) in the meantime.
//
// Property: "A session ... is resolvable only by the same caller on the same
// worker UNTIL IT IS CLOSED or expires".
// ---------------------------------------------------------------------------
func TestScoutQueuedCallRunsOnSessionClosedByLockHolder(t *testing.T) {
	ss := newScoutServer(t, time.Minute)
	ss.holdDoes = "close"
	token := ss.open(t)
	sess := map[string]string{stickySessionHeader: token}

	// Call A: resumes the session, holds the per-session lock.
	var wg sync.WaitGroup
	var respA, respB scoutResp
	wg.Add(1)
	go func() {
		defer wg.Done()
		respA = scoutDo(t, ss.ts.URL, "POST", "/hold", scoutBody(t, "hold"), sess)
	}()
	<-ss.entered

	// Call B: same token, arrives while A is running -> get() succeeds,
	// then parks on entry.lock.
	wg.Add(1)
	go func() {
		defer wg.Done()
		respB = scoutDo(t, ss.ts.URL, "POST", "/peek", scoutBody(t, "peek"), sess)
	}()
	scoutWaitBlockedOnSessionLock(t, 1)

	// A now closes the session (state.Close() runs, registry entry removed,
	// VGI-Session-Close: true goes to the client) and completes.
	close(ss.release)
	wg.Wait()

	if respA.closeHdr != "true" {
		t.Fatalf("setup: call A should have closed the session, close header=%q", respA.closeHdr)
	}
	if got := ss.state.closes.Load(); got != 1 {
		t.Fatalf("setup: state.Close ran %d times, want 1", got)
	}

	// Control: a call sent AFTER the close is refused.
	ctl := scoutDo(t, ss.ts.URL, "POST", "/peek", scoutBody(t, "peek"), sess)
	if !ctl.sessionLost {
		t.Fatalf("control: a fresh call on the closed session should get session_lost, got body %q", ctl.body)
	}

	// The queued call B bears a token of a session that was closed before B
	// was dispatched. It must get session_lost and the handler must not run
	// with the closed state.
	if !respB.sessionLost || ss.state.usedAfterEnd.Load() != 0 {
		t.Errorf("VIOLATION: call queued behind the closer was dispatched on the CLOSED session: "+
			"sessionLost=%v rpcError=%v handlerRuns(with closed state)=%d ctx.Session()=%v (state.Close had already run %d time(s))",
			respB.sessionLost, respB.rpcError, ss.state.usedAfterEnd.Load(), ss.peekSaw.Load(), ss.state.closes.Load())
	}
}

// ---------------------------------------------------------------------------
// Finding 1b: same hole through DELETE {prefix}/__session__. handleStickyDelete
// deliberately "serializes with any in-flight call", but a call queued behind
// the DELETE is then dispatched on the deleted session.
// ---------------------------------------------------------------------------
func TestScoutQueuedCallRunsOnDeletedSession(t *testing.T) {
	ss := newScoutServer(t, time.Minute)
	token := ss.open(t)
	sess := map[string]string{stickySessionHeader: token}

	var wg sync.WaitGroup
	var respD, respB scoutResp
	wg.Add(1)
	go func() {
		defer wg.Done()
		scoutDo(t, ss.ts.URL, "POST", "/hold", scoutBody(t, "hold"), sess)
	}()
	<-ss.entered // A holds the session lock

	wg.Add(1)
	go func() {
		defer wg.Done()
		respD = scoutDo(t, ss.ts.URL, "DELETE", "/__session__", nil, sess)
	}()
	scoutWaitBlockedInDelete(t) // DELETE queued first

	wg.Add(1)
	go func() {
		defer wg.Done()
		respB = scoutDo(t, ss.ts.URL, "POST", "/peek", scoutBody(t, "peek"), sess)
	}()
	scoutWaitBlockedOnSessionLock(t, 1) // B queued second

	close(ss.release)
	wg.Wait()

	if respD.status != http.StatusNoContent {
		t.Skipf("lock hand-off order was not DELETE-then-call (DELETE status %d); schedule not reproduced", respD.status)
	}
	if got := ss.state.closes.Load(); got != 1 {
		t.Fatalf("state.Close ran %d times, want 1", got)
	}
	if !respB.sessionLost || ss.state.usedAfterEnd.Load() != 0 {
		t.Errorf("VIOLATION: DELETE returned 204 (session torn down, Close ran), yet the call queued behind it "+
			"was dispatched on that session: sessionLost=%v handlerRuns(with closed state)=%d ctx.Session()=%v",
			respB.sessionLost, ss.state.usedAfterEnd.Load(), ss.peekSaw.Load())
	}
}

// ---------------------------------------------------------------------------
// Finding 1c: same hole through expiry. The session expires (and the reaper
// runs state.Close()) while call A holds the lock; call B queued before the
// expiry is dispatched on the expired, closed session.
// ---------------------------------------------------------------------------
func TestScoutQueuedCallRunsOnExpiredSession(t *testing.T) {
	ss := newScoutServer(t, 300*time.Millisecond)
	ss.hs.stickyRegistry.reaperTick = 50 * time.Millisecond // before first request starts the reaper
	token := ss.open(t)
	sess := map[string]string{stickySessionHeader: token}

	var wg sync.WaitGroup
	var respB scoutResp
	wg.Add(1)
	go func() {
		defer wg.Done()
		scoutDo(t, ss.ts.URL, "POST", "/hold", scoutBody(t, "hold"), sess)
	}()
	select {
	case <-ss.entered:
	case <-time.After(5 * time.Second):
		t.Fatal("hold never entered")
	}
	wg.Add(1)
	go func() {
		defer wg.Done()
		respB = scoutDo(t, ss.ts.URL, "POST", "/peek", scoutBody(t, "peek"), sess)
	}()
	scoutWaitBlockedOnSessionLock(t, 1)

	// Let the TTL pass and the reaper evict + Close the state.
	deadline := time.Now().Add(5 * time.Second)
	for ss.state.closes.Load() == 0 && time.Now().Before(deadline) {
		time.Sleep(10 * time.Millisecond)
	}
	if ss.state.closes.Load() != 1 {
		t.Fatalf("setup: expected reaper to Close the expired session once, got %d", ss.state.closes.Load())
	}
	close(ss.release)
	wg.Wait()

	if !respB.sessionLost || ss.state.usedAfterEnd.Load() != 0 {
		t.Errorf("VIOLATION: session had expired and been Closed by the reaper, yet the queued call was dispatched on it: "+
			"sessionLost=%v handlerRuns(with closed state)=%d", respB.sessionLost, ss.state.usedAfterEnd.Load())
	}
}

// ---------------------------------------------------------------------------
// Finding 2: after DrainHandle.Shutdown() the reaper is gone for good, but the
// registry still accepts OpenSession (Shutdown does not set the drain flag, and
// ClearDrain re-enables opens). A session opened afterwards that ends by expiry
// never gets its Close() called.
//
// Property: "the session state's Close runs exactly once whether the session
// ends by close, delete, EXPIRY or shutdown".
// ---------------------------------------------------------------------------
func TestScoutSessionOpenedAfterShutdownNeverClosedOnExpiry(t *testing.T) {
	ss := newScoutServer(t, 200*time.Millisecond)
	ss.hs.stickyRegistry.reaperTick = 20 * time.Millisecond

	// Normal life: one session, operator drains + shuts down, then the worker
	// is put back in rotation (ClearDrain), exactly like the conformance
	// worker's /__test_drain__ DELETE does.
	first := ss.open(t)
	_ = first
	dh := ss.hs.DrainHandle()
	dh.Drain()
	dh.Shutdown()
	if got := ss.state.closes.Load(); got != 1 {
		t.Fatalf("setup: shutdown should Close the live session once, got %d", got)
	}
	dh.ClearDrain()

	// A new session is accepted ...
	st2 := &scoutState{}
	ss.state = st2
	r2 := scoutDo(t, ss.ts.URL, "POST", "/open", scoutBody(t, "open"), map[string]string{stickySessionAcceptHeader: "true"})
	if r2.token == "" {
		// Refusing opens on a shut-down registry is a perfectly good way to
		// satisfy the property: no session, nothing to leak.
		t.Logf("open after Shutdown refused (rpcError=%v) — no session to leak", r2.rpcError)
		return
	}
	// ... and expires. Nobody presents the token again (the client went away).
	time.Sleep(1200 * time.Millisecond)
	if got := st2.closes.Load(); got != 1 {
		ss.hs.stickyRegistry.mu.Lock()
		n := len(ss.hs.stickyRegistry.entries)
		ss.hs.stickyRegistry.mu.Unlock()
		t.Errorf("VIOLATION: session expired %v ago but state.Close ran %d times (want 1); registry still holds %d entr(y/ies) — reaper is permanently stopped after Shutdown while opens are still accepted",
			time.Second, got, n)
	}
}

// ---------------------------------------------------------------------------
// Finding 3 (marginal): two DIFFERENT identities (Domain, Principal) whose
// NUL-joined encodings coincide share both the token AAD and the registry
// principalKey, so one resumes the other's session.
// ---------------------------------------------------------------------------
func TestScoutDistinctIdentitiesWithNulCollisionShareSession(t *testing.T) {
	ss := newScoutServer(t, time.Minute)
	ids := map[string]*AuthContext{
		"alice":   {Domain: "corp\x00eu", Principal: "bob", Authenticated: true},
		"mallory": {Domain: "corp", Principal: "eu\x00bob", Authenticated: true},
	}
	ss.hs.SetAuthenticate(func(r *http.Request) (*AuthContext, error) {
		if a, ok := ids[r.Header.Get("X-Who")]; ok {
			return a, nil
		}
		return Anonymous(), nil
	})
	r := scoutDo(t, ss.ts.URL, "POST", "/open", scoutBody(t, "open"),
		map[string]string{stickySessionAcceptHeader: "true", "X-Who": "alice"})
	if r.token == "" {
		// Refusing the ambiguous identity outright also satisfies the property.
		t.Logf("ambiguous identity refused at open (status %d) — nothing to share", r.status)
		return
	}
	got := scoutDo(t, ss.ts.URL, "POST", "/peek", scoutBody(t, "peek"),
		map[string]string{stickySessionHeader: r.token, "X-Who": "mallory"})
	if !got.sessionLost {
		t.Errorf("VIOLATION: identity {Domain:%q Principal:%q} resumed the session opened by {Domain:%q Principal:%q}; ctx.Session()=%v",
			ids["mallory"].Domain, ids["mallory"].Principal, ids["alice"].Domain, ids["alice"].Principal, ss.peekSaw.Load())
	}
}

// TestVerifReplay: the reproducers of repaired defects (they failed before the repair and pass on the repaired code)
func TestVerifReplay(t *testing.T) {
	t.Run("TestScoutQueuedCallRunsOnSessionClosedByLockHolder", TestScoutQueuedCallRunsOnSessionClosedByLockHolder)
	t.Run("TestScoutQueuedCallRunsOnDeletedSession", TestScoutQueuedCallRunsOnDeletedSession)
	t.Run("TestScoutQueuedCallRunsOnExpiredSession", TestScoutQueuedCallRunsOnExpiredSession)
}
