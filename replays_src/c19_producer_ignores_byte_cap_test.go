package vgirpc

// Replay for property C19 (runProduceLoop): max_response_bytes is a soft cap for producer streams:
// a response may exceed it by the batch that crosses it and must then hand back a continuation
// token. The producer loop never looks at the bytes written.

import (
	"bytes"
	"context"
	"io"
	"net/http"
	"net/http/httptest"
	"testing"

	"github.com/apache/arrow-go/v18/arrow"
	"github.com/apache/arrow-go/v18/arrow/array"
	"github.com/apache/arrow-go/v18/arrow/ipc"
	"github.com/apache/arrow-go/v18/arrow/memory"
)

type c19Params struct {
	N int64 `vgirpc:"n"`
}
type c19State struct{ Left int }

var c19Schema = arrow.NewSchema([]arrow.Field{{Name: "v", Type: arrow.PrimitiveTypes.Int64}}, nil)

func (s *c19State) Produce(_ context.Context, out *OutputCollector, _ *CallContext) error {
	if s.Left == 0 {
		return out.Finish()
	}
	s.Left--
	b := array.NewInt64Builder(memory.NewGoAllocator())
	for i := 0; i < 16; i++ {
		b.Append(int64(i))
	}
	return out.Emit(array.NewRecordBatch(c19Schema, []arrow.Array{b.NewArray()}, 16))
}

func TestVerifReplay(t *testing.T) {
	RegisterStateType(&c19State{})
	srv := NewServer()
	Producer(srv, "gen", c19Schema, func(context.Context, *CallContext, c19Params) (*StreamResult, error) {
		return &StreamResult{OutputSchema: c19Schema, State: &c19State{Left: 200}}, nil
	})
	h := NewHttpServer(srv)
	h.SetMaxResponseBytes(1024)
	h.InitPages()
	ts := httptest.NewServer(h)
	defer ts.Close()
	pb := array.NewInt64Builder(memory.NewGoAllocator())
	pb.Append(1)
	ps := arrow.NewSchema([]arrow.Field{{Name: "n", Type: arrow.PrimitiveTypes.Int64}}, nil)
	var body bytes.Buffer
	if err := WriteRequest(&body, "gen", array.NewRecordBatch(ps, []arrow.Array{pb.NewArray()}, 1), ""); err != nil {
		t.Fatal(err)
	}
	req, _ := http.NewRequest("POST", ts.URL+"/gen/init", &body)
	req.Header.Set("Content-Type", arrowContentType)
	req.Header.Set("Accept-Encoding", "identity")
	resp, err := http.DefaultClient.Do(req)
	if err != nil {
		t.Fatal(err)
	}
	raw, _ := io.ReadAll(resp.Body)
	resp.Body.Close()
	if resp.StatusCode != 200 {
		t.Skipf("init answered %d", resp.StatusCode)
	}
	data := 0
	rd, err := ipc.NewReader(bytes.NewReader(raw))
	if err == nil {
		for rd.Next() {
			if rd.RecordBatch().NumRows() > 0 {
				data++
			}
		}
		rd.Release()
	}
	token, _ := FindStreamTokens(raw)
	if len(raw) > 4*1024 && token == nil {
		t.Fatalf("max_response_bytes=1024: one producer response carried %d data batches in %d bytes and no continuation token", data, len(raw))
	}
}
