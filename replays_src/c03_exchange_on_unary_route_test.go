package vgirpc

// Replay for property C03 (replayed tokens): a valid exchange-stream token presented at
// /<unary method>/exchange must be answered with a complete HTTP response (a client error), not
// abort the exchange with a panic.

import (
	"bytes"
	"context"
	"net/http"
	"net/http/httptest"
	"testing"

	"github.com/apache/arrow-go/v18/arrow"
	"github.com/apache/arrow-go/v18/arrow/array"
	"github.com/apache/arrow-go/v18/arrow/ipc"
	"github.com/apache/arrow-go/v18/arrow/memory"
)

type c03xParams struct {
	Value int64 `vgirpc:"value"`
}

type c03xState struct{ N int }

func (s *c03xState) Exchange(_ context.Context, in arrow.RecordBatch, out *OutputCollector, _ *CallContext) error {
	in.Retain()
	return out.Emit(in)
}

func TestVerifReplay(t *testing.T) {
	RegisterStateType(&c03xState{})
	schema := arrow.NewSchema([]arrow.Field{{Name: "value", Type: arrow.PrimitiveTypes.Int64}}, nil)
	s := NewServer()
	Exchange[c03xParams](s, "ex", schema, schema, func(context.Context, *CallContext, c03xParams) (*StreamResult, error) {
		return &StreamResult{OutputSchema: schema, InputSchema: schema, State: &c03xState{}}, nil
	})
	Unary(s, "un", func(_ context.Context, _ *CallContext, p c03xParams) (int64, error) { return p.Value, nil })
	Producer[c03xParams](s, "pr", schema, func(context.Context, *CallContext, c03xParams) (*StreamResult, error) {
		return nil, &RpcError{Type: "ValueError", Message: "unused"}
	})
	// a dynamic method: its output schema lives in the call token, and this token carries none
	DynamicStreamWithHeader[c03xParams](s, "dyn", schema, func(context.Context, *CallContext, c03xParams) (*StreamResult, error) {
		return nil, &RpcError{Type: "ValueError", Message: "unused"}
	})
	h := NewHttpServer(s)
	h.InitPages()
	defer h.DrainHandle().Shutdown()
	batch := func() arrow.RecordBatch {
		b := array.NewInt64Builder(memory.NewGoAllocator())
		b.Append(7)
		col := b.NewArray()
		b.Release()
		rec := array.NewRecordBatch(schema, []arrow.Array{col}, 1)
		col.Release()
		return rec
	}
	post := func(path string, body []byte) (w *httptest.ResponseRecorder, panicked any) {
		req := httptest.NewRequest(http.MethodPost, path, bytes.NewReader(body))
		req.Header.Set("Content-Type", arrowContentType)
		w = httptest.NewRecorder()
		defer func() { panicked = recover() }()
		h.ServeHTTP(w, req)
		return w, nil
	}
	rec := batch()
	var initBody bytes.Buffer
	if err := WriteRequest(&initBody, "ex", rec, ""); err != nil {
		t.Fatal(err)
	}
	iw, p := post("/ex/init", initBody.Bytes())
	if p != nil || iw.Code != 200 {
		t.Fatalf("init: status %d panic %v", iw.Code, p)
	}
	token, callToken := FindStreamTokens(iw.Body.Bytes())
	if token == nil {
		t.Fatal("no token from init")
	}
	var body bytes.Buffer
	wr := ipc.NewWriter(&body, ipc.WithSchema(schema))
	keys, vals := []string{MetaStreamState}, []string{string(token)}
	if callToken != nil {
		keys, vals = append(keys, MetaCallState), append(vals, string(callToken))
	}
	withMeta := array.NewRecordBatchWithMetadata(schema, rec.Columns(), 1, arrow.NewMetadata(keys, vals))
	wr.Write(withMeta)
	wr.Close()
	withMeta.Release()
	rec.Release()
	for _, route := range []string{"/un/exchange", "/dyn/exchange", "/pr/exchange", "/ex/exchange"} {
		w, p := post(route, body.Bytes())
		if p != nil {
			t.Errorf("POST %s with a valid exchange token: the handler panicked (%v); no HTTP response", route, p)
			continue
		}
		if w.Code == 0 || (w.Code != 200 && w.Code/100 != 4) {
			t.Errorf("POST %s with a valid exchange token: status %d, want a complete response (200 for the minting route, a client error otherwise)", route, w.Code)
		}
	}
}
