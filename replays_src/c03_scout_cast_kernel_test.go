// Scout test for property C03 — belongs in the package directory vgirpc/
// (package vgirpc, next to server_unary.go).
//
// C03: no client-supplied bytes can crash the server or abort an HTTP exchange.
//
// Each test sends a request whose Arrow IPC framing is well-formed and whose
// schema is exactly the method's declared parameter schema, so it passes
// ReadRequest and the Schema.Equal gate of deserializeParams. The column
// *contents* are what a hostile (or merely buggy) client controls:
//
//   - a utf8 column whose two offsets are non-monotonic ([5, 2] over 5 bytes);
//   - a dictionary<int16, utf8> column whose index points past the dictionary
//     (index 7, dictionary of one entry) — this one is produced with nothing
//     but the public Arrow API and the ordinary IPC writer;
//   - a list<int64> column whose offsets run backwards ([3, 0]).
//
// arrow-go's IPC reader does not validate any of these, and deserializeParams
// indexes the arrays outside every recover, on all three transports' paths
// (serveUnary, serveStream, handleUnary, handleStreamInit).

package vgirpc

import (
	"bufio"
	"bytes"
	"context"
	"fmt"
	"io"
	"net"
	"net/http"
	"net/http/httptest"
	"os"
	"os/exec"
	"reflect"
	"runtime"
	"strings"
	"testing"
	"time"

	"github.com/apache/arrow-go/v18/arrow"
	"github.com/apache/arrow-go/v18/arrow/array"
	"github.com/apache/arrow-go/v18/arrow/ipc"
	"github.com/apache/arrow-go/v18/arrow/memory"
)

type scoutNameParams struct {
	Name string `vgirpc:"name"`
}

type scoutEnumParams struct {
	Color string `vgirpc:"color,enum"`
}

type scoutListParams struct {
	Items []int64 `vgirpc:"items"`
}

type scoutResult struct {
	Value int64 `vgirpc:"value"`
}

var scoutOutSchema = arrow.NewSchema([]arrow.Field{{Name: "value", Type: arrow.PrimitiveTypes.Int64}}, nil)

type scoutProducerState struct{}

func (*scoutProducerState) Produce(_ context.Context, out *OutputCollector, _ *CallContext) error {
	return out.Finish()
}

func scoutServer() *Server {
	s := NewServer()
	Unary(s, "greet", func(_ context.Context, _ *CallContext, p scoutNameParams) (scoutResult, error) {
		return scoutResult{Value: int64(len(p.Name))}, nil
	})
	Unary(s, "paint", func(_ context.Context, _ *CallContext, p scoutEnumParams) (scoutResult, error) {
		return scoutResult{Value: int64(len(p.Color))}, nil
	})
	Unary(s, "sum", func(_ context.Context, _ *CallContext, p scoutListParams) (scoutResult, error) {
		return scoutResult{Value: int64(len(p.Items))}, nil
	})
	Producer(s, "greet_stream", scoutOutSchema,
		func(_ context.Context, _ *CallContext, p scoutNameParams) (*StreamResult, error) {
			return &StreamResult{OutputSchema: scoutOutSchema, State: &scoutProducerState{}}, nil
		})
	return s
}

// scoutSchemaOf returns the parameter schema the server itself derived for the
// method, so the crafted request is guaranteed to pass the Schema.Equal gate.
func scoutSchemaOf(t *testing.T, s *Server, method string) *arrow.Schema {
	t.Helper()
	info, ok := s.methods[method]
	if !ok {
		t.Fatalf("method %q not registered", method)
	}
	target := info.ParamsType
	desc := describeStruct(target)
	if desc.Err != nil {
		t.Fatal(desc.Err)
	}
	return desc.Schema
}

func scoutRequestBytes(t *testing.T, method string, batch arrow.RecordBatch) []byte {
	t.Helper()
	var buf bytes.Buffer
	if err := WriteRequest(&buf, method, batch, ""); err != nil {
		t.Fatal(err)
	}
	return buf.Bytes()
}

// scoutPatch finds the single occurrence of anchor (the offsets buffer
// followed by the first bytes of the values buffer that comes right after it in
// the message body) and overwrites its leading bytes with repl.
func scoutPatch(t *testing.T, data, anchor, repl []byte) []byte {
	t.Helper()
	if n := bytes.Count(data, anchor); n != 1 {
		t.Fatalf("expected the offsets+values pattern exactly once in the request, found %d", n)
	}
	out := append([]byte(nil), data...)
	i := bytes.Index(out, anchor)
	copy(out[i:], repl)
	return out
}

// scoutBadStringRequest: a one-row utf8 column "hello" whose offsets buffer is
// rewritten from [0, 5] to [5, 2].
func scoutBadStringRequest(t *testing.T, s *Server, method string) []byte {
	t.Helper()
	schema := scoutSchemaOf(t, s, method)
	b := array.NewStringBuilder(memory.NewGoAllocator())
	b.Append("hello")
	col := b.NewArray()
	b.Release()
	rec := array.NewRecordBatch(schema, []arrow.Array{col}, 1)
	col.Release()
	defer rec.Release()
	good := scoutRequestBytes(t, method, rec)
	return scoutPatch(t, good,
		[]byte{0, 0, 0, 0, 5, 0, 0, 0, 'h', 'e', 'l', 'l', 'o'},
		[]byte{5, 0, 0, 0, 2, 0, 0, 0})
}

// scoutBadDictRequest: dictionary<int16, utf8> with dictionary ["red"] and the
// single index 7. Built with the public Arrow API only; no byte patching.
func scoutBadDictRequest(t *testing.T, s *Server, method string) []byte {
	t.Helper()
	mem := memory.NewGoAllocator()
	schema := scoutSchemaOf(t, s, method)
	dt := schema.Field(0).Type.(*arrow.DictionaryType)

	db := array.NewStringBuilder(mem)
	db.Append("red")
	dict := db.NewArray()
	db.Release()
	defer dict.Release()

	ib := array.NewInt16Builder(mem)
	ib.Append(7)
	idx := ib.NewArray()
	ib.Release()
	defer idx.Release()

	col := array.NewDictionaryArray(dt, idx, dict)
	rec := array.NewRecordBatch(schema, []arrow.Array{col}, 1)
	col.Release()
	defer rec.Release()
	return scoutRequestBytes(t, method, rec)
}

// scoutBadListRequest: list<int64> [[1,2,3]] with offsets rewritten from
// [0, 3] to [3, 0].
func scoutBadListRequest(t *testing.T, s *Server, method string) []byte {
	t.Helper()
	mem := memory.NewGoAllocator()
	schema := scoutSchemaOf(t, s, method)
	lt := schema.Field(0).Type.(*arrow.ListType)
	lb := array.NewListBuilderWithField(mem, lt.ElemField())
	vb := lb.ValueBuilder().(*array.Int64Builder)
	lb.Append(true)
	vb.Append(1)
	vb.Append(2)
	vb.Append(3)
	col := lb.NewArray()
	lb.Release()
	rec := array.NewRecordBatch(schema, []arrow.Array{col}, 1)
	col.Release()
	defer rec.Release()
	good := scoutRequestBytes(t, method, rec)
	return scoutPatch(t, good,
		[]byte{0, 0, 0, 0, 3, 0, 0, 0, 1, 0, 0, 0, 0, 0, 0, 0, 2, 0, 0, 0, 0, 0, 0, 0},
		[]byte{3, 0, 0, 0, 0, 0, 0, 0})
}

// scoutSanity proves the crafted bytes are a structurally valid request: they
// parse through ReadRequest, name the right method and carry exactly the
// declared parameter schema with one row.
func scoutSanity(t *testing.T, s *Server, method string, body []byte) {
	t.Helper()
	req, err := ReadRequest(bytes.NewReader(body))
	if err != nil {
		t.Fatalf("crafted request does not even parse: %v", err)
	}
	defer req.Batch.Release()
	if req.Method != method {
		t.Fatalf("method %q != %q", req.Method, method)
	}
	if !req.Batch.Schema().Equal(scoutSchemaOf(t, s, method)) {
		t.Fatalf("crafted request schema differs from the declared one")
	}
	if req.Batch.NumRows() != 1 {
		t.Fatalf("rows = %d", req.Batch.NumRows())
	}
}

type scoutCase struct {
	name   string
	method string
	build  func(*testing.T, *Server, string) []byte
}

var scoutCases = []scoutCase{
	{"utf8_offsets_backwards", "greet", scoutBadStringRequest},
	{"dictionary_index_out_of_range", "paint", scoutBadDictRequest},
	{"list_offsets_backwards", "sum", scoutBadListRequest},
}

// TestScoutPipeMalformedColumnPanicsServeLoop: on the pipe transport the
// request must be answered with an error stream (or the connection closed
// cleanly) and the serve loop must go on to answer the next, healthy request.
// On the unchanged code a panic escapes Server.Serve — in a real worker that
// terminates the process.
func TestScoutPipeMalformedColumnPanicsServeLoop(t *testing.T) {
	for _, tc := range scoutCases {
		t.Run(tc.name, func(t *testing.T) {
			s := scoutServer()
			bad := tc.build(t, s, tc.method)
			scoutSanity(t, s, tc.method, bad)

			// A healthy follow-up request on the same connection.
			hb := array.NewStringBuilder(memory.NewGoAllocator())
			hb.Append("ok")
			hcol := hb.NewArray()
			hb.Release()
			hrec := array.NewRecordBatch(scoutSchemaOf(t, s, "greet"), []arrow.Array{hcol}, 1)
			hcol.Release()
			healthy := scoutRequestBytes(t, "greet", hrec)
			hrec.Release()

			input := append(append([]byte(nil), bad...), healthy...)
			var out bytes.Buffer
			var escaped any
			func() {
				defer func() { escaped = recover() }()
				s.Serve(bytes.NewReader(input), &out)
			}()
			if escaped != nil {
				t.Fatalf("C03 violated: panic escaped Server.Serve (a real worker process dies here): %v", escaped)
			}
			// Two complete response streams must be present: error + result.
			rd := bytes.NewReader(out.Bytes())
			for i := 0; i < 2; i++ {
				r, err := ipc.NewReader(rd)
				if err != nil {
					t.Fatalf("response %d missing: %v", i, err)
				}
				for r.Next() {
				}
				r.Release()
			}
		})
	}
}

// TestScoutPipeStreamInitMalformedColumn: same input on a stream method's init
// request (serveStream → deserializeParams).
func TestScoutPipeStreamInitMalformedColumn(t *testing.T) {
	s := scoutServer()
	bad := scoutBadStringRequest(t, s, "greet_stream")
	scoutSanity(t, s, "greet_stream", bad)
	var out bytes.Buffer
	var escaped any
	func() {
		defer func() { escaped = recover() }()
		s.Serve(bytes.NewReader(bad), &out)
	}()
	if escaped != nil {
		t.Fatalf("C03 violated: panic escaped Server.Serve on stream init: %v", escaped)
	}
}

// TestScoutHTTPMalformedColumnAbortsExchange: over HTTP every request must get
// a complete response with a status code. On the unchanged code the handler
// goroutine panics, net/http tears the connection down and the client sees no
// status line at all.
func TestScoutHTTPMalformedColumnAbortsExchange(t *testing.T) {
	for _, tc := range scoutCases {
		t.Run(tc.name, func(t *testing.T) {
			s := scoutServer()
			h := NewHttpServer(s)
			h.InitPages()
			ts := httptest.NewUnstartedServer(h)
			ts.Config.ErrorLog = nil
			ts.Start()
			defer ts.Close()

			bad := tc.build(t, s, tc.method)
			scoutSanity(t, s, tc.method, bad)

			resp, err := http.Post(ts.URL+"/"+tc.method, arrowContentType, bytes.NewReader(bad))
			if err != nil {
				t.Fatalf("C03 violated: HTTP exchange aborted, no response received: %v", err)
			}
			defer resp.Body.Close()
			if _, err := io.ReadAll(resp.Body); err != nil {
				t.Fatalf("C03 violated: response body incomplete: %v", err)
			}
			if resp.StatusCode == 0 {
				t.Fatalf("no status code")
			}
			t.Logf("status %d", resp.StatusCode)
		})
	}
}

// TestScoutHTTPStreamInitMalformedColumn: the /init route of a stream method.
func TestScoutHTTPStreamInitMalformedColumn(t *testing.T) {
	RegisterStateType(&scoutProducerState{})
	s := scoutServer()
	h := NewHttpServer(s)
	h.InitPages()
	bad := scoutBadStringRequest(t, s, "greet_stream")

	// In-process, so the escaping panic is observed directly.
	req := httptest.NewRequest(http.MethodPost, "/greet_stream/init", bytes.NewReader(bad))
	req.Header.Set("Content-Type", arrowContentType)
	w := httptest.NewRecorder()
	var escaped any
	func() {
		defer func() { escaped = recover() }()
		h.ServeHTTP(w, req)
	}()
	if escaped != nil {
		t.Fatalf("C03 violated: panic escaped HttpServer.ServeHTTP on /init: %v", escaped)
	}
	if w.Code == 0 {
		t.Fatal("no status")
	}
}

// ---------------------------------------------------------------------------
// Finding 2: the exchange input cast kills the whole process.
//
// castRecordBatch hands the client's column to compute.CastDatum, and arrow-go
// runs the kernel on a goroutine of its own (compute/exec.go, execInternal).
// A panic there cannot be recovered by anything on the request goroutine — not
// by the handler, not by net/http — so the Go runtime terminates the process.
// Because that would take the test binary with it, the server under test runs
// in a child process (this same test binary, re-executed with SCOUT_CHILD set).
// ---------------------------------------------------------------------------

type scoutExchangeState struct{}

func (*scoutExchangeState) Exchange(_ context.Context, _ arrow.RecordBatch, out *OutputCollector, _ *CallContext) error {
	return out.EmitMap(map[string][]interface{}{"value": {int64(1)}})
}

var scoutInt64Schema = arrow.NewSchema([]arrow.Field{{Name: "value", Type: arrow.PrimitiveTypes.Int64}}, nil)

type scoutIntParams struct {
	Value int64 `vgirpc:"value"`
}

func scoutExchangeServer() *Server {
	RegisterStateType(&scoutExchangeState{})
	s := NewServer()
	Exchange(s, "ex", scoutInt64Schema, scoutInt64Schema,
		func(context.Context, *CallContext, scoutIntParams) (*StreamResult, error) {
			return &StreamResult{OutputSchema: scoutInt64Schema, InputSchema: scoutInt64Schema, State: &scoutExchangeState{}}, nil
		})
	return s
}

// TestScoutChildProcess is not a test: it is the server process the two tests
// below talk to. It does nothing unless SCOUT_CHILD is set.
func TestScoutChildProcess(t *testing.T) {
	switch os.Getenv("SCOUT_CHILD") {
	case "http":
		h := NewHttpServer(scoutExchangeServer())
		h.InitPages()
		ln, err := net.Listen("tcp", "127.0.0.1:0")
		if err != nil {
			fmt.Fprintln(os.Stderr, err)
			os.Exit(3)
		}
		fmt.Fprintf(os.Stdout, "LISTEN http://%s\n", ln.Addr())
		_ = http.Serve(ln, h)
		os.Exit(0)
	case "pipe":
		scoutExchangeServer().Serve(os.Stdin, os.Stdout)
		os.Exit(0)
	}
}

func scoutIntParamsRequest(t *testing.T, method string) []byte {
	t.Helper()
	b := array.NewInt64Builder(memory.NewGoAllocator())
	b.Append(1)
	col := b.NewArray()
	b.Release()
	rec := array.NewRecordBatch(scoutInt64Schema, []arrow.Array{col}, 1)
	col.Release()
	defer rec.Release()
	return scoutRequestBytes(t, method, rec)
}

// scoutBadExchangeInput: the exchange method declares input {value: int64}; the
// client sends {value: utf8} — a compatible-by-cast shape the server accepts
// (castRecordBatch parses the strings) — with the offsets [0,5] of "12345"
// rewritten to [5,2]. meta carries the continuation tokens over HTTP and is
// empty on the pipe.
func scoutBadExchangeInput(t *testing.T, meta arrow.Metadata) (good, bad []byte) {
	t.Helper()
	strSchema := arrow.NewSchema([]arrow.Field{{Name: "value", Type: arrow.BinaryTypes.String}}, nil)
	b := array.NewStringBuilder(memory.NewGoAllocator())
	b.Append("12345")
	col := b.NewArray()
	b.Release()
	var rec arrow.RecordBatch = array.NewRecordBatch(strSchema, []arrow.Array{col}, 1)
	col.Release()
	defer rec.Release()
	toWrite := rec
	if meta.Len() > 0 {
		toWrite = array.NewRecordBatchWithMetadata(strSchema, rec.Columns(), 1, meta)
		defer toWrite.Release()
	}
	var buf bytes.Buffer
	w := ipc.NewWriter(&buf, ipc.WithSchema(strSchema))
	if err := w.Write(toWrite); err != nil {
		t.Fatal(err)
	}
	if err := w.Close(); err != nil {
		t.Fatal(err)
	}
	good = buf.Bytes()
	bad = scoutPatch(t, good,
		[]byte{0, 0, 0, 0, 5, 0, 0, 0, '1', '2', '3', '4', '5'},
		[]byte{5, 0, 0, 0, 2, 0, 0, 0})
	return good, bad
}

func scoutStartChild(t *testing.T, mode string) (*exec.Cmd, io.WriteCloser, *bufio.Reader, *bytes.Buffer) {
	t.Helper()
	cmd := exec.Command(os.Args[0], "-test.run=^TestScoutChildProcess$", "-test.count=1")
	cmd.Env = append(os.Environ(), "SCOUT_CHILD="+mode)
	stdin, err := cmd.StdinPipe()
	if err != nil {
		t.Fatal(err)
	}
	stdout, err := cmd.StdoutPipe()
	if err != nil {
		t.Fatal(err)
	}
	stderr := &bytes.Buffer{}
	cmd.Stderr = stderr
	if err := cmd.Start(); err != nil {
		t.Fatal(err)
	}
	return cmd, stdin, bufio.NewReader(stdout), stderr
}

// scoutFirstLines returns n lines of the child's stderr, starting at the Go
// runtime's fatal "panic: " line when there is one (that is the line that
// names what killed the process, as opposed to a panic net/http recovered).
func scoutFirstLines(s string, n int) string {
	if i := strings.Index(s, "\npanic: "); i >= 0 {
		s = s[i+1:]
	}
	lines := strings.Split(s, "\n")
	if len(lines) > n {
		lines = lines[:n]
	}
	return strings.Join(lines, "\n")
}

// TestScoutHTTPExchangeCastKillsProcess: a legitimate /init, then one /exchange
// whose input column is malformed. C03 requires a complete response for that
// request and a server that is still there for the next one.
func TestScoutHTTPExchangeCastKillsProcess(t *testing.T) {
	cmd, stdin, stdout, stderr := scoutStartChild(t, "http")
	defer stdin.Close()
	exited := make(chan error, 1)
	line, err := stdout.ReadString('\n')
	if err != nil || !strings.HasPrefix(line, "LISTEN ") {
		_ = cmd.Process.Kill()
		t.Fatalf("child did not start: %q %v\n%s", line, err, stderr.String())
	}
	go func() { exited <- cmd.Wait() }()
	defer func() { _ = cmd.Process.Kill() }()
	base := strings.TrimSpace(strings.TrimPrefix(line, "LISTEN "))

	post := func(path string, body []byte) (*http.Response, []byte, error) {
		resp, err := http.Post(base+path, arrowContentType, bytes.NewReader(body))
		if err != nil {
			return nil, nil, err
		}
		defer resp.Body.Close()
		data, err := io.ReadAll(resp.Body)
		return resp, data, err
	}

	resp, body, err := post("/ex/init", scoutIntParamsRequest(t, "ex"))
	if err != nil || resp.StatusCode != 200 {
		t.Fatalf("init failed: %v %v", err, resp)
	}
	token, callToken := FindStreamTokens(body)
	if token == nil || callToken == nil {
		t.Fatal("init returned no tokens")
	}
	meta := arrow.NewMetadata([]string{MetaStreamState, MetaCallState}, []string{string(token), string(callToken)})
	good, bad := scoutBadExchangeInput(t, meta)

	// Control: the well-formed utf8 column is accepted and cast.
	resp, _, err = post("/ex/exchange", good)
	if err != nil || resp.StatusCode != 200 {
		t.Fatalf("control exchange failed: %v %v", err, resp)
	}

	// The malformed input is sent WITHOUT any state token: handleStreamExchange
	// casts the input before it looks at the token, so no prior /init and no
	// valid token are needed to reach the kernel.
	_ = bad
	_, badNoToken := scoutBadExchangeInput(t, arrow.Metadata{})
	_, _, badErr := post("/ex/exchange", badNoToken)

	select {
	case werr := <-exited:
		t.Fatalf("C03 violated: one /exchange request terminated the whole HTTP server process (%v); request outcome: %v\nchild stderr:\n%s",
			werr, badErr, scoutFirstLines(stderr.String(), 12))
	case <-time.After(2 * time.Second):
	}
	if badErr != nil {
		t.Fatalf("C03 violated: exchange got no complete HTTP response: %v", badErr)
	}
	hr, err := http.Get(base + "/health")
	if err != nil || hr.StatusCode != 200 {
		t.Fatalf("server not serving after the malformed exchange: %v", err)
	}
	hr.Body.Close()
}

// TestScoutPipeExchangeCastKillsProcess: the same input on the pipe transport
// (server_stream.go lockstep loop → castRecordBatch). The worker must either
// answer with an error stream or close cleanly; it must not die.
func TestScoutPipeExchangeCastKillsProcess(t *testing.T) {
	cmd, stdin, stdout, stderr := scoutStartChild(t, "pipe")
	_, bad := scoutBadExchangeInput(t, arrow.Metadata{})
	go func() { _, _ = io.Copy(io.Discard, stdout) }()
	if _, err := stdin.Write(scoutIntParamsRequest(t, "ex")); err != nil {
		t.Fatal(err)
	}
	if _, err := stdin.Write(bad); err != nil {
		t.Fatal(err)
	}
	stdin.Close()
	done := make(chan error, 1)
	go func() { done <- cmd.Wait() }()
	select {
	case err := <-done:
		if err != nil {
			t.Fatalf("C03 violated: pipe worker process died (%v) instead of answering or closing cleanly\nchild stderr:\n%s",
				err, scoutFirstLines(stderr.String(), 12))
		}
	case <-time.After(20 * time.Second):
		_ = cmd.Process.Kill()
		t.Fatal("worker hung")
	}
}

// ---------------------------------------------------------------------------
// Finding 3: the "request"-wrapped parameter shape recurses without a depth
// bound, and every level re-reads (copies) the remaining payload while all
// outer levels stay live: memory and time are quadratic in the request size.
// ---------------------------------------------------------------------------

func scoutNestedRequest(t *testing.T, depth int) arrow.RecordBatch {
	t.Helper()
	schema := arrow.NewSchema([]arrow.Field{{Name: "request", Type: arrow.BinaryTypes.Binary}}, nil)
	payload := []byte("x")
	var last arrow.RecordBatch
	for i := 0; i < depth; i++ {
		b := array.NewBinaryBuilder(memory.NewGoAllocator(), arrow.BinaryTypes.Binary)
		b.Append(payload)
		col := b.NewArray()
		b.Release()
		rec := array.NewRecordBatch(schema, []arrow.Array{col}, 1)
		col.Release()
		var buf bytes.Buffer
		w := ipc.NewWriter(&buf, ipc.WithSchema(schema))
		if err := w.Write(rec); err != nil {
			t.Fatal(err)
		}
		_ = w.Close()
		if last != nil {
			last.Release()
		}
		last = rec
		payload = buf.Bytes()
	}
	return last
}

// TestScoutNestedRequestAmplification: a ~440 KB request (1500 levels of
// {request: binary} wrapping) must be refused cheaply. On the unchanged code it
// allocates several hundred MB — ~700x the request — all of it live at the
// deepest point; at the default 64 MB HTTP body cap the same shape asks for
// terabytes and the kernel kills the process.
func TestScoutNestedRequestAmplification(t *testing.T) {
	rec := scoutNestedRequest(t, 1500)
	defer rec.Release()
	size := batchBufferSize(rec)
	var m0, m1 runtime.MemStats
	runtime.GC()
	runtime.ReadMemStats(&m0)
	start := time.Now()
	_, err := deserializeParams(rec, reflect.TypeOf(scoutIntParams{}))
	took := time.Since(start)
	runtime.ReadMemStats(&m1)
	if err == nil {
		t.Fatal("expected the request to be refused")
	}
	allocated := int64(m1.TotalAlloc - m0.TotalAlloc)
	grown := int64(m1.Sys) - int64(m0.Sys)
	t.Logf("request payload %d bytes: allocated %d MB, process footprint grew %d MB, took %v", size, allocated>>20, grown>>20, took)
	if allocated > 64*size {
		t.Fatalf("C03 (resource form): a %d-byte request made the server allocate %d bytes (%dx) while refusing it", size, allocated, allocated/size)
	}
}

// TestVerifReplay: the reproducers of a recorded, unrepaired finding (they fail on the current code by design)
func TestVerifReplay(t *testing.T) {
	t.Run("TestScoutHTTPExchangeCastKillsProcess", TestScoutHTTPExchangeCastKillsProcess)
	t.Run("TestScoutPipeExchangeCastKillsProcess", TestScoutPipeExchangeCastKillsProcess)
}
