// Scout reproducers for property C37 (dispatch hooks: one start, one end,
// end error <=> response reports an error).
//
// This file belongs in the package directory  vgirpc/  of the main module
// (package vgirpc, internal test — it uses serveOne and the test helpers of
// dispatch_regression_test.go: regressionParams, regressionResult,
// regressionSchema, regressionBatch, regressionIPC, regressionRequest).

package vgirpc

import (
	"bytes"
	"context"
	"fmt"
	"net/http"
	"net/http/httptest"
	"sync"
	"testing"

	"github.com/apache/arrow-go/v18/arrow"
	"github.com/apache/arrow-go/v18/arrow/array"
	"github.com/apache/arrow-go/v18/arrow/ipc"
	"github.com/apache/arrow-go/v18/arrow/memory"
)

// ---------------------------------------------------------------- helpers

type scoutHook struct {
	mu      sync.Mutex
	starts  int
	ends    int
	tokens  []HookToken
	lastErr error
}

type scoutToken struct{ n int }

func (h *scoutHook) OnDispatchStart(ctx context.Context, _ DispatchInfo) (context.Context, HookToken) {
	h.mu.Lock()
	defer h.mu.Unlock()
	h.starts++
	return ctx, &scoutToken{n: h.starts}
}

func (h *scoutHook) OnDispatchEnd(_ context.Context, tok HookToken, _ DispatchInfo, _ *CallStatistics, err error) {
	h.mu.Lock()
	defer h.mu.Unlock()
	h.ends++
	h.tokens = append(h.tokens, tok)
	h.lastErr = err
}

func (h *scoutHook) snapshot() (starts, ends int, lastErr error) {
	h.mu.Lock()
	defer h.mu.Unlock()
	return h.starts, h.ends, h.lastErr
}

// scoutResponseReportsError scans every IPC stream in body and reports whether
// any batch is an EXCEPTION batch (which is how a response reports an error).
// It also returns the number of data rows and whether a continuation token
// was present.
func scoutResponseReportsError(t *testing.T, body []byte) (reportsErr bool, rows int64, hasToken bool) {
	t.Helper()
	rd := bytes.NewReader(body)
	for rd.Len() > 0 {
		r, err := ipc.NewReader(rd)
		if err != nil {
			return reportsErr, rows, hasToken
		}
		for r.Next() {
			rec := r.RecordBatch()
			rows += rec.NumRows()
			if rb, ok := rec.(arrow.RecordBatchWithMetadata); ok {
				md := rb.Metadata()
				if lvl, _ := md.GetValue(MetaLogLevel); lvl == string(LogException) {
					reportsErr = true
				}
				if _, ok := md.GetValue(MetaStreamState); ok {
					hasToken = true
				}
			}
		}
		r.Release()
	}
	return reportsErr, rows, hasToken
}

func scoutTick(t *testing.T) []byte {
	t.Helper()
	empty := array.NewRecordBatch(arrow.NewSchema(nil, nil), nil, 0)
	defer empty.Release()
	return regressionIPC(t, empty, arrow.Metadata{})
}

// scoutServeOne runs serveOne and converts an escaping panic into a value.
func scoutServeOne(s *Server, in []byte, out *bytes.Buffer) (err error, panicked any) {
	defer func() {
		if rv := recover(); rv != nil {
			panicked = rv
		}
	}()
	err = s.serveOne(context.Background(), bytes.NewReader(in), out, &shmConnState{})
	return err, nil
}

// ------------------------------------------------------------------------
// Finding 1: a handler error whose Error()/type-switch dereference panics
// (the classic typed-nil error: `var e *RpcError; return r, e`) is formatted
// OUTSIDE every recover. On the pipe transport the panic leaves serveOne: the
// dispatch-end hook never runs, no response is written, and the Serve loop
// (the worker process) dies.
// ------------------------------------------------------------------------

func scoutTypedNilErr() error {
	var e *RpcError // typed nil — non-nil as an `error` interface
	return e
}

func TestScoutPipeUnaryTypedNilErrorSkipsHookEnd(t *testing.T) {
	s := NewServer()
	hook := &scoutHook{}
	s.SetDispatchHook(hook)
	Unary(s, "typed_nil", func(context.Context, *CallContext, regressionParams) (regressionResult, error) {
		return regressionResult{}, scoutTypedNilErr()
	})
	params := regressionBatch(t, 1)
	defer params.Release()

	var resp bytes.Buffer
	err, panicked := scoutServeOne(s, regressionRequest(t, "typed_nil", params), &resp)
	starts, ends, _ := hook.snapshot()
	if panicked != nil {
		t.Errorf("serveOne panicked (worker would die): %v", panicked)
	}
	if err != nil {
		t.Errorf("serveOne transport error: %v", err)
	}
	if starts != 1 || ends != 1 {
		t.Errorf("hook saw starts=%d ends=%d; want 1/1", starts, ends)
	}
	if reports, _, _ := scoutResponseReportsError(t, resp.Bytes()); !reports {
		t.Errorf("client got no error response (%d response bytes)", resp.Len())
	}
}

type scoutTypedNilProducer struct{}

func (*scoutTypedNilProducer) Produce(context.Context, *OutputCollector, *CallContext) error {
	return scoutTypedNilErr()
}

func TestScoutPipeStreamTypedNilErrorSkipsHookEnd(t *testing.T) {
	s := NewServer()
	hook := &scoutHook{}
	s.SetDispatchHook(hook)
	Producer(s, "typed_nil_stream", regressionSchema,
		func(context.Context, *CallContext, regressionParams) (*StreamResult, error) {
			return &StreamResult{OutputSchema: regressionSchema, State: &scoutTypedNilProducer{}}, nil
		})
	params := regressionBatch(t, 1)
	defer params.Release()
	in := append([]byte(nil), regressionRequest(t, "typed_nil_stream", params)...)
	in = append(in, scoutTick(t)...)

	var resp bytes.Buffer
	_, panicked := scoutServeOne(s, in, &resp)
	starts, ends, _ := hook.snapshot()
	if panicked != nil {
		t.Errorf("serveOne panicked (worker would die): %v", panicked)
	}
	if starts != 1 || ends != 1 {
		t.Errorf("hook saw starts=%d ends=%d; want 1/1", starts, ends)
	}
}

// The next call on the same connection must be unaffected ("later calls").
func TestScoutPipeTypedNilErrorKillsServeLoop(t *testing.T) {
	s := NewServer()
	hook := &scoutHook{}
	s.SetDispatchHook(hook)
	Unary(s, "typed_nil", func(context.Context, *CallContext, regressionParams) (regressionResult, error) {
		return regressionResult{}, scoutTypedNilErr()
	})
	Unary(s, "ok", func(_ context.Context, _ *CallContext, p regressionParams) (regressionResult, error) {
		return regressionResult(p), nil
	})
	params := regressionBatch(t, 7)
	defer params.Release()
	in := append([]byte(nil), regressionRequest(t, "typed_nil", params)...)
	in = append(in, regressionRequest(t, "ok", params)...)

	var resp bytes.Buffer
	var panicked any
	func() {
		defer func() { panicked = recover() }()
		s.Serve(bytes.NewReader(in), &resp)
	}()
	starts, ends, _ := hook.snapshot()
	if panicked != nil {
		t.Errorf("Serve panicked: %v", panicked)
	}
	if starts != 2 || ends != 2 {
		t.Errorf("two calls on the connection; hook saw starts=%d ends=%d", starts, ends)
	}
}

// ------------------------------------------------------------------------
// Finding 2: HTTP producer, continuation token cannot be minted (state type
// never passed to RegisterStateType, or any other gob failure). The response
// is a clean 200 stream WITHOUT a token and WITHOUT an EXCEPTION batch — the
// client sees a normally finished, silently truncated stream — while the
// hook's end receives a non-nil error.
// ------------------------------------------------------------------------

type scoutUnregisteredProducer struct{ N int64 }

func (p *scoutUnregisteredProducer) Produce(_ context.Context, out *OutputCollector, _ *CallContext) error {
	if p.N >= 5 {
		return out.Finish()
	}
	p.N++
	return out.EmitMap(map[string][]interface{}{"value": {p.N}})
}

func TestScoutHTTPProducerTokenFailureNotReported(t *testing.T) {
	s := NewServer()
	hook := &scoutHook{}
	s.SetDispatchHook(hook)
	Producer(s, "five_rows", regressionSchema,
		func(context.Context, *CallContext, regressionParams) (*StreamResult, error) {
			// NOTE: scoutUnregisteredProducer is deliberately not registered.
			return &StreamResult{OutputSchema: regressionSchema, State: &scoutUnregisteredProducer{}}, nil
		})
	h := NewHttpServer(s)
	h.SetProducerBatchLimit(1)
	h.InitPages()

	params := regressionBatch(t, 1)
	defer params.Release()
	req := httptest.NewRequest(http.MethodPost, "/five_rows/init", bytes.NewReader(regressionRequest(t, "five_rows", params)))
	req.Header.Set("Content-Type", arrowContentType)
	w := httptest.NewRecorder()
	h.ServeHTTP(w, req)

	starts, ends, endErr := hook.snapshot()
	if starts != 1 || ends != 1 {
		t.Fatalf("hook saw starts=%d ends=%d; want 1/1", starts, ends)
	}
	reports, rows, hasToken := scoutResponseReportsError(t, w.Body.Bytes())
	reports = reports || w.Header().Get(rpcErrorHeader) == "true" || w.Code >= 400
	t.Logf("status=%d %s=%q rows=%d hasToken=%v reportsErr=%v hookEndErr=%v",
		w.Code, rpcErrorHeader, w.Header().Get(rpcErrorHeader), rows, hasToken, reports, endErr)
	if (endErr != nil) != reports {
		t.Errorf("hook end err = %v but response reportsError = %v (rows delivered=%d of 5, token=%v): "+
			"client sees a cleanly finished, truncated stream", endErr, reports, rows, hasToken)
	}
}

// ------------------------------------------------------------------------
// Finding 3: HTTP exchange whose handler emits (with per-batch metadata) a
// batch whose schema is not the output schema. The IPC writer refuses the
// batch; the response is a clean 200 with neither data, token nor EXCEPTION,
// while hook end receives the write error.
// ------------------------------------------------------------------------

type scoutWideExchange struct{}

func (*scoutWideExchange) Exchange(_ context.Context, _ arrow.RecordBatch, out *OutputCollector, _ *CallContext) error {
	mem := memory.NewGoAllocator()
	b1 := array.NewInt64Builder(mem)
	b1.Append(1)
	c1 := b1.NewArray()
	b1.Release()
	b2 := array.NewInt64Builder(mem)
	b2.Append(2)
	c2 := b2.NewArray()
	b2.Release()
	wide := arrow.NewSchema([]arrow.Field{
		{Name: "value", Type: arrow.PrimitiveTypes.Int64},
		{Name: "extra", Type: arrow.PrimitiveTypes.Int64},
	}, nil)
	rec := array.NewRecordBatch(wide, []arrow.Array{c1, c2}, 1)
	c1.Release()
	c2.Release()
	return out.EmitWithMetadata(rec, map[string]string{"vgi_batch_index": "0"})
}

func TestScoutHTTPExchangeWriteFailureNotReported(t *testing.T) {
	RegisterStateType(&scoutWideExchange{})
	s := NewServer()
	hook := &scoutHook{}
	s.SetDispatchHook(hook)
	Exchange(s, "wide", regressionSchema, regressionSchema,
		func(context.Context, *CallContext, regressionParams) (*StreamResult, error) {
			return &StreamResult{OutputSchema: regressionSchema, InputSchema: regressionSchema, State: &scoutWideExchange{}}, nil
		})
	h := NewHttpServer(s)
	h.InitPages()

	params := regressionBatch(t, 1)
	initReq := httptest.NewRequest(http.MethodPost, "/wide/init", bytes.NewReader(regressionRequest(t, "wide", params)))
	params.Release()
	initReq.Header.Set("Content-Type", arrowContentType)
	initW := httptest.NewRecorder()
	h.ServeHTTP(initW, initReq)
	token, callToken := FindStreamTokens(initW.Body.Bytes())
	if token == nil || callToken == nil {
		t.Fatalf("init response missing stream tokens")
	}
	if st, en, e := hook.snapshot(); st != 1 || en != 1 || e != nil {
		t.Fatalf("init: starts=%d ends=%d err=%v", st, en, e)
	}

	input := regressionBatch(t, 42)
	meta := arrow.NewMetadata([]string{MetaStreamState, MetaCallState}, []string{string(token), string(callToken)})
	exReq := httptest.NewRequest(http.MethodPost, "/wide/exchange", bytes.NewReader(regressionIPC(t, input, meta)))
	input.Release()
	exReq.Header.Set("Content-Type", arrowContentType)
	exW := httptest.NewRecorder()
	h.ServeHTTP(exW, exReq)

	starts, ends, endErr := hook.snapshot()
	if starts != 2 || ends != 2 {
		t.Fatalf("hook saw starts=%d ends=%d; want 2/2", starts, ends)
	}
	reports, rows, hasToken := scoutResponseReportsError(t, exW.Body.Bytes())
	reports = reports || exW.Header().Get(rpcErrorHeader) == "true" || exW.Code >= 400
	t.Logf("status=%d rows=%d hasToken=%v reportsErr=%v hookEndErr=%v", exW.Code, rows, hasToken, reports, endErr)
	if (endErr != nil) != reports {
		t.Errorf("hook end err = %v but response reportsError = %v (rows=%d token=%v)", endErr, reports, rows, hasToken)
	}
}

// Finding 3b: same handler bug, but Emit without metadata. The flush path
// rebuilds the batch against the declared schema outside every recover, so
// the column-count mismatch panics out of ServeHTTP: the exchange is aborted
// (no response at all) and hook end receives nil.
type scoutWideExchangeNoMeta struct{}

func (*scoutWideExchangeNoMeta) Exchange(_ context.Context, _ arrow.RecordBatch, out *OutputCollector, _ *CallContext) error {
	mem := memory.NewGoAllocator()
	b1 := array.NewInt64Builder(mem)
	b1.Append(1)
	c1 := b1.NewArray()
	b1.Release()
	b2 := array.NewInt64Builder(mem)
	b2.Append(2)
	c2 := b2.NewArray()
	b2.Release()
	wide := arrow.NewSchema([]arrow.Field{
		{Name: "value", Type: arrow.PrimitiveTypes.Int64},
		{Name: "extra", Type: arrow.PrimitiveTypes.Int64},
	}, nil)
	rec := array.NewRecordBatch(wide, []arrow.Array{c1, c2}, 1)
	c1.Release()
	c2.Release()
	return out.Emit(rec)
}

func TestScoutHTTPExchangeWideEmitPanicsOutsideRecover(t *testing.T) {
	RegisterStateType(&scoutWideExchangeNoMeta{})
	s := NewServer()
	hook := &scoutHook{}
	s.SetDispatchHook(hook)
	Exchange(s, "wide2", regressionSchema, regressionSchema,
		func(context.Context, *CallContext, regressionParams) (*StreamResult, error) {
			return &StreamResult{OutputSchema: regressionSchema, InputSchema: regressionSchema, State: &scoutWideExchangeNoMeta{}}, nil
		})
	h := NewHttpServer(s)
	h.InitPages()

	params := regressionBatch(t, 1)
	initReq := httptest.NewRequest(http.MethodPost, "/wide2/init", bytes.NewReader(regressionRequest(t, "wide2", params)))
	params.Release()
	initReq.Header.Set("Content-Type", arrowContentType)
	initW := httptest.NewRecorder()
	h.ServeHTTP(initW, initReq)
	token, callToken := FindStreamTokens(initW.Body.Bytes())
	if token == nil || callToken == nil {
		t.Fatalf("init response missing stream tokens")
	}

	input := regressionBatch(t, 42)
	meta := arrow.NewMetadata([]string{MetaStreamState, MetaCallState}, []string{string(token), string(callToken)})
	exReq := httptest.NewRequest(http.MethodPost, "/wide2/exchange", bytes.NewReader(regressionIPC(t, input, meta)))
	input.Release()
	exReq.Header.Set("Content-Type", arrowContentType)
	exW := httptest.NewRecorder()
	var panicked any
	func() {
		defer func() { panicked = recover() }()
		h.ServeHTTP(exW, exReq)
	}()
	starts, ends, endErr := hook.snapshot()
	reports, rows, _ := scoutResponseReportsError(t, exW.Body.Bytes())
	t.Logf("panicked=%v starts=%d ends=%d endErr=%v bodyLen=%d reportsErr=%v rows=%d", panicked, starts, ends, endErr, exW.Body.Len(), reports, rows)
	if panicked != nil {
		t.Errorf("ServeHTTP panicked outside every recover (net/http would abort the connection): %v; hook end err=%v", panicked, endErr)
	}
}

// ------------------------------------------------------------------------
// Finding 4: a handler can put an EXCEPTION-level batch on the response via
// the public ClientLog API and then return nil. Every client raises on that
// batch (the response reports an error), but hook end receives nil.
// ------------------------------------------------------------------------

func TestScoutPipeUnaryExceptionLogHookSeesSuccess(t *testing.T) {
	s := NewServer()
	hook := &scoutHook{}
	s.SetDispatchHook(hook)
	Unary(s, "log_exc", func(_ context.Context, c *CallContext, p regressionParams) (regressionResult, error) {
		c.ClientLog(LogException, "fatal: giving up")
		return regressionResult(p), nil
	})
	params := regressionBatch(t, 1)
	defer params.Release()
	var resp bytes.Buffer
	if err, p := scoutServeOne(s, regressionRequest(t, "log_exc", params), &resp); err != nil || p != nil {
		t.Fatalf("serveOne: err=%v panic=%v", err, p)
	}
	starts, ends, endErr := hook.snapshot()
	if starts != 1 || ends != 1 {
		t.Fatalf("hook saw starts=%d ends=%d", starts, ends)
	}
	reports, _, _ := scoutResponseReportsError(t, resp.Bytes())
	if (endErr != nil) != reports {
		t.Errorf("hook end err = %v but response carries an EXCEPTION batch = %v", endErr, reports)
	}
}

// ------------------------------------------------------------------------
// Finding 5 (title clause "exactly one start ... per dispatched call"): an
// HTTP exchange turn for a registered method, with tokens that resolve, whose
// input batch fails the input-schema cast is answered with an error without
// the hook ever starting. The same failure on the pipe transport is seen by
// the hook (start + end(err)).
// ------------------------------------------------------------------------

type scoutEchoExchange struct{}

func (*scoutEchoExchange) Exchange(_ context.Context, in arrow.RecordBatch, out *OutputCollector, _ *CallContext) error {
	return out.EmitMap(map[string][]interface{}{"value": {in.Column(0).(*array.Int64).Value(0)}})
}

func scoutStringBatch() arrow.RecordBatch {
	b := array.NewStringBuilder(memory.NewGoAllocator())
	b.Append("not a number")
	col := b.NewArray()
	b.Release()
	sch := arrow.NewSchema([]arrow.Field{{Name: "value", Type: arrow.BinaryTypes.String}}, nil)
	rec := array.NewRecordBatch(sch, []arrow.Array{col}, 1)
	col.Release()
	return rec
}

func TestScoutExchangeCastFailureHookParity(t *testing.T) {
	RegisterStateType(&scoutEchoExchange{})
	mk := func() (*Server, *scoutHook) {
		s := NewServer()
		hook := &scoutHook{}
		s.SetDispatchHook(hook)
		Exchange(s, "echo", regressionSchema, regressionSchema,
			func(context.Context, *CallContext, regressionParams) (*StreamResult, error) {
				return &StreamResult{OutputSchema: regressionSchema, InputSchema: regressionSchema, State: &scoutEchoExchange{}}, nil
			})
		return s, hook
	}

	// pipe: one call, the bad input batch is seen by the hook as an error.
	{
		s, hook := mk()
		params := regressionBatch(t, 1)
		in := append([]byte(nil), regressionRequest(t, "echo", params)...)
		params.Release()
		bad := scoutStringBatch()
		in = append(in, regressionIPC(t, bad, arrow.Metadata{})...)
		bad.Release()
		var resp bytes.Buffer
		if err, p := scoutServeOne(s, in, &resp); err != nil || p != nil {
			t.Fatalf("pipe serveOne: err=%v panic=%v", err, p)
		}
		st, en, e := hook.snapshot()
		t.Logf("pipe: starts=%d ends=%d endErr=%v", st, en, e)
		if st != 1 || en != 1 || e == nil {
			t.Errorf("pipe: expected start/end(err), got starts=%d ends=%d err=%v", st, en, e)
		}
	}

	// HTTP: the exchange turn carrying the bad batch never reaches the hook.
	{
		s, hook := mk()
		h := NewHttpServer(s)
		h.InitPages()
		params := regressionBatch(t, 1)
		initReq := httptest.NewRequest(http.MethodPost, "/echo/init", bytes.NewReader(regressionRequest(t, "echo", params)))
		params.Release()
		initReq.Header.Set("Content-Type", arrowContentType)
		initW := httptest.NewRecorder()
		h.ServeHTTP(initW, initReq)
		token, callToken := FindStreamTokens(initW.Body.Bytes())
		if token == nil || callToken == nil {
			t.Fatalf("init response missing stream tokens")
		}
		bad := scoutStringBatch()
		meta := arrow.NewMetadata([]string{MetaStreamState, MetaCallState}, []string{string(token), string(callToken)})
		exReq := httptest.NewRequest(http.MethodPost, "/echo/exchange", bytes.NewReader(regressionIPC(t, bad, meta)))
		bad.Release()
		exReq.Header.Set("Content-Type", arrowContentType)
		exW := httptest.NewRecorder()
		h.ServeHTTP(exW, exReq)
		reports, _, _ := scoutResponseReportsError(t, exW.Body.Bytes())
		st, en, e := hook.snapshot()
		t.Logf("http: status=%d reportsErr=%v starts=%d ends=%d endErr=%v", exW.Code, reports, st, en, e)
		if st != 2 || en != 2 {
			t.Errorf("http: init + exchange turn = 2 dispatched requests, hook saw starts=%d ends=%d "+
				"(the failing turn is invisible to the hook; response status %d, reportsErr=%v)", st, en, exW.Code, reports)
		}
	}
}

var _ = fmt.Sprintf

// TestVerifReplay: the reproducer of the repaired defect (a continuation token that cannot be minted is reported to the client); the other TestScout* functions of this file reproduce findings that are not repaired and are not run
func TestVerifReplay(t *testing.T) {
	t.Run("TestScoutHTTPProducerTokenFailureNotReported", TestScoutHTTPProducerTokenFailureNotReported)
	t.Run("TestScoutHTTPExchangeWriteFailureNotReported", TestScoutHTTPExchangeWriteFailureNotReported)
	t.Run("TestScoutPipeUnaryTypedNilErrorSkipsHookEnd", TestScoutPipeUnaryTypedNilErrorSkipsHookEnd)
	t.Run("TestScoutPipeStreamTypedNilErrorSkipsHookEnd", TestScoutPipeStreamTypedNilErrorSkipsHookEnd)
	t.Run("TestScoutPipeTypedNilErrorKillsServeLoop", TestScoutPipeTypedNilErrorKillsServeLoop)
}
