package vgirpc

// Replay for property C01: request framing and unary-result wrapping round-trip; error, log-only
// and non-binary responses are not results; stream-token and protocol-version finders recover
// what was stamped, over concatenated streams too; malformed bodies are refused, never a panic.

import (
	"bytes"
	"errors"
	"testing"

	"github.com/apache/arrow-go/v18/arrow"
	"github.com/apache/arrow-go/v18/arrow/array"
	"github.com/apache/arrow-go/v18/arrow/ipc"
	"github.com/apache/arrow-go/v18/arrow/memory"
)

func c01Batch(schema *arrow.Schema, v ...int64) arrow.RecordBatch {
	b := array.NewInt64Builder(memory.NewGoAllocator())
	b.AppendValues(v, nil)
	col := b.NewArray()
	b.Release()
	rec := array.NewRecordBatch(schema, []arrow.Array{col}, int64(len(v)))
	col.Release()
	return rec
}

func c01Stream(schema *arrow.Schema, batches ...arrow.RecordBatch) []byte {
	var buf bytes.Buffer
	w := ipc.NewWriter(&buf, ipc.WithSchema(schema))
	for _, b := range batches {
		w.Write(b)
	}
	w.Close()
	return buf.Bytes()
}

func TestVerifReplay(t *testing.T) {
	schema := arrow.NewSchema([]arrow.Field{{Name: "x", Type: arrow.PrimitiveTypes.Int64}}, nil)
	for _, method := range []string{"m", "a.b/c", "méthode", "with space"} {
		for _, pv := range []string{"", "1.2.3"} {
			p := c01Batch(schema, 42)
			var buf bytes.Buffer
			if err := WriteRequest(&buf, method, p, pv); err != nil {
				t.Fatalf("WriteRequest: %v", err)
			}
			if got := FindProtocolVersion(buf.Bytes()); got != pv {
				t.Errorf("FindProtocolVersion = %q, stamped %q", got, pv)
			}
			req, err := ReadRequest(bytes.NewReader(buf.Bytes()))
			if err != nil {
				t.Errorf("ReadRequest(%q): %v", method, err)
				continue
			}
			if req.Method != method || req.Version != ProtocolVersion || req.Batch.NumRows() != 1 || req.Batch.Column(0).(*array.Int64).Value(0) != 42 || !req.Batch.Schema().Equal(schema) {
				t.Errorf("round trip of %q: %+v", method, req)
			}
			if v := req.Metadata[MetaProtocolVersion]; v != pv {
				t.Errorf("protocol version %q read back as %q", pv, v)
			}
			p.Release()
		}
	}
	// refusals are typed
	for name, md := range map[string]arrow.Metadata{
		"no method":     arrow.NewMetadata([]string{MetaRequestVersion}, []string{ProtocolVersion}),
		"no version":    arrow.NewMetadata([]string{MetaMethod}, []string{"m"}),
		"wrong version": arrow.NewMetadata([]string{MetaMethod, MetaRequestVersion}, []string{"m", "999"}),
		"bad utf8":      arrow.NewMetadata([]string{MetaMethod, MetaRequestVersion}, []string{"m\xff", ProtocolVersion}),
	} {
		p := c01Batch(schema, 1)
		withMeta := array.NewRecordBatchWithMetadata(schema, p.Columns(), 1, md)
		_, err := ReadRequest(bytes.NewReader(c01Stream(schema, withMeta)))
		var re *RpcError
		if !errors.As(err, &re) {
			t.Errorf("%s: error %v is not a typed RpcError", name, err)
		}
	}
	two := c01Batch(schema, 1, 2)
	withMeta := array.NewRecordBatchWithMetadata(schema, two.Columns(), 2, arrow.NewMetadata([]string{MetaMethod, MetaRequestVersion}, []string{"m", ProtocolVersion}))
	if _, err := ReadRequest(bytes.NewReader(c01Stream(schema, withMeta))); err == nil {
		t.Errorf("a two-row request was accepted")
	}
	for _, junk := range [][]byte{nil, {}, {0xff, 0xff, 0xff, 0xff}, []byte("not arrow at all"), bytes.Repeat([]byte{0}, 64)} {
		func() {
			defer func() {
				if rv := recover(); rv != nil {
					t.Errorf("panic on malformed body %q: %v", junk, rv)
				}
			}()
			if _, err := ReadRequest(bytes.NewReader(junk)); err == nil {
				t.Errorf("malformed body %q accepted", junk)
			}
			if _, _, ok := ReadUnaryResult(junk); ok {
				t.Errorf("malformed body %q read as a result", junk)
			}
			FindStreamTokens(junk)
			FindProtocolVersion(junk)
		}()
	}
	// unary result envelope
	env := arrow.NewSchema([]arrow.Field{{Name: "result", Type: arrow.BinaryTypes.Binary}}, nil)
	for _, payload := range [][]byte{[]byte("hello"), {0}, bytes.Repeat([]byte{7}, 100000)} {
		var buf bytes.Buffer
		if err := WriteUnaryResult(&buf, env, payload); err != nil {
			t.Fatal(err)
		}
		sc, got, ok := ReadUnaryResult(buf.Bytes())
		if !ok || !bytes.Equal(got, payload) || !sc.Equal(env) {
			t.Errorf("unary result of %d bytes: ok=%v, %d bytes back", len(payload), ok, len(got))
		}
	}
	if err := WriteUnaryResult(&bytes.Buffer{}, schema, []byte("x")); err == nil {
		t.Errorf("WriteUnaryResult accepted a non-binary envelope")
	}
	// not-a-result responses
	var errBuf bytes.Buffer
	ew := ipc.NewWriter(&errBuf, ipc.WithSchema(env))
	writeErrorBatch(ew, env, errors.New("boom"), "srv", "rid", false)
	ew.Close()
	if _, _, ok := ReadUnaryResult(errBuf.Bytes()); ok {
		t.Errorf("an error response was read as a result")
	}
	var logBuf bytes.Buffer
	lw := ipc.NewWriter(&logBuf, ipc.WithSchema(env))
	writeLogBatch(lw, env, LogMessage{Level: LogInfo, Message: "hi"}, "srv", "rid")
	lw.Close()
	if _, _, ok := ReadUnaryResult(logBuf.Bytes()); ok {
		t.Errorf("a log-only response was read as a result")
	}
	nb := c01Batch(arrow.NewSchema([]arrow.Field{{Name: "result", Type: arrow.PrimitiveTypes.Int64}}, nil), 5)
	if _, _, ok := ReadUnaryResult(c01Stream(nb.Schema(), nb)); ok {
		t.Errorf("a non-binary result column was read as a result")
	}
	// an error response that is followed by a result-shaped batch is still an error response
	var eb bytes.Buffer
	w3 := ipc.NewWriter(&eb, ipc.WithSchema(env))
	writeErrorBatch(w3, env, errors.New("upstream failed"), "srv", "rid", false)
	bb0 := array.NewBinaryBuilder(memory.NewGoAllocator(), arrow.BinaryTypes.Binary)
	bb0.Append([]byte("stale"))
	arr0 := bb0.NewArray()
	w3.Write(array.NewRecordBatch(env, []arrow.Array{arr0}, 1))
	w3.Close()
	if _, got, ok := ReadUnaryResult(eb.Bytes()); ok {
		t.Errorf("an error response followed by a result batch was read as the result %q", got)
	}
	// logs, then a result: still a result
	var lr bytes.Buffer
	w2 := ipc.NewWriter(&lr, ipc.WithSchema(env))
	writeLogBatch(w2, env, LogMessage{Level: LogInfo, Message: "hi"}, "srv", "rid")
	bb := array.NewBinaryBuilder(memory.NewGoAllocator(), arrow.BinaryTypes.Binary)
	bb.Append([]byte("payload"))
	arr := bb.NewArray()
	w2.Write(array.NewRecordBatch(env, []arrow.Array{arr}, 1))
	w2.Close()
	if _, got, ok := ReadUnaryResult(lr.Bytes()); !ok || string(got) != "payload" {
		t.Errorf("logs then result: ok=%v got %q", ok, got)
	}
	// stream tokens over a header stream followed by a data stream
	hdr := c01Stream(schema, c01Batch(schema, 1))
	empty := emptyBatch(schema)
	tok := array.NewRecordBatchWithMetadata(schema, empty.Columns(), 0, arrow.NewMetadata([]string{MetaStreamState, MetaCallState}, []string{"CURSOR", "CALL"}))
	data := c01Stream(schema, c01Batch(schema, 2), tok)
	st, cs := FindStreamTokens(append(append([]byte{}, hdr...), data...))
	if string(st) != "CURSOR" || string(cs) != "CALL" {
		t.Errorf("FindStreamTokens over two streams: %q %q", st, cs)
	}
	if string(FindStateToken(data)) != "CURSOR" || string(FindCallStateToken(data)) != "CALL" {
		t.Errorf("FindStateToken/FindCallStateToken: %q %q", FindStateToken(data), FindCallStateToken(data))
	}
	if st, cs := FindStreamTokens(hdr); st != nil || cs != nil {
		t.Errorf("tokens found where none were stamped: %q %q", st, cs)
	}
}
