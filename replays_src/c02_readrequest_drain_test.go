package vgirpc

// Replay for property C02 (ReadRequest): whatever a request stream contains after its first
// batch (further batches, a client that sends n batches) is consumed with that request, so the
// next request on the same connection is read from its own first byte and served correctly;
// nothing a failed or odd request leaves behind is read as part of the next one.

import (
	"bytes"
	"context"
	"testing"

	"github.com/apache/arrow-go/v18/arrow"
	"github.com/apache/arrow-go/v18/arrow/array"
	"github.com/apache/arrow-go/v18/arrow/ipc"
	"github.com/apache/arrow-go/v18/arrow/memory"
)

type c02rParams struct {
	Value int64 `vgirpc:"value"`
}

var c02rSchema = arrow.NewSchema([]arrow.Field{{Name: "value", Type: arrow.PrimitiveTypes.Int64}}, nil)

func c02rStream(t *testing.T, method string, value int64, batches int, version string) []byte {
	var buf bytes.Buffer
	w := ipc.NewWriter(&buf, ipc.WithSchema(c02rSchema))
	for i := 0; i < batches; i++ {
		b := array.NewInt64Builder(memory.NewGoAllocator())
		b.Append(value)
		col := b.NewArray()
		b.Release()
		keys, vals := []string{MetaMethod, MetaRequestVersion}, []string{method, version}
		rec := array.NewRecordBatchWithMetadata(c02rSchema, []arrow.Array{col}, 1, arrow.NewMetadata(keys, vals))
		col.Release()
		if err := w.Write(rec); err != nil {
			t.Fatal(err)
		}
		rec.Release()
	}
	w.Close()
	return buf.Bytes()
}

// c02rResponses splits a pipe output into its IPC streams: value of the data row or the exception text.
func c02rResponses(body []byte) (out []string) {
	rest := body
	for len(rest) > 0 {
		rd := bytes.NewReader(rest)
		r, err := ipc.NewReader(rd)
		if err != nil {
			return append(out, "unreadable: "+err.Error())
		}
		res := "empty"
		for r.Next() {
			rec := r.RecordBatch()
			if rb, ok := rec.(arrow.RecordBatchWithMetadata); ok {
				if lv, _ := rb.Metadata().GetValue(MetaLogLevel); lv == string(LogException) {
					m, _ := rb.Metadata().GetValue(MetaLogMessage)
					res = "error: " + m
					continue
				}
			}
			if rec.NumRows() == 1 && rec.NumCols() == 1 {
				if c, ok := rec.Column(0).(*array.Int64); ok {
					res = "value " + string(rune('0'+c.Value(0)))
				}
			}
		}
		r.Release()
		out = append(out, res)
		if rd.Len() == 0 || rd.Len() == len(rest) {
			break
		}
		rest = rest[len(rest)-rd.Len():]
	}
	return
}

func TestVerifReplay(t *testing.T) {
	s := NewServer()
	Unary(s, "echo", func(_ context.Context, _ *CallContext, p c02rParams) (int64, error) { return p.Value, nil })

	// 1. ReadRequest itself: a stream with k batches is consumed whole; the next read sees the next stream
	for _, k := range []int{1, 2, 3, 7} {
		in := bytes.NewReader(append(c02rStream(t, "echo", 1, k, ProtocolVersion), c02rStream(t, "echo", 2, 1, ProtocolVersion)...))
		first, err := ReadRequest(in)
		if err == nil && first != nil && first.Batch != nil {
			first.Batch.Release()
		}
		second, err2 := ReadRequest(in)
		if err2 != nil {
			t.Errorf("%d batches in the first request: the next request on the connection could not be read: %v (first: %v)", k, err2, err)
			continue
		}
		if v := second.Batch.Column(0).(*array.Int64).Value(0); second.Method != "echo" || v != 2 {
			t.Errorf("%d batches in the first request: the next request read as method %q value %d", k, second.Method, v)
		}
		second.Batch.Release()
		if in.Len() != 0 {
			t.Errorf("%d batches: %d bytes left unread after two requests", k, in.Len())
		}
	}

	// 2. whole connection: odd / failing requests followed by good ones; every request gets exactly one
	// response, in order, and the good ones are served correctly
	type req struct {
		bytes []byte
		want  string // "value N" or "error"
	}
	seq := []req{
		{c02rStream(t, "echo", 1, 1, ProtocolVersion), "value 1"},
		{c02rStream(t, "echo", 2, 3, ProtocolVersion), "value 2"},  // extra batches are part of this request
		{c02rStream(t, "nosuch", 3, 2, ProtocolVersion), "error"}, // unknown method, extra batch
		{c02rStream(t, "echo", 4, 1, ProtocolVersion), "value 4"},
		{c02rStream(t, "echo", 5, 2, "0"), "error"}, // wrong request version, extra batch
		{c02rStream(t, "echo", 6, 1, ProtocolVersion), "value 6"},
	}
	var all []byte
	for _, r := range seq {
		all = append(all, r.bytes...)
	}
	var out bytes.Buffer
	s.Serve(bytes.NewReader(all), &out)
	got := c02rResponses(out.Bytes())
	if len(got) != len(seq) {
		t.Fatalf("%d requests on the connection, %d responses: %q", len(seq), len(got), got)
	}
	for i, r := range seq {
		ok := got[i] == r.want || (r.want == "error" && len(got[i]) > 6 && got[i][:6] == "error:")
		if !ok {
			t.Errorf("request %d: response %q, want %s (all responses: %q)", i+1, got[i], r.want, got)
		}
	}
}
