package vgirpc

// Replay for property C02 (failures answered with an error leave the connection in frame): a
// stream call refused at a gate that knows the method is a stream — here the application
// protocol-version gate — must consume the client's input stream like every other stream-init
// failure does, so that the next request on the connection is served.

import (
	"bytes"
	"context"
	"testing"

	"github.com/apache/arrow-go/v18/arrow"
	"github.com/apache/arrow-go/v18/arrow/array"
	"github.com/apache/arrow-go/v18/arrow/ipc"
	"github.com/apache/arrow-go/v18/arrow/memory"
)

type c02vParams struct {
	Value int64 `vgirpc:"value"`
}

var c02vSchema = arrow.NewSchema([]arrow.Field{{Name: "value", Type: arrow.PrimitiveTypes.Int64}}, nil)

func c02vRequest(t *testing.T, method string, v int64, version string) []byte {
	b := array.NewInt64Builder(memory.NewGoAllocator())
	b.Append(v)
	col := b.NewArray()
	b.Release()
	rec := array.NewRecordBatch(c02vSchema, []arrow.Array{col}, 1)
	col.Release()
	defer rec.Release()
	var buf bytes.Buffer
	if err := WriteRequest(&buf, method, rec, version); err != nil {
		t.Fatal(err)
	}
	return buf.Bytes()
}

func c02vTicks(t *testing.T, n int) []byte {
	var buf bytes.Buffer
	empty := arrow.NewSchema(nil, nil)
	w := ipc.NewWriter(&buf, ipc.WithSchema(empty))
	for i := 0; i < n; i++ {
		tick := array.NewRecordBatch(empty, nil, 0)
		if err := w.Write(tick); err != nil {
			t.Fatal(err)
		}
		tick.Release()
	}
	w.Close()
	return buf.Bytes()
}

func c02vResponses(body []byte) (out []string) {
	rest := body
	for len(rest) > 0 {
		rd := bytes.NewReader(rest)
		r, err := ipc.NewReader(rd)
		if err != nil {
			return append(out, "unreadable: "+err.Error())
		}
		res := "empty"
		for r.Next() {
			rec := r.RecordBatch()
			if rb, ok := rec.(arrow.RecordBatchWithMetadata); ok {
				if lv, _ := rb.Metadata().GetValue(MetaLogLevel); lv == string(LogException) {
					m, _ := rb.Metadata().GetValue(MetaLogMessage)
					res = "error: " + m
					continue
				}
			}
			if rec.NumRows() == 1 && rec.NumCols() == 1 {
				if c, ok := rec.Column(0).(*array.Int64); ok {
					res = "value " + string(rune('0'+c.Value(0)))
				}
			}
		}
		r.Release()
		out = append(out, res)
		if rd.Len() == 0 || rd.Len() == len(rest) {
			break
		}
		rest = rest[len(rest)-rd.Len():]
	}
	return
}

func TestVerifReplay(t *testing.T) {
	s := NewServer()
	s.SetProtocolVersion("2.3.0")
	Unary(s, "echo", func(_ context.Context, _ *CallContext, p c02vParams) (int64, error) { return p.Value, nil })
	Producer[c02vParams](s, "prod", c02vSchema, func(context.Context, *CallContext, c02vParams) (*StreamResult, error) {
		return nil, &RpcError{Type: "ValueError", Message: "never reached"}
	})
	for _, ticks := range []int{0, 1, 3} {
		var in []byte
		in = append(in, c02vRequest(t, "echo", 1, "2.3.0")...)
		in = append(in, c02vRequest(t, "prod", 2, "9.9.9")...) // refused at the version gate
		in = append(in, c02vTicks(t, ticks)...)                 // the client's input stream for that call
		in = append(in, c02vRequest(t, "echo", 3, "2.3.1")...)
		var out bytes.Buffer
		s.Serve(bytes.NewReader(in), &out)
		got := c02vResponses(out.Bytes())
		if len(got) != 3 || got[0] != "value 1" || len(got[1]) < 6 || got[1][:6] != "error:" || got[2] != "value 3" {
			t.Errorf("%d ticks after the refused stream call: responses %q, want [value 1, error, value 3]", ticks, got)
		}
	}
}
