package vgirpc

// Replay for property C34: the real allocator against a reference model of the documented
// first-fit table (sorted, disjoint, inside the data area, at most ShmMaxAllocs entries; an
// allocation fails only when no gap fits; a free removes exactly the region starting at the
// offset and otherwise fails and changes nothing), over a long deterministic operation
// sequence that includes stale, interior and never-allocated offsets, holes in front of live
// entries, a full segment and a full table. The table is decoded from the raw header bytes.

import (
	"encoding/binary"
	"testing"
)

type c34Ref struct {
	size uint64
	regs [][2]uint64
}

func (r *c34Ref) alloc(sz int) (uint64, bool) {
	if sz <= 0 || len(r.regs) >= ShmMaxAllocs {
		return 0, false
	}
	prev := uint64(ShmHeaderSize)
	for i, e := range r.regs {
		if e[0]-prev >= uint64(sz) {
			out := append([][2]uint64{}, r.regs[:i]...)
			out = append(out, [2]uint64{prev, uint64(sz)})
			r.regs = append(out, r.regs[i:]...)
			return prev, true
		}
		prev = e[0] + e[1]
	}
	if r.size-prev >= uint64(sz) {
		r.regs = append(r.regs, [2]uint64{prev, uint64(sz)})
		return prev, true
	}
	return 0, false
}

func (r *c34Ref) free(off uint64) bool {
	for i, e := range r.regs {
		if e[0] == off {
			r.regs = append(append([][2]uint64{}, r.regs[:i]...), r.regs[i+1:]...)
			return true
		}
	}
	return false
}

func c34Raw(data []byte) [][2]uint64 {
	n := int(binary.LittleEndian.Uint32(data[16:20]))
	out := make([][2]uint64, n)
	for i := 0; i < n; i++ {
		out[i][0] = binary.LittleEndian.Uint64(data[24+16*i:])
		out[i][1] = binary.LittleEndian.Uint64(data[32+16*i:])
	}
	return out
}

func c34Run(t *testing.T, size int, steps int, seed uint64, maxSz int) {
	seg := &ShmSegment{name: "replay", size: size, data: make([]byte, size)}
	if err := seg.initializeHeader(); err != nil {
		t.Fatal(err)
	}
	ref := &c34Ref{size: uint64(size)}
	rnd := seed
	next := func(n int) int {
		rnd = rnd*6364136223846793005 + 1442695040888963407
		return int((rnd >> 33) % uint64(n))
	}
	var freed []uint64
	for step := 0; step < steps; step++ {
		op := next(10)
		switch {
		case op < 5:
			sz := next(maxSz) - 1 // includes 0 and -1
			seg.mu.Lock()
			off, ok := seg.allocateLocked(sz)
			seg.mu.Unlock()
			roff, rok := ref.alloc(sz)
			if ok != rok || (ok && off != roff) {
				t.Fatalf("step %d: allocate(%d) = (%d,%v), first-fit model says (%d,%v); table %v", step, sz, off, ok, roff, rok, ref.regs)
			}
		default:
			var off uint64
			k := next(6)
			switch {
			case len(ref.regs) > 0 && k < 3:
				off = ref.regs[next(len(ref.regs))][0]
			case len(ref.regs) > 0 && k == 3:
				e := ref.regs[next(len(ref.regs))]
				off = e[0] + 1 + uint64(next(int(e[1]))) // interior or one past the end
			case len(freed) > 0 && k == 4:
				off = freed[next(len(freed))] // stale
			default:
				off = uint64(ShmHeaderSize + next(size))
			}
			err := seg.FreeOffset(off)
			rok := ref.free(off)
			if (err == nil) != rok {
				t.Fatalf("step %d: free(%d) err=%v, model removed=%v; table %v", step, off, err, rok, ref.regs)
			}
			if rok {
				freed = append(freed, off)
			}
		}
		got := c34Raw(seg.data)
		if len(got) != len(ref.regs) {
			t.Fatalf("step %d: header table %v, model %v", step, got, ref.regs)
		}
		prev := uint64(ShmHeaderSize)
		for i := range got {
			if got[i] != ref.regs[i] {
				t.Fatalf("step %d: header table %v, model %v", step, got, ref.regs)
			}
			if got[i][0] < prev || got[i][1] == 0 || got[i][0]+got[i][1] > uint64(size) {
				t.Fatalf("step %d: entry %d of %v not sorted/disjoint/in the data area", step, i, got)
			}
			prev = got[i][0] + got[i][1]
		}
		if n := seg.numAllocs(); n != len(got) || n > ShmMaxAllocs {
			t.Fatalf("step %d: count %d", step, n)
		}
	}
}

func TestVerifReplay(t *testing.T) {
	c34Run(t, ShmHeaderSize+4096, 20000, 1, 600)  // small data area: fills up, many holes
	c34Run(t, ShmHeaderSize+1<<20, 20000, 2, 5000) // roomy
	c34Run(t, ShmHeaderSize+8192, 30000, 3, 4)    // tiny regions: reaches the 4094-entry table limit? (8192 bytes: no)
	// full table: ShmMaxAllocs one-byte regions, then one more must fail, a free reopens a slot
	size := ShmHeaderSize + 3*ShmMaxAllocs
	seg := &ShmSegment{name: "replay", size: size, data: make([]byte, size)}
	if err := seg.initializeHeader(); err != nil {
		t.Fatal(err)
	}
	for i := 0; i < ShmMaxAllocs; i++ {
		seg.mu.Lock()
		off, ok := seg.allocateLocked(1)
		seg.mu.Unlock()
		if !ok || off != uint64(ShmHeaderSize+i) {
			t.Fatalf("fill %d: (%d,%v)", i, off, ok)
		}
	}
	seg.mu.Lock()
	_, ok := seg.allocateLocked(1)
	seg.mu.Unlock()
	if ok {
		t.Fatalf("allocation beyond ShmMaxAllocs succeeded")
	}
	if err := seg.FreeOffset(uint64(ShmHeaderSize + 7)); err != nil {
		t.Fatalf("free in a full table: %v", err)
	}
	seg.mu.Lock()
	off, ok := seg.allocateLocked(1)
	seg.mu.Unlock()
	if !ok || off != uint64(ShmHeaderSize+7) {
		t.Fatalf("first fit after a free in a full table: (%d,%v)", off, ok)
	}
	if n := len(c34Raw(seg.data)); n != ShmMaxAllocs {
		t.Fatalf("count %d", n)
	}
}
