package vgirpc

// Replay for property C06 (pipe streams): an exchange yields one data batch per input in order,
// a producer one per tick until it finishes; a turn that fails — with ANY error value (plain,
// wrapping a context or io sentinel, an RpcError), by panicking, by emitting no data batch, by
// emitting two, or by calling Finish on an exchange — ends the stream with exactly one exception
// batch; a cancel batch runs the cancel hook once and no further turn.

import (
	"bytes"
	"context"
	"errors"
	"fmt"
	"io"
	"os"
	"testing"

	"github.com/apache/arrow-go/v18/arrow"
	"github.com/apache/arrow-go/v18/arrow/array"
	"github.com/apache/arrow-go/v18/arrow/ipc"
	"github.com/apache/arrow-go/v18/arrow/memory"
)

type c06Params struct {
	Value int64 `vgirpc:"value"`
}

var c06Schema = arrow.NewSchema([]arrow.Field{{Name: "value", Type: arrow.PrimitiveTypes.Int64}}, nil)

func c06Batch(v int64) arrow.RecordBatch {
	b := array.NewInt64Builder(memory.NewGoAllocator())
	b.Append(v)
	col := b.NewArray()
	b.Release()
	rec := array.NewRecordBatch(c06Schema, []arrow.Array{col}, 1)
	col.Release()
	return rec
}

type c06State struct {
	calls, cancels int
	failOn         int
	fail           func(out *OutputCollector) error
}

func (s *c06State) turn(out *OutputCollector, v int64) error {
	s.calls++
	if s.calls == s.failOn {
		return s.fail(out)
	}
	return out.EmitMap(map[string][]interface{}{"value": {v}})
}
func (s *c06State) Exchange(_ context.Context, in arrow.RecordBatch, out *OutputCollector, _ *CallContext) error {
	return s.turn(out, in.Column(0).(*array.Int64).Value(0)+1)
}
func (s *c06State) OnCancel(context.Context, *CallContext) error { s.cancels++; return nil }

type c06Producer struct {
	c06State
	until int
}

func (p *c06Producer) Produce(_ context.Context, out *OutputCollector, _ *CallContext) error {
	if p.calls >= p.until {
		p.calls++
		return out.Finish()
	}
	return p.turn(out, int64(p.calls))
}

func c06Serve(t *testing.T, s *Server, method string, inputSchema *arrow.Schema, turns int, cancelAt int) (data []int64, exceptions int) {
	var req bytes.Buffer
	p := c06Batch(1)
	if err := WriteRequest(&req, method, p, ""); err != nil {
		t.Fatal(err)
	}
	p.Release()
	w := ipc.NewWriter(&req, ipc.WithSchema(inputSchema))
	for i := 0; i < turns; i++ {
		var rec arrow.RecordBatch
		if i == cancelAt {
			rec = array.NewRecordBatchWithMetadata(inputSchema, emptyBatch(inputSchema).Columns(), 0, arrow.NewMetadata([]string{MetaCancel}, []string{"1"}))
		} else if inputSchema.NumFields() == 0 {
			rec = array.NewRecordBatch(inputSchema, nil, 0)
		} else {
			rec = c06Batch(int64(100 + i))
		}
		w.Write(rec)
		rec.Release()
	}
	w.Close()
	var resp bytes.Buffer
	s.Serve(&req, &resp)
	r, err := ipc.NewReader(bytes.NewReader(resp.Bytes()))
	if err != nil {
		t.Fatalf("%s: unreadable output: %v", method, err)
	}
	defer r.Release()
	for r.Next() {
		rb := r.RecordBatch()
		if m, ok := rb.(arrow.RecordBatchWithMetadata); ok {
			if lv, found := m.Metadata().GetValue(MetaLogLevel); found {
				if lv == string(LogException) {
					exceptions++
				}
				continue
			}
		}
		if rb.NumRows() > 0 {
			data = append(data, rb.Column(0).(*array.Int64).Value(0))
		} else {
			data = append(data, -1)
		}
	}
	return
}

func TestVerifReplay(t *testing.T) {
	fails := map[string]func(out *OutputCollector) error{
		"plain":        func(*OutputCollector) error { return errors.New("boom") },
		"ctxcanceled":  func(*OutputCollector) error { return fmt.Errorf("lookup: %w", context.Canceled) },
		"deadline":     func(*OutputCollector) error { return fmt.Errorf("lookup: %w", context.DeadlineExceeded) },
		"eof":          func(*OutputCollector) error { return fmt.Errorf("read: %w", io.EOF) },
		"unexpeof":     func(*OutputCollector) error { return io.ErrUnexpectedEOF },
		"closedpipe":   func(*OutputCollector) error { return fmt.Errorf("w: %w", io.ErrClosedPipe) },
		"oserr":        func(*OutputCollector) error { return fmt.Errorf("w: %w", os.ErrDeadlineExceeded) },
		"rpcerror":     func(*OutputCollector) error { return &RpcError{Type: "ValueError", Message: "bad"} },
		"panic":        func(*OutputCollector) error { panic("kaboom") },
		"nodata":       func(*OutputCollector) error { return nil },
		"twodata":      func(out *OutputCollector) error { out.Emit(c06Batch(1)); return out.Emit(c06Batch(2)) },
		"finishonexch": func(out *OutputCollector) error { return out.Finish() },
	}
	for name, f := range fails {
		st := &c06State{failOn: 2, fail: f}
		s := NewServer()
		Exchange(s, "ex", c06Schema, c06Schema, func(context.Context, *CallContext, c06Params) (*StreamResult, error) {
			return &StreamResult{OutputSchema: c06Schema, InputSchema: c06Schema, State: st}, nil
		})
		data, exc := c06Serve(t, s, "ex", c06Schema, 4, -1)
		if len(data) != 1 || data[0] != 101 || exc != 1 || st.calls != 2 {
			t.Errorf("exchange, turn 2 fails with %s: data %v, %d exception batches, %d turns run; want [101], 1, 2", name, data, exc, st.calls)
		}
		if name == "finishonexch" {
			continue
		}
		pr := &c06Producer{c06State: c06State{failOn: 3, fail: f}, until: 10}
		s2 := NewServer()
		Producer(s2, "pr", c06Schema, func(context.Context, *CallContext, c06Params) (*StreamResult, error) {
			return &StreamResult{OutputSchema: c06Schema, State: pr}, nil
		})
		data, exc = c06Serve(t, s2, "pr", arrow.NewSchema(nil, nil), 6, -1)
		if len(data) != 2 || exc != 1 || pr.calls != 3 {
			t.Errorf("producer, turn 3 fails with %s: data %v, %d exception batches, %d turns run; want 2 batches, 1, 3", name, data, exc, pr.calls)
		}
	}
	// healthy streams
	st := &c06State{}
	s := NewServer()
	Exchange(s, "ex", c06Schema, c06Schema, func(context.Context, *CallContext, c06Params) (*StreamResult, error) {
		return &StreamResult{OutputSchema: c06Schema, InputSchema: c06Schema, State: st}, nil
	})
	if data, exc := c06Serve(t, s, "ex", c06Schema, 5, -1); exc != 0 || fmt.Sprint(data) != "[101 102 103 104 105]" {
		t.Errorf("exchange: data %v, %d exceptions", data, exc)
	}
	pr := &c06Producer{until: 3}
	s2 := NewServer()
	Producer(s2, "pr", c06Schema, func(context.Context, *CallContext, c06Params) (*StreamResult, error) {
		return &StreamResult{OutputSchema: c06Schema, State: pr}, nil
	})
	if data, exc := c06Serve(t, s2, "pr", arrow.NewSchema(nil, nil), 8, -1); exc != 0 || fmt.Sprint(data) != "[0 1 2]" || pr.calls != 4 {
		t.Errorf("producer: data %v, %d exceptions, %d turns; want [0 1 2], 0, 4 (stream ends right after Finish)", data, exc, pr.calls)
	}
	// cancel on the third input: hook once, no further turn
	st2 := &c06State{}
	s3 := NewServer()
	Exchange(s3, "ex", c06Schema, c06Schema, func(context.Context, *CallContext, c06Params) (*StreamResult, error) {
		return &StreamResult{OutputSchema: c06Schema, InputSchema: c06Schema, State: st2}, nil
	})
	if data, exc := c06Serve(t, s3, "ex", c06Schema, 5, 2); exc != 0 || len(data) != 2 || st2.cancels != 1 || st2.calls != 2 {
		t.Errorf("cancel: data %v, %d exceptions, hook ran %d times, %d turns; want 2 batches, 0, 1, 2", data, exc, st2.cancels, st2.calls)
	}
}
