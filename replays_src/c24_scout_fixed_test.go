// Scout tests for property C24 (credential extractors accept exactly what they
// are configured to accept).
//
// This file belongs in the package directory  vgirpc/  of the main module
// (package vgirpc, internal test so it can reach extractCN).
//
// Run:  go test ./vgirpc -run TestScout -count=1 -v
package vgirpc

import (
	"net/http"
	"testing"
)

// scoutXfccPrincipal runs the default (no Validate callback) XFCC
// authenticator over the given header lines and returns the principal.
func scoutXfccPrincipal(t *testing.T, sel string, headerLines ...string) string {
	t.Helper()
	auth, err := MtlsAuthenticateXfcc(MtlsAuthenticateXfccConfig{SelectElement: sel})
	if err != nil {
		t.Fatalf("MtlsAuthenticateXfcc: %v", err)
	}
	r, err := http.NewRequest("POST", "http://example.invalid/", nil)
	if err != nil {
		t.Fatal(err)
	}
	for _, l := range headerLines {
		r.Header.Add("X-Forwarded-Client-Cert", l)
	}
	ac, err := auth(r)
	if err != nil {
		t.Fatalf("authenticator rejected %q: %v", headerLines, err)
	}
	return ac.Principal
}

// F1a. A certificate whose CN contains a comma.  Envoy renders the subject
// with X509_NAME_print_ex(XN_FLAG_RFC2253), i.e. for the DN {O=Evil Corp,
// CN="admin, x"} the header carries   Subject="CN=admin\, x,O=Evil Corp"
// (verified with `openssl x509 -subject -nameopt RFC2253`).  The only escape
// the XFCC grammar defines inside a quoted value is \" ; the \, belongs to the
// DN.  ParseXfcc strips *every* backslash, so extractCN sees an unescaped
// comma and truncates the CN: the principal becomes "admin".
func TestScoutXfccEscapedCommaInCNTruncatesPrincipal(t *testing.T) {
	got := scoutXfccPrincipal(t, "", `By=spiffe://td/srv;Hash=abc;Subject="CN=admin\, x,O=Evil Corp"`)
	if got != `admin, x` && got != `admin\, x` {
		t.Fatalf("principal = %q; the subject's CN is \"admin, x\" (RFC 4514 form `admin\\, x`)", got)
	}
}

// F1b. Same root cause, other direction: an escaped comma inside a *different*
// attribute lets that attribute's value inject a CN.  DN {CN=eve, O="Foo,
// CN=admin"} is rendered by OpenSSL/Envoy as  O=Foo\, CN=admin,CN=eve .
// The subject has exactly one CN, "eve"; the authenticator says "admin".
func TestScoutXfccEscapedCommaInjectsCN(t *testing.T) {
	got := scoutXfccPrincipal(t, "", `Hash=abc;Subject="O=Foo\, CN=admin,CN=eve"`)
	if got != "eve" {
		t.Fatalf("principal = %q; the only CN in the subject is \"eve\"", got)
	}
}

// F1c. Same root cause: RFC 4514 hex escapes (OpenSSL's RFC2253 mode emits
// them for every non-ASCII byte: CN=José -> CN=Jos\C3\A9) lose their
// backslashes, yielding a principal that is neither the escaped nor the
// decoded CN.
func TestScoutXfccHexEscapedCNMangled(t *testing.T) {
	got := scoutXfccPrincipal(t, "", `Hash=abc;Subject="CN=Jos\C3\A9,O=x"`)
	if got != "José" && got != `Jos\C3\A9` {
		t.Fatalf("principal = %q; want \"José\" (or the escaped form `Jos\\C3\\A9`)", got)
	}
	// The parsed Subject itself is no longer a DN that denotes the certificate's subject.
	if s := ParseXfcc(`Subject="CN=Jos\C3\A9,O=x"`)[0].Subject; s != `CN=Jos\C3\A9,O=x` {
		t.Errorf("Subject = %q; want the DN unchanged (`CN=Jos\\C3\\A9,O=x`)", s)
	}
}

// F2. "URL-encoded fields are decoded": URL (percent) decoding leaves '+'
// alone; only HTML form decoding maps '+' to ' '.  ParseXfcc uses
// url.QueryUnescape, so a URI SAN containing '+' is silently rewritten and two
// different SAN URIs ("a+b" and "a b"/"a%20b") collapse into one identity.
func TestScoutXfccPlusInURIBecomesSpace(t *testing.T) {
	els := ParseXfcc(`Hash=abc;URI=https://idp.example/users/a+b;By=https://idp.example/p+q`)
	if len(els) != 1 {
		t.Fatalf("got %d elements", len(els))
	}
	if els[0].URI != "https://idp.example/users/a+b" {
		t.Errorf("URI = %q; want %q", els[0].URI, "https://idp.example/users/a+b")
	}
	if els[0].By != "https://idp.example/p+q" {
		t.Errorf("By = %q; want %q", els[0].By, "https://idp.example/p+q")
	}
	a := ParseXfcc(`URI=https://idp.example/users/a+b`)[0].URI
	b := ParseXfcc(`URI=https://idp.example/users/a%20b`)[0].URI
	if a == b {
		t.Errorf("distinct SAN URIs a+b and a%%20b both parse to %q", a)
	}
}

// F3 (minor). Multi-valued RDN: OpenSSL/Envoy join the AVAs of one RDN with
// '+'.  extractCN only splits on ','; a CN that is not the first AVA of its
// RDN is not found (principal "", still Authenticated=true) and a CN that is
// first swallows the following AVA.
func TestScoutXfccMultiValuedRDN(t *testing.T) {
	if got := scoutXfccPrincipal(t, "", `Hash=abc;Subject="OU=x+CN=bob,O=y"`); got != "bob" {
		t.Errorf("principal = %q; the subject's CN is \"bob\"", got)
	}
	if got := scoutXfccPrincipal(t, "", `Hash=abc;Subject="CN=bob+OU=x,O=y"`); got != "bob" {
		t.Errorf("principal = %q; the subject's CN is \"bob\"", got)
	}
}

// F4 (borderline, transport-level). XFCC is a comma-separated list header, so
// per RFC 9110 s5.3 two field lines are equivalent to one line joined with
// ','.  The authenticator reads only the first line (Header.Get), so with
// SelectElement "last" (= nearest proxy) the element actually selected is the
// last one of the *first* line.
func TestScoutXfccLastAcrossHeaderLines(t *testing.T) {
	joined := scoutXfccPrincipal(t, "last", `Hash=a;Subject="CN=client", Hash=b;Subject="CN=edge-proxy"`)
	if joined != "edge-proxy" {
		t.Fatalf("sanity: joined form gives %q", joined)
	}
	split := scoutXfccPrincipal(t, "last", `Hash=a;Subject="CN=client"`, `Hash=b;Subject="CN=edge-proxy"`)
	if split != "edge-proxy" {
		t.Errorf("principal = %q with two header lines; the last element is CN=edge-proxy", split)
	}
}

// Controls that PASS (kept to document what was examined and found correct).
func TestScoutControlsPass(t *testing.T) {
	// quoted commas / semicolons / escaped quotes never split
	els := ParseXfcc(`By=spiffe://a;Hash=h1;Subject="CN=a;b,O=\"q\",C=US";URI=spiffe://x , Hash=h2;DNS=a.example;DNS=b.example;Cert="-----BEGIN%20CERTIFICATE-----%0AAB%2BC%2F%3D%0A"`)
	if len(els) != 2 {
		t.Fatalf("got %d elements: %#v", len(els), els)
	}
	if els[0].Subject != `CN=a;b,O="q",C=US` || els[0].Hash != "h1" || els[0].URI != "spiffe://x" || els[0].By != "spiffe://a" {
		t.Errorf("element 0 = %#v", els[0])
	}
	if els[1].Hash != "h2" || len(els[1].DNS) != 2 || els[1].Cert != "-----BEGIN CERTIFICATE-----\nAB+C/=\n" {
		t.Errorf("element 1 = %#v", els[1])
	}
	// subject ending in an (escaped) backslash does not swallow the closing quote
	els = ParseXfcc(`Hash=h;Subject="CN=a\\";URI=spiffe://y`)
	if len(els) != 1 || els[0].URI != "spiffe://y" {
		t.Errorf("trailing backslash: %#v", els)
	}

	// static bearer: exact, byte-for-byte, correct identity
	alice, bob := &AuthContext{Principal: "alice"}, &AuthContext{Principal: "bob"}
	auth := BearerAuthenticateStatic(map[string]*AuthContext{"tok-a": alice, "tok-b": bob, "tok-a ": bob})
	try := func(h string) (*AuthContext, error) {
		r, _ := http.NewRequest("GET", "http://example.invalid/", nil)
		if h != "\x00unset" {
			r.Header["Authorization"] = []string{h}
		}
		return auth(r)
	}
	for h, want := range map[string]*AuthContext{
		"Bearer tok-a": alice, "Bearer tok-b": bob, "Bearer tok-a ": bob,
		"Bearer tok-": nil, "Bearer tok-a\x00": nil, "Bearer  tok-a": nil, "bearer tok-a": nil,
		"Bearer": nil, "Bearer ": nil, "Bearertok-a": nil, "Basic tok-a": nil, " Bearer tok-a": nil,
		"Bearer TOK-A": nil, "Bearer tok-a,tok-b": nil, "\x00unset": nil, "": nil,
	} {
		ac, err := try(h)
		if want == nil {
			if err == nil {
				t.Errorf("%q accepted as %v", h, ac)
			} else if re, ok := err.(*RpcError); !ok || re.Type != "ValueError" {
				t.Errorf("%q: error %v is not a ValueError", h, err)
			}
			continue
		}
		if err != nil || ac != want {
			t.Errorf("%q: got %v, %v; want %v", h, ac, err, want.Principal)
		}
	}
}

// TestVerifReplay: the reproducers of the two repaired defects (every backslash stripped from a quoted value; '+' form-decoded to a space) and the scout's controls; TestScoutXfccMultiValuedRDN and TestScoutXfccLastAcrossHeaderLines reproduce findings that are not repaired and are not run
func TestVerifReplay(t *testing.T) {
	t.Run("TestScoutXfccEscapedCommaInCNTruncatesPrincipal", TestScoutXfccEscapedCommaInCNTruncatesPrincipal)
	t.Run("TestScoutXfccEscapedCommaInjectsCN", TestScoutXfccEscapedCommaInjectsCN)
	t.Run("TestScoutXfccHexEscapedCNMangled", TestScoutXfccHexEscapedCNMangled)
	t.Run("TestScoutXfccPlusInURIBecomesSpace", TestScoutXfccPlusInURIBecomesSpace)
	t.Run("TestScoutControlsPass", TestScoutControlsPass)
}
