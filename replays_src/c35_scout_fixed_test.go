// Belongs in: <worktree>/vgirpc/  (package vgirpc, internal test; unix only)
//
// Scout tests for property C35 (shared-memory batches read back identically,
// pointers are safe).
//
//   TestScoutOversizedAttach_Resolve / _Server  -- FINDING 1 (fatal SIGBUS, read
//       outside the real segment because ShmAttach trusts the advertised size)
//   TestScoutReadBatchNegativeOrOverflow         -- FINDING 2 (exported ReadBatch
//       panics instead of returning an error; ResolveShmBatch only hides this
//       behind recover())

//go:build unix

package vgirpc

import (
	"bytes"
	"context"
	"encoding/binary"
	"fmt"
	"os"
	"os/exec"
	"strconv"
	"testing"

	"github.com/apache/arrow-go/v18/arrow"
	"github.com/apache/arrow-go/v18/arrow/array"
	"github.com/apache/arrow-go/v18/arrow/ipc"
)

const (
	scoutRealSize    = ShmHeaderSize + 4096 // size of the OS object
	scoutClaimedSize = 1 << 30              // size the peer advertises
	scoutBadOffset   = 1 << 29              // < claimed size, far beyond the OS object
)

// scoutMakeLyingSegment creates a small real segment whose header (which the
// owning peer controls) states the larger, advertised data size.
func scoutMakeLyingSegment(t *testing.T) *ShmSegment {
	t.Helper()
	owner, err := ShmCreate(scoutRealSize)
	if err != nil {
		t.Fatalf("ShmCreate: %v", err)
	}
	t.Cleanup(func() { _ = owner.Close() })
	binary.LittleEndian.PutUint64(owner.data[8:16], uint64(scoutClaimedSize-ShmHeaderSize))
	return owner
}

func scoutRunChild(t *testing.T, testName, segName string) (string, error) {
	t.Helper()
	cmd := exec.Command(os.Args[0], "-test.run", "^"+testName+"$", "-test.v")
	cmd.Env = append(os.Environ(), "SCOUT_CHILD_SEG="+segName)
	out, err := cmd.CombinedOutput()
	s := string(out)
	if len(s) > 1200 {
		s = s[:1200] + "\n...[truncated]"
	}
	return s, err
}

// FINDING 1a: ResolveShmBatch on a segment attached with an advertised size
// larger than the OS object. The pointer's offset is outside the real segment,
// ReadBatch's bounds check (against the advertised size) passes, the read
// faults with SIGBUS -> fatal error, not recoverable by ResolveShmBatch.
func TestScoutOversizedAttach_Resolve(t *testing.T) {
	if name := os.Getenv("SCOUT_CHILD_SEG"); name != "" {
		att, err := ShmAttach(name, scoutClaimedSize, false)
		if err != nil {
			fmt.Println("CHILD: attach refused:", err)
			return
		}
		schema := arrow.NewSchema([]arrow.Field{{Name: "a", Type: arrow.PrimitiveTypes.Int64}}, nil)
		ptr := makeShmPointerBatch(schema, scoutBadOffset, 64, nil)
		_, _, _, err = ResolveShmBatch(ptr, att)
		fmt.Println("CHILD: resolve returned error:", err)
		return
	}
	owner := scoutMakeLyingSegment(t)
	out, err := scoutRunChild(t, "TestScoutOversizedAttach_Resolve", owner.Name())
	t.Logf("child exit: %v\n%s", err, out)
	if err != nil {
		t.Fatalf("resolving a pointer that lies outside the real segment crashed the process (want: error): %v", err)
	}
}

// FINDING 1b: the same through the real server loop (pipe transport): one
// request that advertises (segment_name, segment_size) and carries a pointer.
func TestScoutOversizedAttach_Server(t *testing.T) {
	if name := os.Getenv("SCOUT_CHILD_SEG"); name != "" {
		schema := arrow.NewSchema(nil, nil)
		meta := arrow.NewMetadata(
			[]string{MetaMethod, MetaRequestVersion, MetaShmSegmentName, MetaShmSegmentSize, MetaShmOffset, MetaShmLength},
			[]string{"anything", ProtocolVersion, name, strconv.Itoa(scoutClaimedSize), strconv.Itoa(scoutBadOffset), "64"})
		req := array.NewRecordBatchWithMetadata(schema, nil, 0, meta)
		var in, out bytes.Buffer
		w := ipc.NewWriter(&in, ipc.WithSchema(schema))
		if err := w.Write(req); err != nil {
			panic(err)
		}
		_ = w.Close()
		NewServer().ServeWithContext(context.Background(), &in, &out)
		fmt.Printf("CHILD: server survived, wrote %d response bytes\n", out.Len())
		return
	}
	owner := scoutMakeLyingSegment(t)
	out, err := scoutRunChild(t, "TestScoutOversizedAttach_Server", owner.Name())
	t.Logf("child exit: %v\n%s", err, out)
	if err != nil {
		t.Fatalf("server process crashed on a pointer outside the real segment (want: error response): %v", err)
	}
}

// FINDING 2: the exported ReadBatch panics for negative lengths and for
// offset+length overflow, because `end := offset + uint64(length)` wraps and the
// only check is `end > size`.
func TestScoutReadBatchNegativeOrOverflow(t *testing.T) {
	seg, err := ShmCreate(ShmHeaderSize + 1<<20)
	if err != nil {
		t.Fatal(err)
	}
	defer seg.Close()
	schema := arrow.NewSchema([]arrow.Field{{Name: "a", Type: arrow.PrimitiveTypes.Int64}}, nil)
	cases := []struct {
		off uint64
		ln  int
	}{
		{ShmHeaderSize, -1},
		{ShmHeaderSize, -10},
		{^uint64(0), 2},
		{1<<63 + 1, 1<<63 - 1},
	}
	for _, c := range cases {
		func() {
			defer func() {
				if r := recover(); r != nil {
					t.Errorf("ReadBatch(%d, %d) panicked: %v", c.off, c.ln, r)
				}
			}()
			_, err := seg.ReadBatch(c.off, c.ln, schema)
			if err == nil {
				t.Errorf("ReadBatch(%d, %d) returned no error", c.off, c.ln)
			}
		}()
	}
}

// TestVerifReplay: the reproducers of repaired defects (they failed before the repair and pass on the repaired code)
func TestVerifReplay(t *testing.T) {
	t.Run("TestScoutOversizedAttach_Resolve", TestScoutOversizedAttach_Resolve)
	t.Run("TestScoutOversizedAttach_Server", TestScoutOversizedAttach_Server)
	t.Run("TestScoutReadBatchNegativeOrOverflow", TestScoutReadBatchNegativeOrOverflow)
}
