package vgirpc

// Replay for property C03 (deserializeArrowSerializable): a one-row request whose nested
// ArrowSerializable parameter (a binary column holding an IPC stream) contains a ZERO-ROW batch.
// deserializeArrowSerializable reads row 0 of that inner batch; the request must be answered
// with an error, not crash the server loop.

import (
	"bytes"
	"context"
	"testing"

	"github.com/apache/arrow-go/v18/arrow"
	"github.com/apache/arrow-go/v18/arrow/array"
	"github.com/apache/arrow-go/v18/arrow/ipc"
	"github.com/apache/arrow-go/v18/arrow/memory"
)

type replayInner struct {
	A int64 `arrow:"a"`
}

func (replayInner) ArrowSchema() *arrow.Schema {
	return arrow.NewSchema([]arrow.Field{{Name: "a", Type: arrow.PrimitiveTypes.Int64}}, nil)
}

type replayNestedParams struct {
	P replayInner `vgirpc:"p"`
}

func TestVerifReplay(t *testing.T) {
	s := NewServer()
	Unary(s, "echo", func(ctx context.Context, c *CallContext, p replayNestedParams) (int64, error) { return p.P.A, nil })

	// inner IPC stream: schema {a:int64}, one batch with ZERO rows
	innerSchema := replayInner{}.ArrowSchema()
	ib := array.NewInt64Builder(memory.DefaultAllocator)
	icol := ib.NewArray()
	innerBatch := array.NewRecordBatch(innerSchema, []arrow.Array{icol}, 0)
	var inner bytes.Buffer
	iw := ipc.NewWriter(&inner, ipc.WithSchema(innerSchema))
	if err := iw.Write(innerBatch); err != nil {
		t.Fatal(err)
	}
	iw.Close()

	schema := arrow.NewSchema([]arrow.Field{{Name: "p", Type: arrow.BinaryTypes.Binary}}, nil)
	bb := array.NewBinaryBuilder(memory.DefaultAllocator, arrow.BinaryTypes.Binary)
	bb.Append(inner.Bytes())
	col := bb.NewArray()
	meta := arrow.NewMetadata([]string{MetaMethod, MetaRequestVersion}, []string{"echo", ProtocolVersion})
	req := array.NewRecordBatchWithMetadata(schema, []arrow.Array{col}, 1, meta)
	var in bytes.Buffer
	w := ipc.NewWriter(&in, ipc.WithSchema(schema))
	if err := w.Write(req); err != nil {
		t.Fatal(err)
	}
	w.Close()

	var out bytes.Buffer
	panicked := func() (p any) {
		defer func() { p = recover() }()
		s.Serve(&in, &out)
		return nil
	}()
	if panicked != nil {
		t.Fatalf("a nested zero-row ArrowSerializable payload made a panic escape Server.Serve: %v", panicked)
	}
	if out.Len() == 0 {
		t.Fatalf("no response was written for the malformed request")
	}
}
