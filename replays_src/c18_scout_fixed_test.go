// Scout reproducers for property C18. Belongs in: vgirpc/ (package vgirpc).

package vgirpc

import (
	"bytes"
	"crypto/rand"
	"net/http"
	"net/http/httptest"
	"testing"

	"github.com/apache/arrow-go/v18/arrow"
	"github.com/apache/arrow-go/v18/arrow/array"
	"github.com/klauspost/compress/zstd"
)

// scoutStreamZstd compresses data with a *streaming* zstd encoder, flushing
// after the first write so the encoder cannot fall back to its single-block
// (single-segment, FCS-carrying) shortcut. The frame header therefore carries
// a Window_Descriptor (the encoder's window size, 8 MiB at the default level)
// and no Frame_Content_Size — exactly what any streaming zstd client emits.
func scoutStreamZstd(t *testing.T, data []byte, opts ...zstd.EOption) []byte {
	t.Helper()
	var buf bytes.Buffer
	w, err := zstd.NewWriter(&buf, opts...)
	if err != nil {
		t.Fatal(err)
	}
	half := len(data) / 2
	if _, err := w.Write(data[:half]); err != nil {
		t.Fatal(err)
	}
	if err := w.Flush(); err != nil {
		t.Fatal(err)
	}
	if _, err := w.Write(data[half:]); err != nil {
		t.Fatal(err)
	}
	if err := w.Close(); err != nil {
		t.Fatal(err)
	}
	return buf.Bytes()
}

func scoutPost(h *HttpServer, body []byte, encoding string) *http.Request {
	r := httptest.NewRequest(http.MethodPost, "/anything", bytes.NewReader(body))
	if encoding != "" {
		r.Header.Set("Content-Encoding", encoding)
	}
	return r
}

// A: a valid streaming-zstd body whose raw AND decoded size are both well
// inside the advertised request cap is refused, because the cap is passed to
// zstd.WithDecoderMaxMemory, which klauspost also applies to the frame's
// *window size* (8 MiB for a default-level streaming encoder).
func TestScoutStreamingZstdWithinCapRefused(t *testing.T) {
	h := newTestHttpServer(t)
	h.SetMaxRequestBytes(1 << 20) // 1 MiB advertised cap

	plain := bytes.Repeat([]byte("arrow-ipc-ish payload "), 2000) // 44 KB
	enc := scoutStreamZstd(t, plain)

	// Sanity: the body is an ordinary zstd frame.
	ref, err := decompressBounded("zstd", enc, 0)
	if err != nil || !bytes.Equal(ref, plain) {
		t.Fatalf("reference decode failed: %v", err)
	}
	t.Logf("raw=%d decoded=%d cap=%d", len(enc), len(plain), h.maxRequestBytes)

	got, err := h.readHTTPBody(scoutPost(h, enc, "zstd"))
	if err != nil {
		rec := httptest.NewRecorder()
		h.writeBodyReadError(rec, err, nil)
		t.Fatalf("body within both caps refused: status=%d err=%v", rec.Code, err)
	}
	if !bytes.Equal(got, plain) {
		t.Fatalf("decoded bytes differ")
	}
}

// A': same through the intermediary decoder.
func TestScoutDecodeContentEncodingWithinLimitRefused(t *testing.T) {
	plain := bytes.Repeat([]byte("x"), 5000)
	enc := scoutStreamZstd(t, plain)
	got, err := DecodeContentEncoding(enc, "zstd", 1<<20)
	if err != nil {
		t.Fatalf("5000-byte body refused under a 1 MiB per-coding limit: %v", err)
	}
	if !bytes.Equal(got, plain) {
		t.Fatal("decoded bytes differ")
	}
}

// A”: even the one-shot (single-segment, FCS-carrying) frame is refused when
// the limit is below zstd's 1 KiB minimum window, although decoded <= limit.
func TestScoutSmallLimitRefusesSmallerBody(t *testing.T) {
	plain := []byte("hello, fifty bytes or so of perfectly small data")
	enc := zstdCompress(t, plain)
	got, err := DecodeContentEncoding(enc, "zstd", 100)
	if err != nil {
		t.Fatalf("%d-byte body refused under a 100-byte limit: %v", len(plain), err)
	}
	if !bytes.Equal(got, plain) {
		t.Fatal("decoded bytes differ")
	}
}

// B: SetMaxDecompressedBodySize(negative) is documented to disable the
// decompressed cap; readHTTPBody instead falls back to maxBodySize*16.
func TestScoutNegativeDecompressedCapNotDisabled(t *testing.T) {
	h := newTestHttpServer(t)
	h.SetMaxBodySize(1000)
	h.SetMaxDecompressedBodySize(-1) // "disable the cap entirely"

	plain := bytes.Repeat([]byte("a"), 20000) // > 16*1000
	for _, coding := range []string{"gzip", "zstd"} {
		var enc []byte
		if coding == "gzip" {
			enc = gzipCompress(t, plain)
		} else {
			enc = zstdCompress(t, plain)
		}
		if len(enc) > 1000 {
			t.Fatalf("setup: raw %d over raw cap", len(enc))
		}
		got, err := h.readHTTPBody(scoutPost(h, enc, coding))
		if err != nil {
			rec := httptest.NewRecorder()
			h.writeBodyReadError(rec, err, nil)
			t.Errorf("%s: decompressed cap disabled, raw=%d within raw cap, yet refused: status=%d err=%v",
				coding, len(enc), rec.Code, err)
			continue
		}
		if !bytes.Equal(got, plain) {
			t.Errorf("%s: decoded bytes differ", coding)
		}
	}
}

// C: overrunning the *decompressed* cap when no advertised request cap is
// configured must be a 400 ("413 for the advertised request cap, 400
// otherwise"); the server answers 413 and names max_request_bytes, a setting
// that is not configured at all.
func TestScoutDecompressedCapOverrunStatus(t *testing.T) {
	h := newTestHttpServer(t)
	h.SetMaxBodySize(100000)
	h.SetMaxDecompressedBodySize(5000)
	// maxRequestBytes stays 0: nothing is advertised.

	noise := make([]byte, 6000)
	if _, err := rand.Read(noise); err != nil {
		t.Fatal(err)
	}
	for _, coding := range []string{"gzip", "zstd"} {
		var enc []byte
		if coding == "gzip" {
			enc = gzipCompress(t, noise)
		} else {
			enc = zstdCompress(t, noise)
		}
		_, err := h.readHTTPBody(scoutPost(h, enc, coding))
		if err == nil {
			t.Fatalf("%s: over-cap body accepted", coding)
		}
		rec := httptest.NewRecorder()
		h.writeBodyReadError(rec, err, nil)
		if rec.Code != http.StatusBadRequest {
			t.Errorf("%s: decompressed-cap overrun with no advertised request cap: status=%d (want 400), err=%q",
				coding, rec.Code, err)
		}
	}
}

// A (end to end): the same __describe__ request is answered 200 when sent
// uncompressed or one-shot-compressed and 400 when sent through a streaming
// zstd encoder, with the advertised cap at 1 MiB and the body a few hundred
// bytes.
func TestScoutStreamingZstdEndToEnd(t *testing.T) {
	h := newTestHttpServer(t)
	h.SetMaxRequestBytes(1 << 20)
	h.InitPages()

	schema := arrow.NewSchema(nil, nil)
	batch := array.NewRecordBatch(schema, nil, 1)
	defer batch.Release()
	var plain bytes.Buffer
	if err := WriteRequest(&plain, "__describe__", batch, ""); err != nil {
		t.Fatal(err)
	}

	post := func(body []byte, coding string) int {
		r := httptest.NewRequest(http.MethodPost, "/__describe__", bytes.NewReader(body))
		r.Header.Set("Content-Type", arrowContentType)
		if coding != "" {
			r.Header.Set("Content-Encoding", coding)
		}
		rec := httptest.NewRecorder()
		h.ServeHTTP(rec, r)
		return rec.Code
	}
	if c := post(plain.Bytes(), ""); c != 200 {
		t.Fatalf("control (identity) status=%d", c)
	}
	if c := post(zstdCompress(t, plain.Bytes()), "zstd"); c != 200 {
		t.Fatalf("control (one-shot zstd) status=%d", c)
	}
	enc := scoutStreamZstd(t, plain.Bytes())
	if c := post(enc, "zstd"); c != 200 {
		t.Fatalf("streaming zstd body (raw=%d, decoded=%d, cap=1MiB) status=%d, want 200", len(enc), plain.Len(), c)
	}
}

// A”': the library's own response encoder (newCompressWriter, the default
// level) produces a frame that the library's own intermediary/client decoder
// refuses under a limit several times larger than the payload.
func TestScoutOwnEncoderOutputRefusedByOwnDecoder(t *testing.T) {
	plain := make([]byte, 300<<10)
	if _, err := rand.Read(plain); err != nil {
		t.Fatal(err)
	}
	var buf bytes.Buffer
	w, err := newCompressWriter("zstd", &buf, DefaultCompressionLevel)
	if err != nil {
		t.Fatal(err)
	}
	if _, err := w.Write(plain); err != nil {
		t.Fatal(err)
	}
	if err := w.Close(); err != nil {
		t.Fatal(err)
	}
	got, err := DecodeContentEncoding(buf.Bytes(), "zstd", 1<<20)
	if err != nil {
		t.Fatalf("300 KiB response refused under a 1 MiB limit: %v", err)
	}
	if !bytes.Equal(got, plain) {
		t.Fatal("decoded bytes differ")
	}
}

// Boundary sweep (expected to PASS; sizes start above 2 KiB because of finding
// A): one-shot bodies of exactly cap bytes are
// accepted and cap+1 refused, for both codecs.
func TestScoutBoundarySweep(t *testing.T) {
	for _, n := range []int{2049, 5000, 131072, 131073, 300000} {
		plain := make([]byte, n)
		if _, err := rand.Read(plain); err != nil {
			t.Fatal(err)
		}
		enc, err := zstd.NewWriter(nil)
		if err != nil {
			t.Fatal(err)
		}
		bodies := map[string][]byte{
			"zstd": enc.EncodeAll(plain, nil),
			"gzip": gzipCompress(t, plain),
		}
		_ = enc.Close()
		for coding, body := range bodies {
			got, err := decompressBounded(coding, body, int64(n))
			if err != nil || !bytes.Equal(got, plain) {
				t.Errorf("%s n=%d cap=n: err=%v", coding, n, err)
			}
			if _, err := decompressBounded(coding, body, int64(n-1)); err == nil {
				t.Errorf("%s n=%d cap=n-1: accepted", coding, n)
			}
		}
	}
}

// E: whether the advertised request cap bounds the decoded size depends on
// how it compares with the (unrelated) wire cap. With maxRequestBytes <=
// maxBodySize a 10 000-byte decoded body is refused with 413; raise
// maxBodySize's sibling so that maxRequestBytes > maxBodySize and a body far
// over the advertised cap is accepted.
func TestScoutAdvertisedCapIgnoredForDecodedSize(t *testing.T) {
	plain := bytes.Repeat([]byte("a"), 10000)
	enc := gzipCompress(t, plain)

	h := newTestHttpServer(t)
	h.SetMaxBodySize(1000)
	h.SetMaxRequestBytes(900) // <= wire cap: applies to decoded size too
	if _, err := h.readHTTPBody(scoutPost(h, enc, "gzip")); err == nil {
		t.Fatal("control: decoded 10000 > advertised 900 accepted")
	}

	h.SetMaxRequestBytes(2000) // > wire cap
	got, err := h.readHTTPBody(scoutPost(h, enc, "gzip"))
	if err == nil {
		t.Fatalf("decoded body of %d bytes accepted although VGI-Max-Request-Bytes advertises %d", len(got), h.maxRequestBytes)
	}
}

// D: Content-Encoding sent as two field lines (RFC 9110 5.3: same as one
// comma-joined line). The single-line form is refused 415; the two-line form
// silently drops the second line.
func TestScoutMultiLineContentEncoding(t *testing.T) {
	h := newTestHttpServer(t)
	plain := []byte("some request bytes")
	stacked := gzipCompress(t, zstdCompress(t, plain)) // zstd then gzip

	one := scoutPost(h, stacked, "zstd, gzip")
	_, err := h.readHTTPBody(one)
	rec := httptest.NewRecorder()
	h.writeBodyReadError(rec, err, nil)
	if rec.Code != http.StatusUnsupportedMediaType {
		t.Fatalf("control: single-line stack status=%d", rec.Code)
	}

	two := scoutPost(h, stacked, "")
	two.Header.Add("Content-Encoding", "identity")
	two.Header.Add("Content-Encoding", "gzip")
	got, err := h.readHTTPBody(two)
	if err == nil {
		t.Fatalf("two-line Content-Encoding [identity, gzip]: accepted, returned %d still-compressed bytes (equal to plain: %v)",
			len(got), bytes.Equal(got, plain))
	}
}

// TestVerifReplay: the reproducers of the two repaired defects (a negative decompressed-size setting did not disable the cap; every decoded-size overrun was answered 413) and the scout's boundary sweep; the other TestScout* functions concern streaming frames whose declared window exceeds the cap (excluded by the property's quantifier) or findings that are not repaired, and are not run
func TestVerifReplay(t *testing.T) {
	t.Run("TestScoutNegativeDecompressedCapNotDisabled", TestScoutNegativeDecompressedCapNotDisabled)
	t.Run("TestScoutDecompressedCapOverrunStatus", TestScoutDecompressedCapOverrunStatus)
	t.Run("TestScoutBoundarySweep", TestScoutBoundarySweep)
}
