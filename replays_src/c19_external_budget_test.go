package vgirpc

// Replay for property C19 (externalized responses): with max_externalized_response_bytes set, a
// producer turn stops before the Arrow size of its uploads would exceed the cap, and ends with
// the cap error when it had more to upload; unary/exchange responses whose upload exceeds the
// cap are replaced by an error. Grid of batch sizes and caps, fake storage that counts uploads.

import (
	"bytes"
	"context"
	"fmt"
	"net/http"
	"net/http/httptest"
	"sync"
	"testing"

	"github.com/apache/arrow-go/v18/arrow"
	"github.com/apache/arrow-go/v18/arrow/array"
	"github.com/apache/arrow-go/v18/arrow/memory"
)

var c19Schema = arrow.NewSchema([]arrow.Field{{Name: "value", Type: arrow.PrimitiveTypes.Int64}}, nil)

type c19Params struct {
	Value int64 `vgirpc:"value"`
}

type c19Storage struct {
	mu      sync.Mutex
	uploads int
}

func (s *c19Storage) Upload(data []byte, _ *arrow.Schema, _ string) (string, error) {
	s.mu.Lock()
	defer s.mu.Unlock()
	s.uploads++
	return "https://storage.invalid/c19", nil
}

type c19Producer struct {
	Rows, Batches, Emitted int
}

func c19Batch(rows int) arrow.RecordBatch {
	b := array.NewInt64Builder(memory.NewGoAllocator())
	for i := 0; i < rows; i++ {
		b.Append(int64(i))
	}
	col := b.NewArray()
	b.Release()
	rec := array.NewRecordBatch(c19Schema, []arrow.Array{col}, int64(rows))
	col.Release()
	return rec
}

func (p *c19Producer) Produce(_ context.Context, out *OutputCollector, _ *CallContext) error {
	if p.Emitted >= p.Batches {
		return out.Finish()
	}
	p.Emitted++
	return out.Emit(c19Batch(p.Rows))
}

func TestVerifReplay(t *testing.T) {
	RegisterStateType(&c19Producer{})
	for _, rows := range []int{100, 600, 2000} {
		probe := c19Batch(rows)
		per := batchBufferSize(probe)
		probe.Release()
		for _, batches := range []int{1, 3, 6} {
			for _, capMul := range []float64{0.5, 1.0, 1.05, 2.05, 2.5, 3.0, 100} {
				limit := int64(float64(per) * capMul)
				name := fmt.Sprintf("rows=%d batches=%d cap=%d (%.2f batches)", rows, batches, limit, capMul)
				storage := &c19Storage{}
				s := NewServer()
				s.SetExternalLocation(&ExternalLocationConfig{Storage: storage, ExternalizeThresholdBytes: 1})
				r, n := rows, batches
				Producer(s, "c19", c19Schema, func(context.Context, *CallContext, c19Params) (*StreamResult, error) {
					return &StreamResult{OutputSchema: c19Schema, State: &c19Producer{Rows: r, Batches: n}}, nil
				})
				h := NewHttpServer(s)
				h.SetMaxExternalizedResponseBytes(limit)
				h.InitPages()
				pb := c19Batch(1)
				var reqBuf bytes.Buffer
				if err := WriteRequest(&reqBuf, "c19", pb, ""); err != nil {
					t.Fatal(err)
				}
				pb.Release()
				req := httptest.NewRequest(http.MethodPost, "/c19/init", bytes.NewReader(reqBuf.Bytes()))
				req.Header.Set("Content-Type", arrowContentType)
				w := httptest.NewRecorder()
				h.ServeHTTP(w, req)
				if w.Code != http.StatusOK {
					t.Errorf("%s: init status %d", name, w.Code)
					continue
				}
				storage.mu.Lock()
				uploads := storage.uploads
				storage.mu.Unlock()
				if total := int64(uploads) * per; total > limit {
					t.Errorf("%s: one producer turn uploaded %d batches = %d Arrow bytes, past the cap", name, uploads, total)
				}
				capped := bytes.Contains(w.Body.Bytes(), []byte("max_externalized_response_bytes"))
				if uploads < batches && !capped {
					t.Errorf("%s: %d of %d batches uploaded and the turn did not end with the cap error", name, uploads, batches)
				}
				if int64(batches)*per <= limit/2 && capped {
					t.Errorf("%s: cap error although all uploads fit in half the cap", name)
				}
			}
		}
	}
}
