package vgirpc

// Replay for property C21: after an exchange turn whose outcome is ambiguous — a non-2xx status
// of any class, a dropped connection, a malformed / over-limit / trailing-garbage body, a response
// without a cursor or with a wrong batch count — the stream refuses further turns and never sends
// the old cursor again (neither by Exchange nor by Cancel); a good turn advances to the new cursor.

import (
	"context"
	"net/http"
	"net/http/httptest"
	"strings"
	"sync"
	"testing"

	"github.com/apache/arrow-go/v18/arrow"
	"github.com/apache/arrow-go/v18/arrow/ipc"
)

func TestVerifReplay(t *testing.T) {
	schema := arrow.NewSchema([]arrow.Field{{Name: "value", Type: arrow.PrimitiveTypes.Int32, Nullable: true}}, nil)
	body := func(md map[string]string) []byte {
		b := emptyBatch(schema)
		defer b.Release()
		out, err := encodeClientBatch(b, md, 1<<20)
		if err != nil {
			t.Fatal(err)
		}
		return out
	}
	initBody := body(map[string]string{MetaStreamState: "cursor-one", MetaCallState: "call-one"})
	goodTurn := body(map[string]string{MetaStreamState: "cursor-two"})
	noCursor := body(map[string]string{})
	bad := map[string]func(w http.ResponseWriter){
		"400":            func(w http.ResponseWriter) { http.Error(w, "bad", 400) },
		"404":            func(w http.ResponseWriter) { http.Error(w, "nf", 404) },
		"429":            func(w http.ResponseWriter) { http.Error(w, "slow", 429) },
		"500":            func(w http.ResponseWriter) { http.Error(w, "boom", 500) },
		"502":            func(w http.ResponseWriter) { http.Error(w, "gw", 502) },
		"503":            func(w http.ResponseWriter) { http.Error(w, "unavailable", 503) },
		"302":            func(w http.ResponseWriter) { w.WriteHeader(302) },
		"garbage":        func(w http.ResponseWriter) { w.Header().Set("Content-Type", arrowContentType); w.Write([]byte("not arrow")) },
		"empty":          func(w http.ResponseWriter) { w.Header().Set("Content-Type", arrowContentType) },
		"nocursor":       func(w http.ResponseWriter) { w.Header().Set("Content-Type", arrowContentType); w.Write(noCursor) },
		"trailing":       func(w http.ResponseWriter) { w.Header().Set("Content-Type", arrowContentType); w.Write(append(append([]byte{}, goodTurn...), 1, 2, 3)) },
		"truncated":      func(w http.ResponseWriter) { w.Header().Set("Content-Type", arrowContentType); w.Write(goodTurn[:len(goodTurn)/2]) },
		"badencoding":    func(w http.ResponseWriter) { w.Header().Set("Content-Encoding", "br"); w.Write(goodTurn) },
		"dropconnection": func(w http.ResponseWriter) {
			if hj, ok := w.(http.Hijacker); ok {
				c, _, _ := hj.Hijack()
				c.Close()
			}
		},
	}
	for name, respond := range bad {
		var mu sync.Mutex
		var seen []string
		server := httptest.NewServer(http.HandlerFunc(func(w http.ResponseWriter, r *http.Request) {
			if strings.HasSuffix(r.URL.Path, "/init") {
				w.Header().Set("Content-Type", arrowContentType)
				w.Write(initBody)
				return
			}
			if rd, err := ipc.NewReader(r.Body); err == nil {
				if rd.Next() {
					mu.Lock()
					seen = append(seen, recordMetadata(rd.RecordBatch())[MetaStreamState])
					mu.Unlock()
				}
				rd.Release()
			}
			respond(w)
		}))
		client, err := NewHttpClient(server.URL)
		if err != nil {
			t.Fatal(err)
		}
		params := emptyBatch(arrow.NewSchema(nil, nil))
		session, err := client.OpenExchange(context.Background(), "echo", params, ClientStreamSchema{Input: schema, Output: schema})
		if err != nil {
			t.Fatalf("%s: open: %v", name, err)
		}
		input := emptyBatch(schema)
		if _, err := session.Exchange(context.Background(), input); err == nil {
			t.Errorf("%s: an ambiguous turn was reported as a success", name)
		}
		if !session.Finished() {
			t.Errorf("%s: the stream is not finished after an ambiguous turn", name)
		}
		if _, err := session.Exchange(context.Background(), input); err == nil {
			t.Errorf("%s: a further turn was accepted after an ambiguous one", name)
		}
		session.Cancel(context.Background())
		mu.Lock()
		n := 0
		for _, c := range seen {
			if c == "cursor-one" {
				n++
			}
		}
		mu.Unlock()
		if n > 1 {
			t.Errorf("%s: the spent cursor was sent %d times (server saw %q)", name, n, seen)
		}
		input.Release()
		params.Release()
		session.Close()
		client.Close()
		server.Close()
	}
	// a good turn advances to the new cursor
	var seen []string
	server := httptest.NewServer(http.HandlerFunc(func(w http.ResponseWriter, r *http.Request) {
		w.Header().Set("Content-Type", arrowContentType)
		if strings.HasSuffix(r.URL.Path, "/init") {
			w.Write(initBody)
			return
		}
		if rd, err := ipc.NewReader(r.Body); err == nil {
			if rd.Next() {
				seen = append(seen, recordMetadata(rd.RecordBatch())[MetaStreamState])
			}
			rd.Release()
		}
		w.Write(goodTurn)
	}))
	defer server.Close()
	client, _ := NewHttpClient(server.URL)
	defer client.Close()
	params := emptyBatch(arrow.NewSchema(nil, nil))
	defer params.Release()
	session, err := client.OpenExchange(context.Background(), "echo", params, ClientStreamSchema{Input: schema, Output: schema})
	if err != nil {
		t.Fatal(err)
	}
	input := emptyBatch(schema)
	defer input.Release()
	for i := 0; i < 2; i++ {
		out, err := session.Exchange(context.Background(), input)
		if err != nil {
			t.Fatalf("good turn %d: %v", i, err)
		}
		if _, has := out.Metadata[MetaStreamState]; has {
			t.Errorf("a framework token reached the caller's batch metadata")
		}
		out.Release()
	}
	if len(seen) != 2 || seen[0] != "cursor-one" || seen[1] != "cursor-two" {
		t.Errorf("cursors sent on good turns: %q, want cursor-one then cursor-two", seen)
	}
	session.Close()
}
