package vgirpc

// Replay for property C14 (route kind): exchange method A's token presented at the continuation
// route of a UNARY method u must be refused with a client error; A's Exchange must not run there.

import (
	"bytes"
	"context"
	"io"
	"net/http"
	"net/http/httptest"
	"testing"

	"github.com/apache/arrow-go/v18/arrow"
	"github.com/apache/arrow-go/v18/arrow/array"
	"github.com/apache/arrow-go/v18/arrow/ipc"
	"github.com/apache/arrow-go/v18/arrow/memory"
)

type c14Params struct {
	F float64 `vgirpc:"f"`
}
type c14ExState struct{ Tag string }

func (s *c14ExState) Exchange(_ context.Context, in arrow.RecordBatch, out *OutputCollector, _ *CallContext) error {
	in.Retain()
	return out.Emit(in)
}

type c14ProdState struct{ N int }

func (s *c14ProdState) Produce(_ context.Context, out *OutputCollector, _ *CallContext) error {
	return out.Finish()
}

func TestVerifReplay(t *testing.T) {
	RegisterStateType(&c14ExState{})
	RegisterStateType(&c14ProdState{})
	vs := arrow.NewSchema([]arrow.Field{{Name: "value", Type: arrow.PrimitiveTypes.Float64}}, nil)
	srv := NewServer()
	mk := func(tag string) func(context.Context, *CallContext, c14Params) (*StreamResult, error) {
		return func(context.Context, *CallContext, c14Params) (*StreamResult, error) {
			return &StreamResult{OutputSchema: vs, InputSchema: vs, State: &c14ExState{Tag: tag}}, nil
		}
	}
	Exchange(srv, "a", vs, vs, mk("a"))
	Unary(srv, "u", func(context.Context, *CallContext, c14Params) (float64, error) { return 0, nil })
	Producer(srv, "p", vs, func(context.Context, *CallContext, c14Params) (*StreamResult, error) {
		return &StreamResult{OutputSchema: vs, State: &c14ProdState{}}, nil
	})
	h := NewHttpServer(srv)
	h.InitPages()
	ts := httptest.NewServer(h)
	defer ts.Close()
	mem := memory.NewGoAllocator()

	// init method "a"
	pb := array.NewFloat64Builder(mem)
	pb.Append(1)
	ps := arrow.NewSchema([]arrow.Field{{Name: "f", Type: arrow.PrimitiveTypes.Float64}}, nil)
	var initBody bytes.Buffer
	if err := WriteRequest(&initBody, "a", array.NewRecordBatch(ps, []arrow.Array{pb.NewArray()}, 1), ""); err != nil {
		t.Fatal(err)
	}
	resp, err := http.Post(ts.URL+"/a/init", arrowContentType, &initBody)
	if err != nil {
		t.Fatal(err)
	}
	ib, _ := io.ReadAll(resp.Body)
	resp.Body.Close()
	token, callToken := FindStreamTokens(ib)
	if token == nil {
		t.Skipf("no token from /a/init (status %d)", resp.StatusCode)
	}
	exchange := func(route string) (int, error) {
		vb := array.NewFloat64Builder(mem)
		vb.Append(2)
		in := array.NewRecordBatch(vs, []arrow.Array{vb.NewArray()}, 1)
		meta := arrow.NewMetadata([]string{MetaStreamState, MetaCallState}, []string{string(token), string(callToken)})
		var body bytes.Buffer
		w := ipc.NewWriter(&body, ipc.WithSchema(vs))
		w.Write(array.NewRecordBatchWithMetadata(vs, in.Columns(), 1, meta))
		w.Close()
		r, err := http.Post(ts.URL+route, arrowContentType, &body)
		if err != nil {
			return 0, err
		}
		io.Copy(io.Discard, r.Body)
		r.Body.Close()
		return r.StatusCode, nil
	}
	if code, err := exchange("/u/exchange"); err != nil {
		t.Errorf("/u/exchange: %v", err)
	} else if code/100 != 4 {
		t.Errorf("exchange method a's token at unary method u's continuation route answered %d (want a 4xx refusal): a's state ran under u's route", code)
	}
}
