package vgirpc

// Replay for property C24 (static bearer tokens): a request is accepted exactly when the
// Authorization header is "Bearer " followed by one of the configured tokens byte for byte, and
// then yields that token's identity — for tokens of every length (short, at and beyond any
// internal buffer width), near-miss tokens (same length and prefix, different tail; truncated;
// extended; different first byte), prefixes in other case, and surrounding whitespace.

import (
	"net/http"
	"strings"
	"testing"
)

func TestVerifReplay(t *testing.T) {
	mk := func(n int, fill byte, tail string) string {
		s := strings.Repeat(string(rune(fill)), n)
		if len(tail) > 0 && n >= len(tail) {
			s = s[:n-len(tail)] + tail
		}
		return s
	}
	tokens := map[string]*AuthContext{}
	var configured []string
	for _, n := range []int{1, 2, 8, 31, 32, 33, 63, 64, 65, 66, 100, 127, 128, 129, 300, 1000} {
		for _, tail := range []string{"A", "B"} { // two tokens per length sharing everything but the last byte
			tok := mk(n, 'x', tail)
			if _, dup := tokens[tok]; dup {
				continue
			}
			tokens[tok] = &AuthContext{Domain: "static", Principal: "p" + tail + "-" + strings.Repeat("i", n%7) + string(rune('a'+n%26)) + tok[:1], Authenticated: true}
			configured = append(configured, tok)
		}
	}
	auth := BearerAuthenticateStatic(tokens)
	try := func(header string) (*AuthContext, error) {
		r, _ := http.NewRequest("POST", "http://x/m", nil)
		if header != "" {
			r.Header.Set("Authorization", header)
		}
		return auth(r)
	}
	for _, tok := range configured {
		got, err := try("Bearer " + tok)
		if err != nil || got != tokens[tok] {
			t.Errorf("configured token of %d bytes: got %v, %v; want its own identity %q", len(tok), got, err, tokens[tok].Principal)
		}
		var near []string
		near = append(near, tok[:len(tok)-1]+"C")             // same length, different last byte
		near = append(near, tok+"A", tok+" ", tok[:len(tok)-1]) // extended, trailing space, truncated
		near = append(near, "y"+tok[1:])                        // different first byte
		if len(tok) > 64 {
			near = append(near, tok[:64]+strings.Repeat("z", len(tok)-64)) // same first 64 bytes and length
			near = append(near, tok[:64])
		}
		if len(tok) > 2 {
			mid := len(tok) / 2
			near = append(near, tok[:mid]+"#"+tok[mid+1:])
		}
		for _, bad := range near {
			if _, isConfigured := tokens[bad]; isConfigured || bad == "" {
				continue
			}
			if got, err := try("Bearer " + bad); err == nil {
				t.Errorf("unconfigured token (%d bytes, near miss of a %d-byte token) was accepted as %q", len(bad), len(tok), got.Principal)
			}
		}
		for _, h := range []string{"bearer " + tok, "BEARER " + tok, "Bearer  " + tok, " Bearer " + tok, "Bearer" + tok, "Basic " + tok, tok} {
			if got, err := try(h); err == nil {
				t.Errorf("header %q... accepted as %q; only the exact 'Bearer ' prefix is the grammar", h[:8], got.Principal)
			}
		}
	}
	if _, err := try(""); err == nil {
		t.Errorf("missing Authorization header accepted")
	}
	if _, err := try("Bearer "); err == nil {
		t.Errorf("empty token accepted")
	}
}
