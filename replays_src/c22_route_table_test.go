package vgirpc

// Replay for property C22 (route table): with every server feature switched on and an
// authenticator that rejects every request, EVERY pattern registered on the server's mux (read
// out of the mux by reflection, so a route nobody listed is found too) either answers 401 without
// running any handler, provider, resolver or state — or is one of the routes the property lists
// as reachable without authentication (health, OAuth metadata and login routes, HTML pages,
// session delete, custom routes registered by the operator in this test).

import (
	"bytes"
	"context"
	"net/http"
	"net/http/httptest"
	"reflect"
	"sort"
	"strings"
	"sync/atomic"
	"testing"
	"time"

	"github.com/apache/arrow-go/v18/arrow"
	"github.com/apache/arrow-go/v18/arrow/array"
	"github.com/apache/arrow-go/v18/arrow/memory"
)

type c22rParams struct {
	Value int64 `vgirpc:"value"`
}

type c22rProvider struct{ calls *int32 }

func (p *c22rProvider) GenerateUploadURL(*arrow.Schema) (UploadURL, error) {
	atomic.AddInt32(p.calls, 1)
	return UploadURL{UploadURL: "https://bucket/put", DownloadURL: "https://bucket/get", ExpiresAt: time.Now().Add(time.Hour)}, nil
}

// c22rPatterns walks the mux's internals and returns every registered pattern string.
func c22rPatterns(mux *http.ServeMux) []string {
	seen := map[uintptr]bool{}
	found := map[string]bool{}
	var walk func(v reflect.Value, depth int)
	walk = func(v reflect.Value, depth int) {
		if depth > 40 || !v.IsValid() {
			return
		}
		switch v.Kind() {
		case reflect.Ptr:
			if v.IsNil() || seen[v.Pointer()] {
				return
			}
			seen[v.Pointer()] = true
			walk(v.Elem(), depth+1)
		case reflect.Interface:
			if !v.IsNil() {
				walk(v.Elem(), depth+1)
			}
		case reflect.Struct:
			if v.Type().Name() == "pattern" {
				if f := v.FieldByName("str"); f.IsValid() && f.Kind() == reflect.String {
					found[f.String()] = true
				}
			}
			for i := 0; i < v.NumField(); i++ {
				walk(v.Field(i), depth+1)
			}
		case reflect.Slice, reflect.Array:
			for i := 0; i < v.Len(); i++ {
				walk(v.Index(i), depth+1)
			}
		case reflect.Map:
			it := v.MapRange()
			for it.Next() {
				walk(it.Key(), depth+1)
				walk(it.Value(), depth+1)
			}
		}
	}
	walk(reflect.ValueOf(mux), 0)
	var out []string
	for p := range found {
		out = append(out, p)
	}
	sort.Strings(out)
	return out
}

func TestVerifReplay(t *testing.T) {
	for _, prefix := range []string{"", "/api"} {
		var work int32 // anything that counts as "work" increments this
		s := NewServer()
		Unary(s, "m", func(context.Context, *CallContext, c22rParams) (int64, error) { atomic.AddInt32(&work, 1); return 1, nil })
		schema := arrow.NewSchema([]arrow.Field{{Name: "value", Type: arrow.PrimitiveTypes.Int64}}, nil)
		Producer[c22rParams](s, "p", schema, func(context.Context, *CallContext, c22rParams) (*StreamResult, error) {
			atomic.AddInt32(&work, 1)
			return nil, &RpcError{Type: "ValueError", Message: "x"}
		})
		h := NewHttpServer(s)
		if prefix != "" {
			h.SetPrefix(prefix)
		}
		h.SetUploadURLProvider(&c22rProvider{calls: &work})
		h.SetAuthenticate(func(*http.Request) (*AuthContext, error) {
			return nil, NewAuthFailure(AuthReasonInvalidCredential, "rejected")
		})
		if err := h.EnableTokenIntrospection(TokenIntrospectionConfig{
			Resolver:   func(string) (TokenIdentity, bool, error) { atomic.AddInt32(&work, 1); return TokenIdentity{}, false, nil },
			Principals: []string{"svc"},
		}); err != nil {
			t.Fatal(err)
		}
		h.EnableSticky(time.Minute)
		if err := h.SetOAuthResourceMetadata(&OAuthResourceMetadata{
			Resource: "https://rpc.example.test" + prefix, AuthorizationServers: []string{"https://idp.example.test"}, ClientID: "cid", ClientSecret: "sec",
		}); err != nil {
			t.Fatal(err)
		}
		if err := h.SetOAuthPkce(OAuthPkceConfig{}); err != nil {
			t.Fatal(err)
		}
		custom := "GET " + prefix + "/__operator_probe__"
		h.Handle(custom, func(w http.ResponseWriter, _ *http.Request) { w.WriteHeader(204) })
		h.InitPages()

		patterns := c22rPatterns(h.mux)
		if len(patterns) < 8 {
			t.Fatalf("prefix %q: only %d patterns read out of the mux (%q): the reflection walk no longer fits net/http", prefix, len(patterns), patterns)
		}
		public := func(p string) bool {
			path := p
			if i := strings.Index(p, " "); i >= 0 {
				path = p[i+1:]
			}
			switch {
			case p == custom:
				return true
			case path == "/health", path == prefix+"/health":
				return true
			case strings.Contains(path, "/.well-known/"):
				return true
			case strings.HasPrefix(path, prefix+"/_oauth/"):
				return true
			case path == prefix+"/describe", path == prefix, path == "/{$}", path == "/":
				return strings.HasPrefix(p, "GET ") || p == "/"
			case p == "DELETE "+prefix+"/__session__":
				return true
			}
			return false
		}
		// a request body every RPC route would accept if it got that far
		b := array.NewInt64Builder(memory.NewGoAllocator())
		b.Append(1)
		col := b.NewArray()
		b.Release()
		rec := array.NewRecordBatch(schema, []arrow.Array{col}, 1)
		col.Release()
		for _, p := range patterns {
			methods := []string{"GET", "POST", "DELETE", "PUT"}
			path := p
			if i := strings.Index(p, " "); i >= 0 {
				methods, path = []string{p[:i]}, p[i+1:]
			}
			path = strings.ReplaceAll(path, "{$}", "")
			for _, name := range []string{"m", "p", "__describe__", "__upload_url__", "nosuch"} {
				concrete := strings.ReplaceAll(path, "{method}", name)
				if strings.Contains(concrete, "{") {
					t.Errorf("prefix %q: pattern %q has a wildcard this witness does not know", prefix, p)
					break
				}
				for _, m := range methods {
					var body bytes.Buffer
					if err := WriteRequest(&body, name, rec, ""); err != nil {
						t.Fatal(err)
					}
					req := httptest.NewRequest(m, concrete, &body)
					req.Header.Set("Content-Type", arrowContentType)
					w := httptest.NewRecorder()
					before := atomic.LoadInt32(&work)
					h.ServeHTTP(w, req)
					if atomic.LoadInt32(&work) != before {
						t.Errorf("prefix %q: %s %s (pattern %q): a handler, provider or resolver ran for a rejected request", prefix, m, concrete, p)
					}
					if !public(p) && w.Code != http.StatusUnauthorized {
						t.Errorf("prefix %q: %s %s (pattern %q) answered %d to a rejected request, want 401: the route is not one the property lists as public", prefix, m, concrete, p, w.Code)
					}
				}
				if !strings.Contains(path, "{method}") {
					break
				}
			}
		}
		rec.Release()
		h.DrainHandle().Shutdown()
	}
}
