package vgirpc

// Replay for property C37 (error agreement): when a dispatched call is answered with an error
// response, the dispatch hook's end callback must be told about the error too.
// Here the exchange /init cannot seal its state token (the state is not gob-encodable): the
// client receives an error response; the hook must not be told the call succeeded.

import (
	"bytes"
	"context"
	"io"
	"net/http"
	"net/http/httptest"
	"sync"
	"testing"

	"github.com/apache/arrow-go/v18/arrow"
	"github.com/apache/arrow-go/v18/arrow/array"
	"github.com/apache/arrow-go/v18/arrow/memory"
)

type c37Hook struct {
	mu   sync.Mutex
	ends []error
}

func (h *c37Hook) OnDispatchStart(ctx context.Context, _ DispatchInfo) (context.Context, HookToken) {
	return ctx, 1
}
func (h *c37Hook) OnDispatchEnd(_ context.Context, _ HookToken, _ DispatchInfo, _ *CallStatistics, err error) {
	h.mu.Lock()
	h.ends = append(h.ends, err)
	h.mu.Unlock()
}

type c37Params struct {
	F float64 `vgirpc:"f"`
}
type c37State struct{ C chan int } // gob cannot encode a channel: sealing the token fails

func (s *c37State) Exchange(_ context.Context, in arrow.RecordBatch, out *OutputCollector, _ *CallContext) error {
	in.Retain()
	return out.Emit(in)
}

func TestVerifReplay(t *testing.T) {
	vs := arrow.NewSchema([]arrow.Field{{Name: "value", Type: arrow.PrimitiveTypes.Float64}}, nil)
	srv := NewServer()
	hook := &c37Hook{}
	srv.SetDispatchHook(hook)
	Exchange(srv, "x", vs, vs, func(context.Context, *CallContext, c37Params) (*StreamResult, error) {
		return &StreamResult{OutputSchema: vs, InputSchema: vs, State: &c37State{C: make(chan int)}}, nil
	})
	h := NewHttpServer(srv)
	h.InitPages()
	ts := httptest.NewServer(h)
	defer ts.Close()
	pb := array.NewFloat64Builder(memory.NewGoAllocator())
	pb.Append(1)
	ps := arrow.NewSchema([]arrow.Field{{Name: "f", Type: arrow.PrimitiveTypes.Float64}}, nil)
	var body bytes.Buffer
	if err := WriteRequest(&body, "x", array.NewRecordBatch(ps, []arrow.Array{pb.NewArray()}, 1), ""); err != nil {
		t.Fatal(err)
	}
	resp, err := http.Post(ts.URL+"/x/init", arrowContentType, &body)
	if err != nil {
		t.Fatal(err)
	}
	io.Copy(io.Discard, resp.Body)
	resp.Body.Close()
	isErr := resp.StatusCode != 200 || resp.Header.Get("X-VGI-RPC-Error") != ""
	if !isErr {
		t.Skipf("init unexpectedly succeeded (status %d)", resp.StatusCode)
	}
	hook.mu.Lock()
	defer hook.mu.Unlock()
	if len(hook.ends) != 1 {
		t.Fatalf("expected exactly one OnDispatchEnd, got %d", len(hook.ends))
	}
	if hook.ends[0] == nil {
		t.Fatalf("the client received an error response (status %d, X-VGI-RPC-Error=%q) but the hook's end callback reported err == nil", resp.StatusCode, resp.Header.Get("X-VGI-RPC-Error"))
	}
}
