// Belongs in: vgirpc/  (package vgirpc, main module at the worktree root)
//
// Scout tests for property C06 — "Pipe streams obey the lockstep contract".
// Tests named TestScout*Violation* FAIL on the unchanged code; tests named
// TestScoutSanity* pass and document what was checked and found to hold.

package vgirpc

import (
	"bytes"
	"context"
	"errors"
	"fmt"
	"io"
	"testing"
	"time"

	"github.com/apache/arrow-go/v18/arrow"
	"github.com/apache/arrow-go/v18/arrow/array"
	"github.com/apache/arrow-go/v18/arrow/ipc"
	"github.com/apache/arrow-go/v18/arrow/memory"
)

// ---------------------------------------------------------------- harness

var scoutSchema = arrow.NewSchema([]arrow.Field{{Name: "value", Type: arrow.PrimitiveTypes.Int64}}, nil)

type scoutParams struct {
	Value int64 `vgirpc:"value"`
}

func scoutInt64Batch(schema *arrow.Schema, v int64) arrow.RecordBatch {
	b := array.NewInt64Builder(memory.NewGoAllocator())
	b.Append(v)
	col := b.NewArray()
	b.Release()
	rec := array.NewRecordBatch(schema, []arrow.Array{col}, 1)
	col.Release()
	return rec
}

func scoutRequest(t *testing.T, method string) []byte {
	t.Helper()
	p := scoutInt64Batch(scoutSchema, 1)
	defer p.Release()
	var buf bytes.Buffer
	if err := WriteRequest(&buf, method, p, ""); err != nil {
		t.Fatal(err)
	}
	return buf.Bytes()
}

// scoutInput describes one client input batch: a value, or a cancel batch.
type scoutInput struct {
	value  int64
	cancel bool
}

// scoutInputStream builds the client's input IPC stream (schema + batches + EOS).
func scoutInputStream(t *testing.T, inputs []scoutInput) []byte {
	t.Helper()
	var buf bytes.Buffer
	w := ipc.NewWriter(&buf, ipc.WithSchema(scoutSchema))
	for _, in := range inputs {
		rec := scoutInt64Batch(scoutSchema, in.value)
		var toWrite arrow.RecordBatch = rec
		if in.cancel {
			md := arrow.NewMetadata([]string{MetaCancel}, []string{"1"})
			toWrite = array.NewRecordBatchWithMetadata(scoutSchema, rec.Columns(), rec.NumRows(), md)
		}
		if err := w.Write(toWrite); err != nil {
			t.Fatal(err)
		}
		if in.cancel {
			toWrite.Release()
		}
		rec.Release()
	}
	if err := w.Close(); err != nil {
		t.Fatal(err)
	}
	return buf.Bytes()
}

func scoutTicks(n int) []scoutInput {
	out := make([]scoutInput, n)
	for i := range out {
		out[i] = scoutInput{value: int64(i)}
	}
	return out
}

// scoutItem is one batch of a response stream, classified.
type scoutItem struct {
	kind  string // "data", "log", "exception"
	value int64  // first int64 cell for data batches (if any)
	msg   string // log / exception message
	rows  int64
}

func (i scoutItem) String() string {
	switch i.kind {
	case "data":
		return fmt.Sprintf("data(%d)", i.value)
	default:
		return fmt.Sprintf("%s(%q)", i.kind, i.msg)
	}
}

// scoutParseStreams splits the response bytes into consecutive IPC streams.
func scoutParseStreams(t *testing.T, body []byte) [][]scoutItem {
	t.Helper()
	var streams [][]scoutItem
	rd := bytes.NewReader(body)
	for rd.Len() > 0 {
		r, err := ipc.NewReader(rd)
		if err != nil {
			t.Fatalf("response stream %d does not open: %v (remaining %d bytes)", len(streams), err, rd.Len())
		}
		items := []scoutItem{}
		for r.Next() {
			rec := r.RecordBatch()
			it := scoutItem{kind: "data", rows: rec.NumRows()}
			if bwm, ok := rec.(arrow.RecordBatchWithMetadata); ok {
				md := bwm.Metadata()
				if lvl, ok := md.GetValue(MetaLogLevel); ok {
					it.kind = "log"
					if lvl == string(LogException) {
						it.kind = "exception"
					}
					it.msg, _ = md.GetValue(MetaLogMessage)
				}
			}
			if it.kind == "data" && rec.NumRows() > 0 && rec.NumCols() > 0 {
				if c, ok := rec.Column(0).(*array.Int64); ok {
					it.value = c.Value(0)
				}
			}
			items = append(items, it)
		}
		if err := r.Err(); err != nil && !errors.Is(err, io.EOF) {
			t.Fatalf("response stream %d read error: %v", len(streams), err)
		}
		r.Release()
		streams = append(streams, items)
	}
	return streams
}

func scoutKinds(items []scoutItem) []string {
	out := make([]string, len(items))
	for i, it := range items {
		out[i] = it.String()
	}
	return out
}

func scoutCount(items []scoutItem, kind string) int {
	n := 0
	for _, it := range items {
		if it.kind == kind {
			n++
		}
	}
	return n
}

// scoutServe feeds `wire` to the real pipe serve loop and returns everything
// the server wrote. A panic escaping the serve loop is reported as panicVal.
func scoutServe(s *Server, wire []byte) (out []byte, panicVal any) {
	var resp bytes.Buffer
	func() {
		defer func() { panicVal = recover() }()
		s.ServeWithContext(context.Background(), bytes.NewReader(wire), &resp)
	}()
	return resp.Bytes(), panicVal
}

func scoutRegisterPing(s *Server) {
	Unary(s, "ping", func(_ context.Context, _ *CallContext, p scoutParams) (int64, error) {
		return p.Value + 41, nil
	})
}

// ------------------------------------------------------------ sanity checks

type scoutEchoExchange struct {
	turns   int
	cancels int
	logVia  string // "out", "ctx" or ""
	failAt  int    // turn index (1-based) at which to fail; 0 = never
	failHow string // "error", "panic", "nodata", "emit-then-error", "finish"
}

func (s *scoutEchoExchange) OnCancel(context.Context, *CallContext) error {
	s.cancels++
	return nil
}

func (s *scoutEchoExchange) Exchange(_ context.Context, in arrow.RecordBatch, out *OutputCollector, cc *CallContext) error {
	s.turns++
	v := in.Column(0).(*array.Int64).Value(0)
	switch s.logVia {
	case "out":
		out.ClientLog(LogInfo, fmt.Sprintf("turn %d", v))
	case "ctx":
		cc.ClientLog(LogInfo, fmt.Sprintf("turn %d", v))
	}
	if s.failAt == s.turns {
		switch s.failHow {
		case "error":
			return errors.New("boom")
		case "panic":
			panic("kaboom")
		case "nodata":
			return nil
		case "emit-then-error":
			_ = out.EmitMap(map[string][]interface{}{"value": {v}})
			return errors.New("boom after emit")
		case "finish":
			if err := out.Finish(); err != nil {
				return err
			}
		}
	}
	return out.EmitMap(map[string][]interface{}{"value": {v * 10}})
}

func scoutExchangeServer(state *scoutEchoExchange) *Server {
	s := NewServer()
	Exchange(s, "ex", scoutSchema, scoutSchema,
		func(context.Context, *CallContext, scoutParams) (*StreamResult, error) {
			return &StreamResult{OutputSchema: scoutSchema, InputSchema: scoutSchema, State: state}, nil
		})
	scoutRegisterPing(s)
	return s
}

// Holds: one data batch per input, in order, out.ClientLog logs precede data.
func TestScoutSanityExchangeLockstep(t *testing.T) {
	state := &scoutEchoExchange{logVia: "out"}
	s := scoutExchangeServer(state)
	wire := append(scoutRequest(t, "ex"), scoutInputStream(t, scoutTicks(4))...)
	wire = append(wire, scoutRequest(t, "ping")...)
	out, pv := scoutServe(s, wire)
	if pv != nil {
		t.Fatalf("serve loop panicked: %v", pv)
	}
	streams := scoutParseStreams(t, out)
	if len(streams) != 2 {
		t.Fatalf("want 2 response streams, got %d", len(streams))
	}
	want := []string{`log("turn 0")`, "data(0)", `log("turn 1")`, "data(10)", `log("turn 2")`, "data(20)", `log("turn 3")`, "data(30)"}
	if got := scoutKinds(streams[0]); fmt.Sprint(got) != fmt.Sprint(want) {
		t.Fatalf("got %v\nwant %v", got, want)
	}
}

// Holds: every failing-turn shape ends the stream with exactly one exception
// batch, no data for the failing turn, no further turn, and the connection
// keeps serving.
func TestScoutSanityFailingTurns(t *testing.T) {
	for _, how := range []string{"error", "panic", "nodata", "emit-then-error", "finish"} {
		t.Run(how, func(t *testing.T) {
			state := &scoutEchoExchange{failAt: 2, failHow: how}
			s := scoutExchangeServer(state)
			wire := append(scoutRequest(t, "ex"), scoutInputStream(t, scoutTicks(4))...)
			wire = append(wire, scoutRequest(t, "ping")...)
			out, pv := scoutServe(s, wire)
			if pv != nil {
				t.Fatalf("serve loop panicked: %v", pv)
			}
			streams := scoutParseStreams(t, out)
			if len(streams) != 2 {
				t.Fatalf("want 2 response streams, got %d: %v", len(streams), streams)
			}
			got := streams[0]
			if len(got) != 2 || got[0].String() != "data(0)" || got[1].kind != "exception" {
				t.Fatalf("want [data(0) exception], got %v", scoutKinds(got))
			}
			if state.turns != 2 {
				t.Fatalf("turns run = %d, want 2", state.turns)
			}
			if scoutCount(streams[1], "data") != 1 || streams[1][len(streams[1])-1].value != 42 {
				t.Fatalf("follow-up unary not answered: %v", scoutKinds(streams[1]))
			}
		})
	}
}

// Holds: cancel → hook exactly once, no further turn, trailing input drained.
func TestScoutSanityCancel(t *testing.T) {
	state := &scoutEchoExchange{}
	s := scoutExchangeServer(state)
	inputs := []scoutInput{{value: 1}, {cancel: true}, {value: 2}, {cancel: true}, {value: 3}}
	wire := append(scoutRequest(t, "ex"), scoutInputStream(t, inputs)...)
	wire = append(wire, scoutRequest(t, "ping")...)
	out, pv := scoutServe(s, wire)
	if pv != nil {
		t.Fatalf("serve loop panicked: %v", pv)
	}
	streams := scoutParseStreams(t, out)
	if state.cancels != 1 || state.turns != 1 {
		t.Fatalf("cancels=%d turns=%d, want 1/1", state.cancels, state.turns)
	}
	if len(streams) != 2 || fmt.Sprint(scoutKinds(streams[0])) != "[data(10)]" {
		t.Fatalf("unexpected response: %v", streams)
	}
}

type scoutProducer struct {
	n, limit       int
	emitWithFinish bool
}

func (p *scoutProducer) Produce(_ context.Context, out *OutputCollector, _ *CallContext) error {
	if p.n >= p.limit {
		if p.emitWithFinish {
			_ = out.EmitMap(map[string][]interface{}{"value": {int64(99)}})
		}
		return out.Finish()
	}
	p.n++
	out.ClientLog(LogInfo, fmt.Sprintf("tick %d", p.n))
	return out.EmitMap(map[string][]interface{}{"value": {int64(p.n)}})
}

// Holds: one data batch per tick until Finish; stream ends right after; the
// ticks the client sent past the end are drained.
func TestScoutSanityProducer(t *testing.T) {
	state := &scoutProducer{limit: 2}
	s := NewServer()
	Producer(s, "prod", scoutSchema, func(context.Context, *CallContext, scoutParams) (*StreamResult, error) {
		return &StreamResult{OutputSchema: scoutSchema, State: state}, nil
	})
	scoutRegisterPing(s)
	wire := append(scoutRequest(t, "prod"), scoutInputStream(t, scoutTicks(6))...)
	wire = append(wire, scoutRequest(t, "ping")...)
	out, pv := scoutServe(s, wire)
	if pv != nil {
		t.Fatalf("serve loop panicked: %v", pv)
	}
	streams := scoutParseStreams(t, out)
	want := `[log("tick 1") data(1) log("tick 2") data(2)]`
	if len(streams) != 2 || fmt.Sprint(scoutKinds(streams[0])) != want {
		t.Fatalf("got %v want %s", streams, want)
	}
}

// ------------------------------------------------------------- violations

// V1. "preceded by that turn's logs": a turn that logs through the
// CallContext it is handed (the documented "Record a log message for the
// client" API, the only logging API an init/unary handler has) loses every
// such message: iterCtx.logs is never drained in the lockstep loop.
func TestScoutViolationTurnCallContextLogsAreLost(t *testing.T) {
	state := &scoutEchoExchange{logVia: "ctx"}
	s := scoutExchangeServer(state)
	wire := append(scoutRequest(t, "ex"), scoutInputStream(t, scoutTicks(3))...)
	out, pv := scoutServe(s, wire)
	if pv != nil {
		t.Fatalf("serve loop panicked: %v", pv)
	}
	streams := scoutParseStreams(t, out)
	if len(streams) != 1 {
		t.Fatalf("want 1 response stream, got %d", len(streams))
	}
	want := []string{`log("turn 0")`, "data(0)", `log("turn 1")`, "data(10)", `log("turn 2")`, "data(20)"}
	if got := scoutKinds(streams[0]); fmt.Sprint(got) != fmt.Sprint(want) {
		t.Fatalf("turn logs recorded with CallContext.ClientLog never reach the client\n got  %v\n want %v", got, want)
	}
}

// V2. A turn whose data batch the collector ACCEPTS (Emit returns nil) but
// whose column count differs from the output schema is neither delivered nor
// turned into an exception batch: the IPC writer refuses it, serveStream
// reports it as a *transport* error, the stream ends with a bare EOS and the
// whole pipe serve loop exits — later requests on the connection are never
// answered.
type scoutWideExchange struct{ turns int }

func (s *scoutWideExchange) Exchange(_ context.Context, in arrow.RecordBatch, out *OutputCollector, _ *CallContext) error {
	s.turns++
	wide := arrow.NewSchema([]arrow.Field{
		{Name: "value", Type: arrow.PrimitiveTypes.Int64},
		{Name: "extra", Type: arrow.PrimitiveTypes.Int64},
	}, nil)
	rec := array.NewRecordBatch(wide, []arrow.Array{in.Column(0), in.Column(0)}, in.NumRows())
	return out.Emit(rec) // returns nil: the collector takes the batch
}

func TestScoutViolationWrongWidthBatchEndsStreamSilently(t *testing.T) {
	state := &scoutWideExchange{}
	s := NewServer()
	Exchange(s, "ex", scoutSchema, scoutSchema,
		func(context.Context, *CallContext, scoutParams) (*StreamResult, error) {
			return &StreamResult{OutputSchema: scoutSchema, InputSchema: scoutSchema, State: state}, nil
		})
	scoutRegisterPing(s)
	wire := append(scoutRequest(t, "ex"), scoutInputStream(t, scoutTicks(3))...)
	wire = append(wire, scoutRequest(t, "ping")...)
	out, pv := scoutServe(s, wire)
	if pv != nil {
		t.Fatalf("serve loop panicked: %v", pv)
	}
	streams := scoutParseStreams(t, out)
	t.Logf("turns run=%d, response streams=%d, first stream=%v", state.turns, len(streams), scoutKinds(streams[0]))
	first := streams[0]
	if scoutCount(first, "data") == 0 && scoutCount(first, "exception") != 1 {
		t.Errorf("input batch 0 got neither a data batch nor an exception batch: stream = %v", scoutKinds(first))
	}
	if len(streams) != 2 {
		t.Errorf("the follow-up request on the same pipe was never answered: %d response stream(s)", len(streams))
	}
}

// V3. "A header returned by the init handler arrives as its own stream before
// any data": when the header cannot be serialized (its ArrowSchema names a
// column the struct does not carry) serveStream treats it as a transport error
// and returns (nil, nil) having written NOTHING — no header, no error stream —
// and without consuming the client's input stream, which the serve loop then
// parses as the next *request*.
type scoutBadHeader struct {
	Title string `arrow:"title"`
}

func (scoutBadHeader) ArrowSchema() *arrow.Schema {
	return arrow.NewSchema([]arrow.Field{
		{Name: "title", Type: arrow.BinaryTypes.String},
		{Name: "missing", Type: arrow.PrimitiveTypes.Int64},
	}, nil)
}

func TestScoutObserveUnserializableHeaderBatchFedPipe(t *testing.T) {
	state := &scoutProducer{limit: 2}
	s := NewServer()
	hdr := scoutBadHeader{Title: "t"}
	ProducerWithHeader(s, "prod", scoutSchema, hdr.ArrowSchema(),
		func(context.Context, *CallContext, scoutParams) (*StreamResult, error) {
			return &StreamResult{OutputSchema: scoutSchema, State: state, Header: hdr}, nil
		})
	scoutRegisterPing(s)
	wire := append(scoutRequest(t, "prod"), scoutInputStream(t, scoutTicks(3))...)
	wire = append(wire, scoutRequest(t, "ping")...)
	out, pv := scoutServe(s, wire)
	if pv != nil {
		t.Fatalf("serve loop panicked: %v", pv)
	}
	streams := scoutParseStreams(t, out)
	for i, st := range streams {
		t.Logf("response stream %d: %v", i, scoutKinds(st))
	}
	// Whatever the server does about the bad header, the call must be answered
	// by a stream of its own (header or exception) and the follow-up ping must
	// be answered with 42 — i.e. exactly two well-formed answers, in order.
	if len(streams) < 2 {
		t.Fatalf("want >=2 response streams, got %d", len(streams))
	}
	if scoutCount(streams[0], "exception") != 1 && scoutCount(streams[0], "data") == 0 {
		t.Errorf("stream call got no header and no exception: %v", scoutKinds(streams[0]))
	}
	last := streams[len(streams)-1]
	if scoutCount(last, "data") != 1 || last[len(last)-1].value != 42 {
		t.Errorf("follow-up ping not answered correctly: %v", scoutKinds(last))
	}
	for i, st := range streams {
		for _, it := range st {
			if it.kind == "exception" && i > 0 && i < len(streams)-1 {
				t.Errorf("spurious answer #%d: the client's tick stream was parsed as a request: %s", i, it)
			}
		}
	}
	if state.n != 0 {
		t.Logf("note: %d producer turns ran", state.n)
	}
}

// V4. A typed-nil header pointer passes the `Header != nil` test and panics
// inside writeStreamHeader, outside every recover: the panic escapes
// ServeWithContext (in RunStdio: kills the worker process).
type scoutPtrHeader struct {
	Title string `arrow:"title"`
}

func (*scoutPtrHeader) ArrowSchema() *arrow.Schema {
	return arrow.NewSchema([]arrow.Field{{Name: "title", Type: arrow.BinaryTypes.String}}, nil)
}

func TestScoutViolationTypedNilHeaderPanicsServeLoop(t *testing.T) {
	state := &scoutProducer{limit: 2}
	s := NewServer()
	var hdr *scoutPtrHeader
	ProducerWithHeader(s, "prod", scoutSchema, hdr.ArrowSchema(),
		func(context.Context, *CallContext, scoutParams) (*StreamResult, error) {
			return &StreamResult{OutputSchema: scoutSchema, State: state, Header: hdr}, nil
		})
	scoutRegisterPing(s)
	wire := append(scoutRequest(t, "prod"), scoutInputStream(t, scoutTicks(3))...)
	wire = append(wire, scoutRequest(t, "ping")...)
	_, pv := scoutServe(s, wire)
	if pv != nil {
		t.Fatalf("panic escaped the pipe serve loop: %v", pv)
	}
}

// V5. A StreamResult that leaves OutputSchema nil (the schema was already
// given at registration) makes the first turn panic inside the collector; the
// recover then calls writeErrorBatch with the nil schema, which panics again —
// this time outside every recover.
func TestScoutViolationNilOutputSchemaPanicsServeLoop(t *testing.T) {
	state := &scoutEchoExchange{}
	s := NewServer()
	Exchange(s, "ex", scoutSchema, scoutSchema,
		func(context.Context, *CallContext, scoutParams) (*StreamResult, error) {
			return &StreamResult{State: state}, nil
		})
	scoutRegisterPing(s)
	wire := append(scoutRequest(t, "ex"), scoutInputStream(t, scoutTicks(3))...)
	wire = append(wire, scoutRequest(t, "ping")...)
	out, pv := scoutServe(s, wire)
	if pv != nil {
		t.Fatalf("panic escaped the pipe serve loop: %v", pv)
	}
	streams := scoutParseStreams(t, out)
	if len(streams) != 2 || scoutCount(streams[0], "exception") != 1 {
		t.Fatalf("want [exception-stream, ping-answer], got %v", streams)
	}
}

// Producer: Emit and Finish in the same turn. Recorded as an observation.
func TestScoutObserveEmitAndFinishSameTurn(t *testing.T) {
	state := &scoutProducer{limit: 1, emitWithFinish: true}
	s := NewServer()
	Producer(s, "prod", scoutSchema, func(context.Context, *CallContext, scoutParams) (*StreamResult, error) {
		return &StreamResult{OutputSchema: scoutSchema, State: state}, nil
	})
	wire := append(scoutRequest(t, "prod"), scoutInputStream(t, scoutTicks(4))...)
	out, _ := scoutServe(s, wire)
	streams := scoutParseStreams(t, out)
	t.Logf("emit+finish in one turn: %v", scoutKinds(streams[0]))
}

// V3 (interactive form). With a real lockstep client — one that waits for the
// header stream before it sends its first tick — the unserializable header
// makes the call hang: the server has written nothing and is already blocked
// in ReadRequest waiting for the "next request", the client is blocked waiting
// for the header/exception stream.
func TestScoutViolationUnserializableHeaderHangsLockstepClient(t *testing.T) {
	state := &scoutProducer{limit: 2}
	s := NewServer()
	hdr := scoutBadHeader{Title: "t"}
	ProducerWithHeader(s, "prod", scoutSchema, hdr.ArrowSchema(),
		func(context.Context, *CallContext, scoutParams) (*StreamResult, error) {
			return &StreamResult{OutputSchema: scoutSchema, State: state, Header: hdr}, nil
		})

	c2sR, c2sW := io.Pipe()
	s2cR, s2cW := io.Pipe()
	go s.ServeWithContext(context.Background(), c2sR, s2cW)
	defer func() { c2sW.Close(); s2cR.Close() }()

	go func() { _, _ = c2sW.Write(scoutRequest(t, "prod")) }()

	got := make(chan []string, 1)
	go func() {
		r, err := ipc.NewReader(s2cR)
		if err != nil {
			got <- []string{"open error: " + err.Error()}
			return
		}
		var kinds []string
		for r.Next() {
			k := "data"
			if bwm, ok := r.RecordBatch().(arrow.RecordBatchWithMetadata); ok {
				if lvl, ok := bwm.Metadata().GetValue(MetaLogLevel); ok {
					k = "log:" + lvl
				}
			}
			kinds = append(kinds, k)
		}
		got <- kinds
	}()
	select {
	case kinds := <-got:
		t.Logf("first response stream: %v", kinds)
	case <-time.After(3 * time.Second):
		t.Fatal("stream call with an unserializable header: the server wrote nothing (no header stream, no exception stream) within 3s; client and server are deadlocked")
	}
}

// Same-width, wrong-type batch: Emit panics inside NewRecordBatch, the turn's
// recover turns it into one exception batch. Holds.
type scoutWrongTypeExchange struct{}

func (scoutWrongTypeExchange) Exchange(_ context.Context, in arrow.RecordBatch, out *OutputCollector, _ *CallContext) error {
	sb := array.NewStringBuilder(memory.NewGoAllocator())
	sb.Append("x")
	col := sb.NewArray()
	sb.Release()
	defer col.Release()
	other := arrow.NewSchema([]arrow.Field{{Name: "value", Type: arrow.BinaryTypes.String}}, nil)
	return out.Emit(array.NewRecordBatch(other, []arrow.Array{col}, 1))
}

func TestScoutSanityWrongTypeBatch(t *testing.T) {
	s := NewServer()
	Exchange(s, "ex", scoutSchema, scoutSchema,
		func(context.Context, *CallContext, scoutParams) (*StreamResult, error) {
			return &StreamResult{OutputSchema: scoutSchema, InputSchema: scoutSchema, State: scoutWrongTypeExchange{}}, nil
		})
	scoutRegisterPing(s)
	wire := append(scoutRequest(t, "ex"), scoutInputStream(t, scoutTicks(3))...)
	wire = append(wire, scoutRequest(t, "ping")...)
	out, pv := scoutServe(s, wire)
	if pv != nil {
		t.Fatalf("serve loop panicked: %v", pv)
	}
	streams := scoutParseStreams(t, out)
	if len(streams) != 2 || len(streams[0]) != 1 || streams[0][0].kind != "exception" {
		t.Fatalf("want [[exception] [ping]], got %v", streams)
	}
}

// TestVerifReplay: the reproducer of the repaired defect (logs a turn recorded on its CallContext never reached a pipe client) and the scout's passing lockstep sweeps; the other TestScoutViolation* functions reproduce findings that are not repaired and are not run
func TestVerifReplay(t *testing.T) {
	t.Run("TestScoutSanityExchangeLockstep", TestScoutSanityExchangeLockstep)
	t.Run("TestScoutSanityFailingTurns", TestScoutSanityFailingTurns)
	t.Run("TestScoutSanityCancel", TestScoutSanityCancel)
	t.Run("TestScoutSanityProducer", TestScoutSanityProducer)
	t.Run("TestScoutViolationTurnCallContextLogsAreLost", TestScoutViolationTurnCallContextLogsAreLost)
	t.Run("TestScoutObserveEmitAndFinishSameTurn", TestScoutObserveEmitAndFinishSameTurn)
	t.Run("TestScoutSanityWrongTypeBatch", TestScoutSanityWrongTypeBatch)
}
