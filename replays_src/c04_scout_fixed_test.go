// Scout reproducers for property C04 ("Unary calls return the handler's value
// or its error, after its logs").
//
// This file belongs in: vgirpc/   (package vgirpc, main module)
// Run:  go test ./vgirpc -run TestScout -count=1 -v
//
// Every TestScout* below FAILS on the unchanged code.
package vgirpc

import (
	"bytes"
	"context"
	"errors"
	"fmt"
	"net/http"
	"net/http/httptest"
	"reflect"
	"testing"
	"time"

	"github.com/apache/arrow-go/v18/arrow"
	"github.com/apache/arrow-go/v18/arrow/array"
	"github.com/apache/arrow-go/v18/arrow/ipc"
)

// ---------------------------------------------------------------- helpers

type scoutBatch struct {
	rows  int64
	level string
	msg   string
	reqID string
	hasID bool
	cols  []string // String() of each column
}

func (b scoutBatch) String() string {
	m := b.msg
	if len(m) > 90 {
		m = m[:90] + "..."
	}
	c := fmt.Sprint(b.cols)
	if len(c) > 60 {
		c = c[:60] + "..."
	}
	return fmt.Sprintf("{rows=%d level=%q msg=%q reqID=%q cols=%s}", b.rows, b.level, m, b.reqID, c)
}

// scoutRequest frames an empty-params request for method with a request id and
// (optional) requested log level.
func scoutRequest(t *testing.T, method, requestID, logLevel string) []byte {
	t.Helper()
	keys := []string{MetaMethod, MetaRequestVersion}
	vals := []string{method, ProtocolVersion}
	if requestID != "" {
		keys = append(keys, MetaRequestID)
		vals = append(vals, requestID)
	}
	if logLevel != "" {
		keys = append(keys, MetaLogLevel)
		vals = append(vals, logLevel)
	}
	schema := arrow.NewSchema(nil, nil)
	rec := array.NewRecordBatchWithMetadata(schema, nil, 1, arrow.NewMetadata(keys, vals))
	defer rec.Release()
	var buf bytes.Buffer
	w := ipc.NewWriter(&buf, ipc.WithSchema(schema))
	if err := w.Write(rec); err != nil {
		t.Fatal(err)
	}
	if err := w.Close(); err != nil {
		t.Fatal(err)
	}
	return buf.Bytes()
}

func scoutParse(t *testing.T, body []byte) (*arrow.Schema, []scoutBatch) {
	t.Helper()
	r, err := ipc.NewReader(bytes.NewReader(body))
	if err != nil {
		t.Fatalf("response is not an IPC stream (%d bytes): %v", len(body), err)
	}
	defer r.Release()
	var out []scoutBatch
	for r.Next() {
		rec := r.RecordBatch()
		sb := scoutBatch{rows: rec.NumRows()}
		if wm, ok := rec.(arrow.RecordBatchWithMetadata); ok {
			md := wm.Metadata()
			sb.level, _ = md.GetValue(MetaLogLevel)
			sb.msg, _ = md.GetValue(MetaLogMessage)
			sb.reqID, sb.hasID = md.GetValue(MetaRequestID)
		}
		for i := 0; i < int(rec.NumCols()); i++ {
			sb.cols = append(sb.cols, rec.Column(i).String())
		}
		out = append(out, sb)
	}
	if err := r.Err(); err != nil {
		t.Fatalf("reading response: %v", err)
	}
	return r.Schema(), out
}

// scoutPipe runs one request through the pipe/stdio dispatch path
// (Server.serveOne, exactly what Serve/RunStdio loop over).
func scoutPipe(t *testing.T, s *Server, method, requestID, logLevel string) (body []byte, panicked any) {
	t.Helper()
	var resp bytes.Buffer
	func() {
		defer func() { panicked = recover() }()
		if err := s.serveOne(context.Background(), bytes.NewReader(scoutRequest(t, method, requestID, logLevel)), &resp, &shmConnState{}); err != nil {
			t.Fatalf("serveOne transport error: %v", err)
		}
	}()
	return resp.Bytes(), panicked
}

// scoutHTTP runs one request through the HTTP unary path.
func scoutHTTP(t *testing.T, s *Server, method, requestID, logLevel string) []byte {
	t.Helper()
	rr := httptest.NewRecorder()
	req := httptest.NewRequest(http.MethodPost, "/"+method, bytes.NewReader(scoutRequest(t, method, requestID, logLevel)))
	req.Header.Set("Content-Type", arrowContentType)
	NewHttpServer(s).ServeHTTP(rr, req)
	return rr.Body.Bytes()
}

// scoutRequireLogsThenException checks the C04 failure shape: the handler's
// logs in order, then exactly one EXCEPTION batch, no result, request id
// echoed on every batch.
func scoutRequireLogsThenException(t *testing.T, bs []scoutBatch, wantLogs []string, rid string) {
	t.Helper()
	t.Logf("response batches: %v", bs)
	bad := false
	if len(bs) != len(wantLogs)+1 {
		t.Errorf("want %d log batches + 1 exception batch, got %d batches", len(wantLogs), len(bs))
		bad = true
	}
	for i, want := range wantLogs {
		if i >= len(bs)-1 || bs[i].msg != want || bs[i].level == string(LogException) {
			t.Errorf("log #%d %q (emitted by the handler before it returned) is missing from the response", i, want)
			bad = true
		}
	}
	if len(bs) > 0 {
		last := bs[len(bs)-1]
		if last.level != string(LogException) {
			t.Errorf("response does not end with an EXCEPTION batch: %v", last)
		}
	}
	for i, b := range bs {
		if b.level != "" && b.reqID != rid {
			t.Errorf("batch #%d (level %s) does not echo the request id: got %q (present=%v), want %q", i, b.level, b.reqID, b.hasID, rid)
			bad = true
		}
	}
	if bad {
		t.FailNow()
	}
}

// ======================================================================
// FINDING 1 — when the handler's return value cannot be encoded, the call
// fails with an EXCEPTION batch, but (a) the handler's logs are dropped on
// both transports and (b) over HTTP the exception batch does not echo the
// client's request id.
//
// Trigger used here: the conformance-style AnnotatedReturn decimal type; the
// handler returns a value that does not fit the declared decimal128
// precision. (Finding 2 gives a second, always-on trigger.)
// ======================================================================

type scoutDecimal string

func (scoutDecimal) VgirpcArrowResult() arrow.DataType {
	return &arrow.Decimal128Type{Precision: 5, Scale: 2}
}

func scoutDecimalServer() *Server {
	s := NewServer()
	Unary(s, "price", func(_ context.Context, c *CallContext, _ struct{}) (scoutDecimal, error) {
		c.ClientLog(LogInfo, "pricing step 1")
		c.ClientLog(LogWarn, "pricing step 2")
		return scoutDecimal("1234567.89"), nil // does not fit decimal128(5,2)
	})
	// control: same logs, but the handler itself returns the error.
	Unary(s, "price_err", func(_ context.Context, c *CallContext, _ struct{}) (scoutDecimal, error) {
		c.ClientLog(LogInfo, "pricing step 1")
		c.ClientLog(LogWarn, "pricing step 2")
		return "", errors.New("no price")
	})
	return s
}

func TestScoutSerializationFailureDropsLogs_Pipe(t *testing.T) {
	s := scoutDecimalServer()
	// control passes: handler error -> logs, then exception, ids echoed.
	body, _ := scoutPipe(t, s, "price_err", "rid-77", "")
	_, bs := scoutParse(t, body)
	scoutRequireLogsThenException(t, bs, []string{"pricing step 1", "pricing step 2"}, "rid-77")

	body, p := scoutPipe(t, s, "price", "rid-77", "")
	if p != nil {
		t.Fatalf("panic: %v", p)
	}
	_, bs = scoutParse(t, body)
	scoutRequireLogsThenException(t, bs, []string{"pricing step 1", "pricing step 2"}, "rid-77")
}

func TestScoutSerializationFailureDropsLogsAndRequestID_HTTP(t *testing.T) {
	s := scoutDecimalServer()
	_, bs := scoutParse(t, scoutHTTP(t, s, "price_err", "rid-77", ""))
	scoutRequireLogsThenException(t, bs, []string{"pricing step 1", "pricing step 2"}, "rid-77")

	_, bs = scoutParse(t, scoutHTTP(t, s, "price", "rid-77", ""))
	scoutRequireLogsThenException(t, bs, []string{"pricing step 1", "pricing step 2"}, "rid-77")
}

// ======================================================================
// FINDING 2 — result types that registration accepts (schema derivation goes
// by reflect.Kind) but the result serializer rejects (it type-switches on the
// exact predeclared types): every call of such a method fails, and for
// list/map element types the failure is an unrecovered panic in the serve
// loop (outside the handler's recover) — the process dies / no response.
// ======================================================================

type scoutCount int64

func TestScoutNamedIntResult(t *testing.T) {
	s := NewServer()
	Unary(s, "count", func(_ context.Context, c *CallContext, _ struct{}) (scoutCount, error) {
		c.ClientLog(LogInfo, "counting")
		return scoutCount(42), nil
	})
	sc, _ := SchemaForResult(reflect.TypeOf(scoutCount(0)))
	t.Logf("declared result schema: %v", sc)
	body, p := scoutPipe(t, s, "count", "rid-1", "")
	if p != nil {
		t.Fatalf("panic: %v", p)
	}
	_, bs := scoutParse(t, body)
	t.Logf("response batches: %v", bs)
	if len(bs) != 2 || bs[0].level != "INFO" || bs[1].rows != 1 || bs[1].cols[0] != "[42]" {
		t.Fatalf("handler returned scoutCount(42), nil; want [INFO log, result 42], got %v", bs)
	}
}

type scoutFlag bool

func TestScoutNamedBoolListCrashesServeLoop(t *testing.T) {
	s := NewServer()
	Unary(s, "flags", func(_ context.Context, c *CallContext, _ struct{}) ([]scoutFlag, error) {
		return []scoutFlag{true, false}, nil
	})
	body, p := scoutPipe(t, s, "flags", "rid-1", "")
	if p != nil {
		t.Fatalf("Server.serveOne panicked outside the handler (Serve/RunStdio would crash the worker; %d response bytes written): %v", len(body), p)
	}
	_, bs := scoutParse(t, body)
	if len(bs) != 1 || bs[0].rows != 1 {
		t.Fatalf("want [1-row result], got %v", bs)
	}
}

// ======================================================================
// FINDING 3 — ClientLog accepts LogException. The log batch it produces is
// indistinguishable on the wire from an error batch, so a call whose handler
// SUCCEEDED carries an exception batch *and* a result batch, and every reader
// in this repo (HttpClient.CallUnary, ReadUnaryResult) reports the call as
// failed and throws the handler's value away.
// ======================================================================

func TestScoutExceptionLevelLogTurnsSuccessIntoFailure(t *testing.T) {
	s := NewServer()
	Unary(s, "ok", func(_ context.Context, c *CallContext, _ struct{}) (string, error) {
		c.ClientLog(LogException, "disk almost full")
		return "fine", nil
	})

	body, _ := scoutPipe(t, s, "ok", "rid-1", "")
	_, bs := scoutParse(t, body)
	t.Logf("pipe response batches: %v", bs)

	httpServer := httptest.NewServer(NewHttpServer(s))
	defer httpServer.Close()
	client, err := NewHttpClient(httpServer.URL)
	if err != nil {
		t.Fatal(err)
	}
	defer client.Close()
	params := emptyBatch(arrow.NewSchema(nil, nil))
	defer params.Release()
	want, _ := SchemaForResult(reflect.TypeOf(""))
	res, err := client.CallUnary(context.Background(), "ok", params, want)
	if err != nil {
		t.Fatalf("handler returned (\"fine\", nil) but the client got an error: %v", err)
	}
	defer res.Release()
	if got := res.Batch.Column(0).(*array.String).Value(0); got != "fine" {
		t.Fatalf("got %q", got)
	}
}

// ======================================================================
// FINDING 4 — Unary[P, R] with an interface R (any, error, fmt.Stringer ...)
// registers without complaint, but reflect.TypeOf of a nil interface is nil,
// so the method is stored as a VOID method. serveUnary then reads results[0]
// (the R value) as if it were the error: a handler that returns (nil, err)
// gets a *success* response and its error is swallowed.
// ======================================================================

func TestScoutInterfaceResultSwallowsHandlerError(t *testing.T) {
	s := NewServer()
	Unary(s, "anyres", func(_ context.Context, c *CallContext, _ struct{}) (any, error) {
		return nil, errors.New("boom")
	})
	body, p := scoutPipe(t, s, "anyres", "rid-1", "")
	if p != nil {
		t.Fatalf("panic: %v", p)
	}
	_, bs := scoutParse(t, body)
	t.Logf("response batches: %v", bs)
	if len(bs) != 1 || bs[0].level != string(LogException) {
		t.Fatalf("handler returned (nil, errors.New(\"boom\")); want exactly one EXCEPTION batch, got %v", bs)
	}
}

// ======================================================================
// OBSERVATIONS (weaker; reported for completeness)
// ======================================================================

// A struct result type without vgirpc tags (time.Time is the natural example)
// registers fine and is "serialized" as an IPC stream of a zero-column record:
// the value is silently lost.
func TestScoutObsTimeResultSilentlyLost(t *testing.T) {
	s := NewServer()
	Unary(s, "now", func(_ context.Context, c *CallContext, _ struct{}) (time.Time, error) {
		return time.Unix(1700000000, 0), nil
	})
	body, _ := scoutPipe(t, s, "now", "rid-1", "")
	_, payload, ok := ReadUnaryResult(body)
	if !ok {
		t.Fatalf("no result")
	}
	r, err := ipc.NewReader(bytes.NewReader(payload))
	if err != nil {
		t.Fatal(err)
	}
	defer r.Release()
	if r.Schema().NumFields() == 0 {
		t.Fatalf("result for time.Unix(1700000000,0) is a record with an EMPTY schema (%v): the returned value is not in the response", r.Schema())
	}
}

// A handler that returns a typed-nil error (`var e *RpcError; return 0, e`,
// the classic Go gotcha: the error interface is non-nil) makes the server
// dereference nil in writeErrorBatch -> err.Error(), outside any recover.
func TestScoutObsTypedNilErrorCrashesServeLoop(t *testing.T) {
	s := NewServer()
	Unary(s, "tn", func(_ context.Context, c *CallContext, _ struct{}) (int64, error) {
		var e *RpcError
		return 0, e
	})
	body, p := scoutPipe(t, s, "tn", "rid-1", "")
	if p != nil {
		t.Fatalf("serveOne panicked (%d response bytes): %v", len(body), p)
	}
}

// (added for the replay: the repaired behaviour for a list of a named bool type is an answer — a
// SerializationError envelope — instead of a panic that leaves serveOne and kills the serve loop)
func TestVerifNamedBoolListIsAnswered(t *testing.T) {
	s := NewServer()
	Unary(s, "flags", func(_ context.Context, c *CallContext, _ struct{}) ([]scoutFlag, error) {
		return []scoutFlag{true, false}, nil
	})
	body, p := scoutPipe(t, s, "flags", "rid-1", "")
	if p != nil {
		t.Fatalf("Server.serveOne panicked outside the handler (%d response bytes written): %v", len(body), p)
	}
	if _, bs := scoutParse(t, body); len(bs) != 1 {
		t.Fatalf("want exactly one batch (the result, or one exception), got %v", bs)
	}
}

// TestVerifReplay: the reproducers of the two repaired defects (a serialization failure dropped the handler's logs and, over HTTP, the request id; an unchecked type assertion in the list / map serializer panicked outside every recover); the other TestScout* functions reproduce findings that are not repaired and are not run
func TestVerifReplay(t *testing.T) {
	t.Run("TestScoutSerializationFailureDropsLogs_Pipe", TestScoutSerializationFailureDropsLogs_Pipe)
	t.Run("TestScoutSerializationFailureDropsLogsAndRequestID_HTTP", TestScoutSerializationFailureDropsLogsAndRequestID_HTTP)
	t.Run("TestVerifNamedBoolListIsAnswered", TestVerifNamedBoolListIsAnswered)
}
