package vgirpc

// Replay for property C39: error records are always kept and kept non-error records carry the
// rate; records sharing a stream id (or, absent one, a request id) share one decision; enqueue
// never blocks and every record enqueued before close is written or counted in the
// dropped_records of a later written record (a trailing run of drops excepted).

import (
	"fmt"
	"sync"
	"testing"
	"time"
)

func TestVerifReplay(t *testing.T) {
	// ---- sampler ----
	for _, rate := range []float64{0, 0.1, 0.5, 0.9, 1} {
		s, err := newAccessLogSampler(rate)
		if err != nil {
			t.Fatal(err)
		}
		for i := 0; i < 400; i++ {
			sid := fmt.Sprintf("%032x", i*7919)
			first := s.keep(map[string]any{"status": "ok", "stream_id": sid, "request_id": "a"})
			for j := 0; j < 3; j++ {
				rec := map[string]any{"status": "ok", "stream_id": sid, "request_id": fmt.Sprint("r", j)}
				if s.keep(rec) != first {
					t.Fatalf("rate %v: records of stream %s do not share one decision", rate, sid)
				}
				if first && rate < 1 && rec["sample_rate"] != rate {
					t.Fatalf("rate %v: kept record carries sample_rate %v", rate, rec["sample_rate"])
				}
			}
			rid := fmt.Sprint("req", i)
			f2 := s.keep(map[string]any{"status": "ok", "request_id": rid})
			if s.keep(map[string]any{"status": "ok", "request_id": rid, "stream_id": ""}) != f2 {
				t.Fatalf("rate %v: records of request %s do not share one decision", rate, rid)
			}
			if !s.keep(map[string]any{"status": "error", "stream_id": sid}) {
				t.Fatalf("rate %v: an error record was dropped", rate)
			}
		}
	}
	// ---- async emitter: a stalled writer, a small queue ----
	var mu sync.Mutex
	var written []map[string]any
	gate := make(chan struct{})
	a, err := newAsyncEmitter(4, func(r map[string]any) {
		<-gate
		mu.Lock()
		written = append(written, r)
		mu.Unlock()
	})
	if err != nil {
		t.Fatal(err)
	}
	enq := func(i int) {
		done := make(chan struct{})
		go func() { a.enqueue(map[string]any{"n": i}); close(done) }()
		select {
		case <-done:
		case <-time.After(2 * time.Second):
			t.Fatalf("enqueue %d blocked", i)
		}
	}
	total := 0
	for i := 0; i < 20; i++ { // writer stalled: 1 in flight + 4 queued, the rest dropped
		enq(total)
		total++
	}
	stop := make(chan struct{})
	go func() { // from now on the writer runs freely
		for {
			select {
			case gate <- struct{}{}:
			case <-stop:
				return
			}
		}
	}()
	for k := 0; k < 200; k++ { // wait until what was queued has been written
		mu.Lock()
		n := len(written)
		mu.Unlock()
		if n >= 5 {
			break
		}
		time.Sleep(10 * time.Millisecond)
	}
	enq(total) // this one gets through and must report the drops
	total++
	a.close()
	close(stop)
	mu.Lock()
	defer mu.Unlock()
	var reported int64
	for _, r := range written {
		if d, ok := r["dropped_records"]; ok {
			reported += d.(int64)
		}
	}
	if int64(len(written))+reported != int64(total) {
		t.Errorf("enqueued %d, written %d, reported dropped %d: %d records lost silently", total, len(written), reported, int64(total)-int64(len(written))-reported)
	}
}
