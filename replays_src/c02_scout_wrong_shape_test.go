// Scout tests for property C02 (pipe/socket session stays in frame).
// This file belongs in the package directory  vgirpc/  of the main module
// (package vgirpc, internal test: it calls serveUnixConn and uses Meta* names).
//
// Every TestScout* below except TestScoutControl FAILS on the unchanged code.

package vgirpc

import (
	"bytes"
	"context"
	"fmt"
	"net"
	"path/filepath"
	"strings"
	"testing"
	"time"

	"github.com/apache/arrow-go/v18/arrow"
	"github.com/apache/arrow-go/v18/arrow/array"
	"github.com/apache/arrow-go/v18/arrow/ipc"
	"github.com/apache/arrow-go/v18/arrow/memory"
)

// ---- helpers ---------------------------------------------------------------

type scoutParams struct {
	Value int64 `vgirpc:"value"`
}
type scoutResult struct {
	Value int64 `vgirpc:"value"`
}

var scoutSchema = arrow.NewSchema([]arrow.Field{{Name: "value", Type: arrow.PrimitiveTypes.Int64}}, nil)

func scoutParamBatch(v int64) arrow.RecordBatch {
	b := array.NewInt64Builder(memory.NewGoAllocator())
	b.Append(v)
	col := b.NewArray()
	b.Release()
	rec := array.NewRecordBatch(scoutSchema, []arrow.Array{col}, 1)
	col.Release()
	return rec
}

func scoutRequest(t *testing.T, method string, v int64) []byte {
	t.Helper()
	p := scoutParamBatch(v)
	defer p.Release()
	var buf bytes.Buffer
	if err := WriteRequest(&buf, method, p, ""); err != nil {
		t.Fatal(err)
	}
	return buf.Bytes()
}

// scoutTicks is the client's input stream of a producer call: empty schema,
// n zero-row tick batches, EOS.
func scoutTicks(t *testing.T, n int) []byte {
	t.Helper()
	sc := arrow.NewSchema(nil, nil)
	var buf bytes.Buffer
	w := ipc.NewWriter(&buf, ipc.WithSchema(sc))
	for i := 0; i < n; i++ {
		rec := array.NewRecordBatch(sc, nil, 0)
		if err := w.Write(rec); err != nil {
			t.Fatal(err)
		}
		rec.Release()
	}
	if err := w.Close(); err != nil {
		t.Fatal(err)
	}
	return buf.Bytes()
}

type scoutStream struct {
	schema  *arrow.Schema
	rows    []int64  // NumRows of each batch
	errs    []string // messages of EXCEPTION batches
	values  []int64  // column 0 of int64 data batches
	readErr error
}

// scoutSession feeds the whole client byte sequence to a pipe server and returns
// every IPC stream the server wrote, in order.
func scoutSession(t *testing.T, s *Server, input []byte) []scoutStream {
	t.Helper()
	var out bytes.Buffer
	done := make(chan any, 1)
	go func() {
		defer func() { done <- recover() }()
		s.ServeWithContext(context.Background(), bytes.NewReader(input), &out)
	}()
	select {
	case p := <-done:
		if p != nil {
			t.Fatalf("serve loop PANICKED (a real server process would have died): %v", p)
		}
	case <-time.After(10 * time.Second):
		t.Fatal("serve loop hung")
	}
	return scoutParseStreams(out.Bytes())
}

func scoutParseStreams(data []byte) []scoutStream {
	var streams []scoutStream
	r := bytes.NewReader(data)
	for r.Len() > 0 {
		rd, err := ipc.NewReader(r)
		if err != nil {
			streams = append(streams, scoutStream{readErr: err})
			break
		}
		st := scoutStream{schema: rd.Schema()}
		for rd.Next() {
			b := rd.RecordBatch()
			st.rows = append(st.rows, b.NumRows())
			if bm, ok := b.(arrow.RecordBatchWithMetadata); ok {
				if lv, _ := bm.Metadata().GetValue(MetaLogLevel); lv == string(LogException) {
					m, _ := bm.Metadata().GetValue(MetaLogMessage)
					st.errs = append(st.errs, m)
				}
			}
			if b.NumRows() > 0 && b.NumCols() > 0 {
				if c, ok := b.Column(0).(*array.Int64); ok {
					for i := 0; i < c.Len(); i++ {
						st.values = append(st.values, c.Value(i))
					}
				}
			}
		}
		st.readErr = rd.Err()
		rd.Release()
		streams = append(streams, st)
	}
	return streams
}

func scoutDescribe(streams []scoutStream) string {
	var b bytes.Buffer
	for i, s := range streams {
		var names []string
		if s.schema != nil {
			for _, f := range s.schema.Fields() {
				names = append(names, f.Name+":"+f.Type.String())
			}
		}
		fmt.Fprintf(&b, "  stream %d: schema=%v rows=%v values=%v errs=%q readErr=%v\n", i, names, s.rows, s.values, s.errs, s.readErr)
	}
	return b.String()
}

func scoutEchoServer() *Server {
	s := NewServer()
	Unary(s, "echo", func(_ context.Context, _ *CallContext, p scoutParams) (int64, error) {
		return p.Value, nil
	})
	return s
}

// the last stream must be the healthy answer of echo(v)
func scoutRequireEchoLast(t *testing.T, streams []scoutStream, want int, v int64) {
	t.Helper()
	if len(streams) != want {
		t.Fatalf("expected %d response streams, got %d:\n%s", want, len(streams), scoutDescribe(streams))
	}
	last := streams[len(streams)-1]
	if len(last.errs) != 0 || len(last.values) != 1 || last.values[0] != v {
		t.Fatalf("follow-up echo(%d) was not served correctly:\n%s", v, scoutDescribe(streams))
	}
}

// scoutTicks-style input stream with arbitrary batches.
func scoutInputStream(t *testing.T, sc *arrow.Schema, batches ...arrow.RecordBatch) []byte {
	t.Helper()
	var buf bytes.Buffer
	w := ipc.NewWriter(&buf, ipc.WithSchema(sc))
	for _, b := range batches {
		if err := w.Write(b); err != nil {
			t.Fatal(err)
		}
	}
	if err := w.Close(); err != nil {
		t.Fatal(err)
	}
	return buf.Bytes()
}

// emits value 7 once, then finishes
type scoutOneShotProducer struct{ n int }

func (p *scoutOneShotProducer) Produce(_ context.Context, out *OutputCollector, _ *CallContext) error {
	if p.n > 0 {
		return out.Finish()
	}
	p.n++
	return out.Emit(scoutParamBatch(7))
}

// fails at tick failAt
type scoutCountProducer struct{ n, failAt int }

func (p *scoutCountProducer) Produce(_ context.Context, out *OutputCollector, _ *CallContext) error {
	p.n++
	if p.n == p.failAt {
		return fmt.Errorf("boom at %d", p.n)
	}
	return out.Emit(scoutParamBatch(int64(p.n)))
}

// ---------------------------------------------------------------------------
// Control: the harness itself is sound — the failure kinds the code does handle
// (mid-stream error, init failure, cancel, parameter mismatch, unknown unary
// method) leave the session in frame. PASSES on the unchanged code.
// ---------------------------------------------------------------------------
func TestScoutControl(t *testing.T) {
	s := scoutEchoServer()
	Producer(s, "count", scoutSchema, func(_ context.Context, _ *CallContext, p scoutParams) (*StreamResult, error) {
		if p.Value == 99 {
			return nil, fmt.Errorf("init failed")
		}
		return &StreamResult{OutputSchema: scoutSchema, State: &scoutCountProducer{failAt: int(p.Value)}}, nil
	})
	var in []byte
	in = append(in, scoutRequest(t, "count", 2)...) // mid-stream error at tick 2, 5 ticks queued
	in = append(in, scoutTicks(t, 5)...)
	in = append(in, scoutRequest(t, "echo", 1)...)
	in = append(in, scoutRequest(t, "count", 99)...) // init failure
	in = append(in, scoutTicks(t, 3)...)
	in = append(in, scoutRequest(t, "echo", 2)...)
	empty := arrow.NewSchema(nil, nil)
	tick := array.NewRecordBatch(empty, nil, 0)
	cancel := array.NewRecordBatchWithMetadata(empty, nil, 0, arrow.NewMetadata([]string{MetaCancel}, []string{"1"}))
	in = append(in, scoutRequest(t, "count", 0)...) // cancel after one tick
	in = append(in, scoutInputStream(t, empty, tick, cancel, tick)...)
	in = append(in, scoutRequest(t, "echo", 3)...)
	in = append(in, scoutRequest(t, "nope", 0)...) // unknown unary
	in = append(in, scoutRequest(t, "echo", 4)...)
	streams := scoutSession(t, s, in)
	if len(streams) != 8 {
		t.Fatalf("expected 8 streams, got %d:\n%s", len(streams), scoutDescribe(streams))
	}
	for i, want := range []int64{1, 2, 3, 4} {
		st := streams[2*i+1]
		if len(st.errs) != 0 || len(st.values) != 1 || st.values[0] != want {
			t.Fatalf("echo(%d) not served correctly:\n%s", want, scoutDescribe(streams))
		}
	}
}

// ---------------------------------------------------------------------------
// FINDING 1 — contract violation: a stream state emits a batch whose column
// count differs from the declared output schema. The flush loop treats the
// resulting arrow "different schema" error as a transport error: the client gets
// an EMPTY but well-formed data stream (no error batch) and the connection is
// dropped, so the next request is never served.
// ---------------------------------------------------------------------------
type scoutWideProducer struct{}

func (scoutWideProducer) Produce(_ context.Context, out *OutputCollector, _ *CallContext) error {
	sc := arrow.NewSchema([]arrow.Field{
		{Name: "value", Type: arrow.PrimitiveTypes.Int64},
		{Name: "extra", Type: arrow.PrimitiveTypes.Int64},
	}, nil)
	b := array.NewInt64Builder(memory.NewGoAllocator())
	b.Append(7)
	c := b.NewArray()
	b.Release()
	defer c.Release()
	return out.Emit(array.NewRecordBatch(sc, []arrow.Array{c, c}, 1))
}

func TestScoutContractViolationWrongColumnCountKillsSession(t *testing.T) {
	s := scoutEchoServer()
	Producer(s, "bad", scoutSchema, func(context.Context, *CallContext, scoutParams) (*StreamResult, error) {
		return &StreamResult{OutputSchema: scoutSchema, State: scoutWideProducer{}}, nil
	})
	in := append([]byte{}, scoutRequest(t, "bad", 1)...)
	in = append(in, scoutTicks(t, 1)...)
	in = append(in, scoutRequest(t, "echo", 42)...)
	streams := scoutSession(t, s, in)
	t.Logf("server wrote:\n%s", scoutDescribe(streams))
	if len(streams) >= 1 && len(streams[0].errs) == 0 {
		t.Errorf("the contract violation was not answered with an error: the client sees an empty, apparently successful stream")
	}
	scoutRequireEchoLast(t, streams, 2, 42)
}

// ---------------------------------------------------------------------------
// FINDING 2 — stream-init failure: the header of a header-declaring stream
// cannot be serialised (data dependent: a decimal field). serveStream returns
// (nil, nil) without writing ANY response and without draining the client's
// input stream; the serve loop then reads that input stream as the next request.
// ---------------------------------------------------------------------------
type scoutHeader struct {
	Amount string `arrow:"amount"`
}

var scoutHeaderSchema = arrow.NewSchema([]arrow.Field{{Name: "amount", Type: &arrow.Decimal128Type{Precision: 10, Scale: 2}}}, nil)

func (scoutHeader) ArrowSchema() *arrow.Schema { return scoutHeaderSchema }

func scoutHeaderServer() *Server {
	s := scoutEchoServer()
	ProducerWithHeader(s, "hdr", scoutSchema, scoutHeaderSchema, func(_ context.Context, _ *CallContext, p scoutParams) (*StreamResult, error) {
		amount := "12.50"
		if p.Value < 0 {
			amount = "not-a-number"
		}
		return &StreamResult{OutputSchema: scoutSchema, State: &scoutOneShotProducer{}, Header: scoutHeader{Amount: amount}}, nil
	})
	return s
}

// buffered client: the leftover input stream is parsed as a request.
func TestScoutHeaderFailureInputReadAsNextRequest(t *testing.T) {
	s := scoutHeaderServer()
	// control: with a good header the call yields header stream + data stream.
	in := append([]byte{}, scoutRequest(t, "hdr", 1)...)
	in = append(in, scoutTicks(t, 2)...)
	in = append(in, scoutRequest(t, "echo", 41)...)
	scoutRequireEchoLast(t, scoutSession(t, s, in), 3, 41)

	in = append([]byte{}, scoutRequest(t, "hdr", -1)...)
	in = append(in, scoutTicks(t, 2)...)
	in = append(in, scoutRequest(t, "echo", 42)...)
	streams := scoutSession(t, s, in)
	t.Logf("server wrote:\n%s", scoutDescribe(streams))
	for _, st := range streams {
		for _, e := range st.errs {
			if strings.Contains(e, "Missing 'vgi_rpc.method'") {
				t.Errorf("every request sent carried vgi_rpc.method, yet the server reports %q: it parsed the failed call's tick stream as a request", e)
			}
		}
	}
	if len(streams) > 0 && len(streams[0].errs) > 0 && !strings.Contains(streams[0].errs[0], "not-a-number") && !strings.Contains(streams[0].errs[0], "decimal") {
		t.Errorf("the answer to the failed call does not describe its failure: %q", streams[0].errs[0])
	}
}

// lockstep client over a real Unix socket: writes the request and its first
// tick (clients write before reading), then waits for the answer. None comes.
func TestScoutHeaderFailureLockstepClientGetsNoAnswer(t *testing.T) {
	s := scoutHeaderServer()
	path := filepath.Join(t.TempDir(), "s.sock")
	ln, err := net.Listen("unix", path)
	if err != nil {
		t.Fatal(err)
	}
	defer ln.Close()
	go func() {
		c, err := ln.Accept()
		if err != nil {
			return
		}
		s.serveUnixConn(context.Background(), c)
		c.Close()
	}()
	conn, err := net.Dial("unix", path)
	if err != nil {
		t.Fatal(err)
	}
	defer conn.Close()

	if _, err := conn.Write(scoutRequest(t, "hdr", -1)); err != nil {
		t.Fatal(err)
	}
	empty := arrow.NewSchema(nil, nil)
	iw := ipc.NewWriter(conn, ipc.WithSchema(empty))
	tick := array.NewRecordBatch(empty, nil, 0)
	if err := iw.Write(tick); err != nil { // schema + first tick
		t.Fatal(err)
	}

	conn.SetReadDeadline(time.Now().Add(3 * time.Second))
	rd, err := ipc.NewReader(conn)
	if err != nil {
		t.Errorf("no response to the stream call within 3s (its header could not be serialised): %v", err)
		// show where the session is: end the input stream and see what the server says
		iw.Close()
		conn.SetReadDeadline(time.Now().Add(3 * time.Second))
		if rd2, err2 := ipc.NewReader(conn); err2 == nil {
			for rd2.Next() {
				if bm, ok := rd2.RecordBatch().(arrow.RecordBatchWithMetadata); ok {
					m, _ := bm.Metadata().GetValue(MetaLogMessage)
					t.Logf("after the client closed its input stream the server answered: %q (the tick stream was read as a request)", m)
				}
			}
			rd2.Release()
		}
		return
	}
	sawErr := false
	for rd.Next() {
		if bm, ok := rd.RecordBatch().(arrow.RecordBatchWithMetadata); ok {
			if lv, _ := bm.Metadata().GetValue(MetaLogLevel); lv == string(LogException) {
				sawErr = true
			}
		}
	}
	rd.Release()
	if !sawErr {
		t.Errorf("expected an error answer")
	}
}

// ---------------------------------------------------------------------------
// FINDING 3 — a STREAM call refused by ReadRequest (wrong row count / wrong
// request version; the method name IS known) is answered with an error but its
// input stream stays on the transport and is read as the next request: one
// spurious extra response, every later answer is off by one.
// ---------------------------------------------------------------------------
func scoutCountServer() *Server {
	s := scoutEchoServer()
	Producer(s, "count", scoutSchema, func(context.Context, *CallContext, scoutParams) (*StreamResult, error) {
		return &StreamResult{OutputSchema: scoutSchema, State: &scoutOneShotProducer{}}, nil
	})
	return s
}

func TestScoutStreamCallWrongRowCountLeavesInputBehind(t *testing.T) {
	s := scoutCountServer()
	b := array.NewInt64Builder(memory.NewGoAllocator())
	b.AppendValues([]int64{1, 2}, nil)
	col := b.NewArray()
	rec := array.NewRecordBatch(scoutSchema, []arrow.Array{col}, 2)
	var buf bytes.Buffer
	if err := WriteRequest(&buf, "count", rec, ""); err != nil {
		t.Fatal(err)
	}
	in := append([]byte{}, buf.Bytes()...)
	in = append(in, scoutTicks(t, 1)...)
	in = append(in, scoutRequest(t, "echo", 42)...)
	streams := scoutSession(t, s, in)
	t.Logf("server wrote:\n%s", scoutDescribe(streams))
	// two requests => two responses; the 2nd response must be echo's.
	if len(streams) < 2 || len(streams[1].values) != 1 || streams[1].values[0] != 42 {
		t.Errorf("the response the client reads for echo(42) is not echo's answer")
	}
	scoutRequireEchoLast(t, streams, 2, 42)
}

func TestScoutStreamCallWrongRequestVersionLeavesInputBehind(t *testing.T) {
	s := scoutCountServer()
	p := scoutParamBatch(1)
	meta := arrow.NewMetadata([]string{MetaMethod, MetaRequestVersion}, []string{"count", "999"})
	rec := array.NewRecordBatchWithMetadata(scoutSchema, p.Columns(), 1, meta)
	in := scoutInputStream(t, scoutSchema, rec)
	in = append(in, scoutTicks(t, 1)...)
	in = append(in, scoutRequest(t, "echo", 42)...)
	streams := scoutSession(t, s, in)
	t.Logf("server wrote:\n%s", scoutDescribe(streams))
	if len(streams) < 2 || len(streams[1].values) != 1 || streams[1].values[0] != 42 {
		t.Errorf("the response the client reads for echo(42) is not echo's answer")
	}
	scoutRequireEchoLast(t, streams, 2, 42)
}

// ---------------------------------------------------------------------------
// FINDING 4 — a bad request whose parameter batch matches the declared schema
// exactly but carries inconsistent Arrow data (dictionary index out of range,
// list offsets past the child array) panics in deserializeParams, which runs
// OUTSIDE the handler's recover. No response; on RunUnix/RunTcp the panic is in
// a bare goroutine, so the whole worker process (all connections) dies.
// ---------------------------------------------------------------------------
type scoutEnumParams struct {
	Color string `vgirpc:"color,enum"`
}

func TestScoutBadDictionaryIndexPanicsServer(t *testing.T) {
	s := scoutEchoServer()
	Unary(s, "paint", func(_ context.Context, _ *CallContext, p scoutEnumParams) (int64, error) {
		return int64(len(p.Color)), nil
	})
	dt := &arrow.DictionaryType{IndexType: arrow.PrimitiveTypes.Int16, ValueType: arrow.BinaryTypes.String}
	sc := arrow.NewSchema([]arrow.Field{{Name: "color", Type: dt}}, nil)
	sb := array.NewStringBuilder(memory.NewGoAllocator())
	sb.Append("red")
	dict := sb.NewArray()
	ib := array.NewInt16Builder(memory.NewGoAllocator())
	ib.Append(5) // dictionary has 1 entry
	idx := ib.NewArray()
	col := array.NewDictionaryArray(dt, idx, dict)
	rec := array.NewRecordBatch(sc, []arrow.Array{col}, 1)
	var buf bytes.Buffer
	if err := WriteRequest(&buf, "paint", rec, ""); err != nil {
		t.Fatal(err)
	}
	in := append([]byte{}, buf.Bytes()...)
	in = append(in, scoutRequest(t, "echo", 42)...)
	streams := scoutSession(t, s, in) // fails here: the serve loop panics
	t.Logf("server wrote:\n%s", scoutDescribe(streams))
	scoutRequireEchoLast(t, streams, 2, 42)
}

type scoutListParams struct {
	Items []int64 `vgirpc:"items"`
}

func TestScoutBadListOffsetsPanicsServer(t *testing.T) {
	s := scoutEchoServer()
	Unary(s, "sum", func(_ context.Context, _ *CallContext, p scoutListParams) (int64, error) {
		return int64(len(p.Items)), nil
	})
	lt := arrow.ListOf(arrow.PrimitiveTypes.Int64)
	sc := arrow.NewSchema([]arrow.Field{{Name: "items", Type: lt}}, nil)
	lb := array.NewListBuilder(memory.NewGoAllocator(), arrow.PrimitiveTypes.Int64)
	lb.Append(true)
	lb.ValueBuilder().(*array.Int64Builder).AppendValues([]int64{1, 2, 3}, nil)
	col := lb.NewArray()
	rec := array.NewRecordBatch(sc, []arrow.Array{col}, 1)
	var buf bytes.Buffer
	if err := WriteRequest(&buf, "sum", rec, ""); err != nil {
		t.Fatal(err)
	}
	raw := buf.Bytes()
	// offsets buffer [0,3] immediately followed by the values 1,2,3
	pat := []byte{0, 0, 0, 0, 3, 0, 0, 0, 1, 0, 0, 0, 0, 0, 0, 0, 2, 0, 0, 0, 0, 0, 0, 0, 3, 0, 0, 0, 0, 0, 0, 0}
	i := bytes.Index(raw, pat)
	if i < 0 {
		t.Skip("offset pattern not found in the encoded request")
	}
	raw[i+4], raw[i+5] = 0xe8, 0x03 // offsets become [0,1000]
	in := append([]byte{}, raw...)
	in = append(in, scoutRequest(t, "echo", 42)...)
	streams := scoutSession(t, s, in) // fails here: the serve loop panics
	t.Logf("server wrote:\n%s", scoutDescribe(streams))
	scoutRequireEchoLast(t, streams, 2, 42)
}

// ---------------------------------------------------------------------------
// FINDING 5 — contract violation: the handler of a registered Producer returns a
// StreamResult without OutputSchema (it was already given at registration).
// serveStream uses streamResult.OutputSchema unconditionally; the error path
// (writeErrorBatch -> emptyBatch(nil)) dereferences nil OUTSIDE any recover.
// ---------------------------------------------------------------------------
func TestScoutNilOutputSchemaPanicsServer(t *testing.T) {
	s := scoutEchoServer()
	Producer(s, "nilschema", scoutSchema, func(context.Context, *CallContext, scoutParams) (*StreamResult, error) {
		return &StreamResult{State: &scoutOneShotProducer{}}, nil
	})
	in := append([]byte{}, scoutRequest(t, "nilschema", 1)...)
	in = append(in, scoutTicks(t, 2)...)
	in = append(in, scoutRequest(t, "echo", 42)...)
	streams := scoutSession(t, s, in) // fails here: the serve loop panics
	t.Logf("server wrote:\n%s", scoutDescribe(streams))
	scoutRequireEchoLast(t, streams, 2, 42)
}

// TestVerifReplay: the reproducers of a recorded, unrepaired finding (they fail on the current code by design)
func TestVerifReplay(t *testing.T) {
	t.Run("TestScoutContractViolationWrongColumnCountKillsSession", TestScoutContractViolationWrongColumnCountKillsSession)
}
