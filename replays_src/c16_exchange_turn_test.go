package vgirpc

// Replay for property C16: one HTTP exchange continuation = one turn. For an inline request and
// for a request whose batch was externalized by the client (tokens and user metadata on the
// fetched batch), the handler sees the request's own metadata without any framework key, the
// response has exactly one data batch with a fresh cursor; a failing turn answers with an error
// and no cursor; a cancel continuation runs the cancel hook once and returns an empty stream.

import (
	"bytes"
	"context"
	"errors"
	"net/http"
	"net/http/httptest"
	"strings"
	"sync"
	"testing"

	"github.com/apache/arrow-go/v18/arrow"
	"github.com/apache/arrow-go/v18/arrow/array"
	"github.com/apache/arrow-go/v18/arrow/ipc"
	"github.com/apache/arrow-go/v18/arrow/memory"
)

type c16Params struct {
	Value int64 `vgirpc:"value"`
}

var c16Schema = arrow.NewSchema([]arrow.Field{{Name: "value", Type: arrow.PrimitiveTypes.Int64}}, nil)

var c16Seen struct {
	sync.Mutex
	calls, cancels int
	user           string
	leaked         []string
}

type c16State struct{ Fail bool }

func (s *c16State) Exchange(_ context.Context, input arrow.RecordBatch, out *OutputCollector, callCtx *CallContext) error {
	c16Seen.Lock()
	c16Seen.calls++
	c16Seen.user, _ = callCtx.InputMetadata.GetValue("user_key")
	for _, k := range callCtx.InputMetadata.Keys() {
		if k == MetaStreamState || k == MetaCallState || k == MetaCancel || strings.HasPrefix(k, "vgi_rpc.stream_state") || strings.HasPrefix(k, "vgi_rpc.call_state") {
			c16Seen.leaked = append(c16Seen.leaked, k)
		}
	}
	c16Seen.Unlock()
	v := input.Column(0).(*array.Int64).Value(0)
	if v < 0 {
		return errors.New("negative input")
	}
	if v == 77 {
		// logs before AND after the data batch: the cursor must still ride the data batch
		out.ClientLog(LogInfo, "before emit")
		if err := out.EmitMap(map[string][]interface{}{"value": {v}}); err != nil {
			return err
		}
		out.ClientLog(LogInfo, "after emit")
		return nil
	}
	return out.EmitMap(map[string][]interface{}{"value": {v}})
}

func (s *c16State) OnCancel(context.Context, *CallContext) error {
	c16Seen.Lock()
	c16Seen.cancels++
	c16Seen.Unlock()
	return nil
}

func c16Batch(schema *arrow.Schema, vals ...int64) arrow.RecordBatch {
	b := array.NewInt64Builder(memory.NewGoAllocator())
	b.AppendValues(vals, nil)
	col := b.NewArray()
	b.Release()
	rec := array.NewRecordBatch(schema, []arrow.Array{col}, int64(len(vals)))
	col.Release()
	return rec
}

func c16IPC(t *testing.T, batch arrow.RecordBatch, meta arrow.Metadata) []byte {
	wrapped := array.NewRecordBatchWithMetadata(batch.Schema(), batch.Columns(), batch.NumRows(), meta)
	defer wrapped.Release()
	var buf bytes.Buffer
	w := ipc.NewWriter(&buf, ipc.WithSchema(batch.Schema()))
	if err := w.Write(wrapped); err != nil {
		t.Fatal(err)
	}
	w.Close()
	return buf.Bytes()
}

func c16Post(h *HttpServer, path string, body []byte) *httptest.ResponseRecorder {
	req := httptest.NewRequest(http.MethodPost, path, bytes.NewReader(body))
	req.Header.Set("Content-Type", arrowContentType)
	w := httptest.NewRecorder()
	h.ServeHTTP(w, req)
	return w
}

// returns (#data batches, cursors found on them)
func c16Scan(t *testing.T, body []byte) (int, []string) {
	r, err := ipc.NewReader(bytes.NewReader(body))
	if err != nil {
		return 0, nil
	}
	defer r.Release()
	n := 0
	var cursors []string
	for r.Next() {
		rb := r.RecordBatch()
		if bwm, ok := rb.(arrow.RecordBatchWithMetadata); ok {
			md := bwm.Metadata()
			if _, isLog := md.GetValue(MetaLogLevel); isLog {
				continue
			}
			if c, ok := md.GetValue(MetaStreamState); ok && c != "" {
				cursors = append(cursors, c)
			}
		}
		n++
	}
	return n, cursors
}

func TestVerifReplay(t *testing.T) {
	RegisterStateType(&c16State{})
	s := NewServer()
	Exchange(s, "c16", c16Schema, c16Schema, func(context.Context, *CallContext, c16Params) (*StreamResult, error) {
		return &StreamResult{OutputSchema: c16Schema, InputSchema: c16Schema, State: &c16State{}}, nil
	})
	h := NewHttpServer(s)
	h.InitPages()
	pb := c16Batch(c16Schema, 1)
	var initBody bytes.Buffer
	if err := WriteRequest(&initBody, "c16", pb, ""); err != nil {
		t.Fatal(err)
	}
	pb.Release()
	iw := c16Post(h, "/c16/init", initBody.Bytes())
	if iw.Code != 200 {
		t.Fatalf("init: %d %s", iw.Code, iw.Body.String())
	}
	token, callToken := FindStreamTokens(iw.Body.Bytes())
	if token == nil || callToken == nil {
		t.Fatal("init response carries no tokens")
	}
	tokMeta := func(extra ...string) arrow.Metadata {
		k := []string{MetaStreamState, MetaCallState}
		v := []string{string(token), string(callToken)}
		for i := 0; i+1 < len(extra); i += 2 {
			k = append(k, extra[i])
			v = append(v, extra[i+1])
		}
		return arrow.NewMetadata(k, v)
	}
	check := func(name string, w *httptest.ResponseRecorder, wantCalls int, wantUser string) {
		if w.Code != 200 {
			t.Errorf("%s: status %d: %s", name, w.Code, w.Body.String())
			return
		}
		n, cursors := c16Scan(t, w.Body.Bytes())
		if n != 1 || len(cursors) != 1 || cursors[0] == string(token) {
			t.Errorf("%s: %d data batches, cursors %d (fresh=%v); want exactly one data batch with a fresh cursor", name, n, len(cursors), len(cursors) == 1 && cursors[0] != string(token))
		}
		c16Seen.Lock()
		defer c16Seen.Unlock()
		if c16Seen.calls != wantCalls {
			t.Errorf("%s: handler ran %d times in total, want %d", name, c16Seen.calls, wantCalls)
		}
		if c16Seen.user != wantUser {
			t.Errorf("%s: handler saw user_key=%q, want %q", name, c16Seen.user, wantUser)
		}
		if len(c16Seen.leaked) > 0 {
			t.Errorf("%s: framework keys reached the handler: %v", name, c16Seen.leaked)
		}
	}
	// (1) inline turn
	in := c16Batch(c16Schema, 42)
	check("inline", c16Post(h, "/c16/exchange", c16IPC(t, in, tokMeta("user_key", "u1"))), 1, "u1")
	in.Release()
	// (1b) a turn that logs after it emitted: still exactly one data batch carrying the fresh cursor
	in77 := c16Batch(c16Schema, 77)
	check("log after emit", c16Post(h, "/c16/exchange", c16IPC(t, in77, tokMeta("user_key", "u1b"))), 2, "u1b")
	in77.Release()
	// (2) client-externalized input: tokens and user metadata ride on the fetched batch
	in2 := c16Batch(c16Schema, 43)
	ext := c16IPC(t, in2, tokMeta("user_key", "u2"))
	in2.Release()
	fetch := httptest.NewServer(http.HandlerFunc(func(w http.ResponseWriter, _ *http.Request) { w.Write(ext) }))
	defer fetch.Close()
	s.SetExternalLocation(&ExternalLocationConfig{HTTPClient: fetch.Client()})
	ptr, _ := MakeExternalLocationBatch(c16Schema, fetch.URL)
	check("external", c16Post(h, "/c16/exchange", c16IPC(t, ptr, tokMeta(MetaLocation, fetch.URL))), 3, "u2")
	ptr.Release()
	s.SetExternalLocation(nil)
	// (3) failing turn: an error, no cursor
	bad := c16Batch(c16Schema, -1)
	fw := c16Post(h, "/c16/exchange", c16IPC(t, bad, tokMeta()))
	bad.Release()
	if _, cursors := c16Scan(t, fw.Body.Bytes()); len(cursors) != 0 || fw.Header().Get(rpcErrorHeader) != "true" {
		t.Errorf("failed turn: status %d, error header %q, %d cursors; want an error response and no cursor", fw.Code, fw.Header().Get(rpcErrorHeader), len(cursors))
	}
	// (4) cancel: hook once, empty stream, no cursor, no further turn
	callsBefore := func() int { c16Seen.Lock(); defer c16Seen.Unlock(); return c16Seen.calls }()
	empty := arrow.NewSchema(nil, nil)
	cb := array.NewRecordBatch(empty, nil, 0)
	cw := c16Post(h, "/c16/exchange", c16IPC(t, cb, tokMeta(MetaCancel, "1")))
	cb.Release()
	n, cursors := c16Scan(t, cw.Body.Bytes())
	c16Seen.Lock()
	if cw.Code != 200 || n != 0 || len(cursors) != 0 || c16Seen.cancels != 1 || c16Seen.calls != callsBefore {
		t.Errorf("cancel: status %d, %d batches, %d cursors, hook ran %d times, turns run %d; want 200, empty, none, 1, 0", cw.Code, n, len(cursors), c16Seen.cancels, c16Seen.calls-callsBefore)
	}
	c16Seen.Unlock()
}
