// Scout test for property C05. Belongs in: <worktree>/vgirpc/ (package vgirpc).

package vgirpc

import (
	"bytes"
	"context"
	"encoding/json"
	"fmt"
	"net/http"
	"net/http/httptest"
	"testing"

	"github.com/apache/arrow-go/v18/arrow"
	"github.com/apache/arrow-go/v18/arrow/array"
	"github.com/apache/arrow-go/v18/arrow/ipc"
	"github.com/apache/arrow-go/v18/arrow/memory"
)

type scoutParams struct {
	Value int64 `vgirpc:"value"`
}

type scoutResult struct {
	Value int64 `vgirpc:"value"`
}

var scoutSchema = arrow.NewSchema([]arrow.Field{{Name: "value", Type: arrow.PrimitiveTypes.Int64}}, nil)

func scoutBatch() arrow.RecordBatch {
	b := array.NewInt64Builder(memory.NewGoAllocator())
	b.Append(1)
	col := b.NewArray()
	b.Release()
	rec := array.NewRecordBatch(scoutSchema, []arrow.Array{col}, 1)
	col.Release()
	return rec
}

func scoutRequest(t *testing.T, method string) []byte {
	t.Helper()
	rec := scoutBatch()
	defer rec.Release()
	var buf bytes.Buffer
	if err := WriteRequest(&buf, method, rec, ""); err != nil {
		t.Fatal(err)
	}
	return buf.Bytes()
}

type scoutEnvelope struct {
	found   bool
	level   string
	message string
	kind    string
	hasKind bool
	extraOK bool
	extra   errorExtra
	rawExt  string
}

// scoutReadEnvelope returns the first EXCEPTION batch of an IPC stream.
func scoutReadEnvelope(t *testing.T, body []byte) scoutEnvelope {
	t.Helper()
	var env scoutEnvelope
	r, err := ipc.NewReader(bytes.NewReader(body))
	if err != nil {
		t.Fatalf("open response (%d bytes): %v", len(body), err)
	}
	defer r.Release()
	for r.Next() {
		rb, ok := r.RecordBatch().(arrow.RecordBatchWithMetadata)
		if !ok {
			continue
		}
		md := rb.Metadata()
		level, _ := md.GetValue(MetaLogLevel)
		if level != string(LogException) {
			continue
		}
		env.found = true
		env.level = level
		env.message, _ = md.GetValue(MetaLogMessage)
		env.kind, env.hasKind = md.GetValue(MetaErrorKind)
		raw, has := md.GetValue(MetaLogExtra)
		env.rawExt = raw
		if has && json.Unmarshal([]byte(raw), &env.extra) == nil {
			env.extraOK = true
		}
		return env
	}
	return env
}

// serveOneGuarded runs serveOne and converts a panic escaping it into a test
// failure value, so one test can report instead of killing the binary.
func serveOneGuarded(s *Server, in []byte, out *bytes.Buffer) (err error, panicked any) {
	defer func() {
		if rv := recover(); rv != nil {
			panicked = rv
		}
	}()
	err = s.serveOne(context.Background(), bytes.NewReader(in), out, &shmConnState{})
	return
}

// ---------------------------------------------------------------------------
// 1. A handler that returns a typed-nil *RpcError (the classic Go mistake:
//    `var e *RpcError; ...; return res, e`). The error interface is non-nil,
//    so the framework treats it as a failure and routes it to writeErrorBatch,
//    where buildErrorExtra dereferences e.Type -> nil pointer panic OUTSIDE the
//    handler's recover() fence. Property: "RuntimeError for a panic or any
//    other error" / "every exception batch names its error". Observed: no
//    envelope at all; the panic escapes serveOne (pipe worker dies).
// ---------------------------------------------------------------------------

func TestScoutTypedNilRpcErrorPipe(t *testing.T) {
	s := NewServer()
	Unary(s, "typed_nil", func(context.Context, *CallContext, scoutParams) (scoutResult, error) {
		var e *RpcError // stays nil
		return scoutResult{}, e
	})
	var out bytes.Buffer
	err, panicked := serveOneGuarded(s, scoutRequest(t, "typed_nil"), &out)
	if panicked != nil {
		t.Fatalf("serveOne panicked instead of writing an EXCEPTION envelope: %v", panicked)
	}
	if err != nil {
		t.Fatalf("serveOne: %v", err)
	}
	env := scoutReadEnvelope(t, out.Bytes())
	if !env.found || !env.extraOK || env.extra.ExceptionType == "" {
		t.Fatalf("no named EXCEPTION envelope: %+v", env)
	}
}

// Same, over HTTP: net/http's per-connection recover swallows the panic, the
// client gets an aborted connection / empty reply rather than an envelope.
func TestScoutTypedNilRpcErrorHTTP(t *testing.T) {
	s := NewServer()
	Unary(s, "typed_nil", func(context.Context, *CallContext, scoutParams) (scoutResult, error) {
		var e *RpcError
		return scoutResult{}, e
	})
	h := NewHttpServer(s)
	h.InitPages()
	req := httptest.NewRequest(http.MethodPost, "/typed_nil", bytes.NewReader(scoutRequest(t, "typed_nil")))
	req.Header.Set("Content-Type", arrowContentType)
	w := httptest.NewRecorder()
	var panicked any
	func() {
		defer func() { panicked = recover() }()
		h.ServeHTTP(w, req)
	}()
	if panicked != nil {
		t.Fatalf("ServeHTTP panicked instead of writing an EXCEPTION envelope: %v", panicked)
	}
	env := scoutReadEnvelope(t, w.Body.Bytes())
	if !env.found || !env.extraOK || env.extra.ExceptionType == "" {
		t.Fatalf("no named EXCEPTION envelope: %+v", env)
	}
}

// ---------------------------------------------------------------------------
// 2. "Any other error" whose Error() method panics (e.g. a typed-nil pointer
//    of a user error type whose Error() reads a field). The framework calls
//    err.Error() in writeErrorBatch / buildErrorExtra outside the recover fence.
// ---------------------------------------------------------------------------

type scoutUserErr struct{ msg string }

func (e *scoutUserErr) Error() string { return e.msg } // nil receiver -> panic

func TestScoutTypedNilUserErrorPipe(t *testing.T) {
	s := NewServer()
	Unary(s, "typed_nil_user", func(context.Context, *CallContext, scoutParams) (scoutResult, error) {
		var e *scoutUserErr
		return scoutResult{}, e
	})
	var out bytes.Buffer
	err, panicked := serveOneGuarded(s, scoutRequest(t, "typed_nil_user"), &out)
	if panicked != nil {
		t.Fatalf("serveOne panicked instead of writing a RuntimeError envelope: %v", panicked)
	}
	if err != nil {
		t.Fatalf("serveOne: %v", err)
	}
	env := scoutReadEnvelope(t, out.Bytes())
	if !env.found || !env.extraOK || env.extra.ExceptionType != "RuntimeError" {
		t.Fatalf("no RuntimeError envelope: %+v", env)
	}
}

// Stream variant: Produce returns the typed-nil *RpcError.
type scoutNilErrProducer struct{}

func (*scoutNilErrProducer) Produce(context.Context, *OutputCollector, *CallContext) error {
	var e *RpcError
	return e
}

func TestScoutTypedNilRpcErrorProducerPipe(t *testing.T) {
	s := NewServer()
	Producer(s, "typed_nil_stream", scoutSchema,
		func(context.Context, *CallContext, scoutParams) (*StreamResult, error) {
			return &StreamResult{OutputSchema: scoutSchema, State: &scoutNilErrProducer{}}, nil
		})
	in := append([]byte(nil), scoutRequest(t, "typed_nil_stream")...)
	// one tick
	empty := array.NewRecordBatch(arrow.NewSchema(nil, nil), nil, 0)
	var tick bytes.Buffer
	tw := ipc.NewWriter(&tick, ipc.WithSchema(empty.Schema()))
	if err := tw.Write(empty); err != nil {
		t.Fatal(err)
	}
	if err := tw.Close(); err != nil {
		t.Fatal(err)
	}
	empty.Release()
	in = append(in, tick.Bytes()...)

	var out bytes.Buffer
	err, panicked := serveOneGuarded(s, in, &out)
	if panicked != nil {
		t.Fatalf("serveOne panicked instead of writing an EXCEPTION envelope: %v", panicked)
	}
	if err != nil {
		t.Fatalf("serveOne: %v", err)
	}
	env := scoutReadEnvelope(t, out.Bytes())
	if !env.found || !env.extraOK || env.extra.ExceptionType == "" {
		t.Fatalf("no named EXCEPTION envelope: %+v", env)
	}
}

// ---------------------------------------------------------------------------
// Probes (informational). These print what the wire carries; they only fail
// where a Go type name reaches the wire.
// ---------------------------------------------------------------------------

func scoutUnaryEnvelope(t *testing.T, debug bool, mk func() error) scoutEnvelope {
	t.Helper()
	s := NewServer()
	s.SetDebugErrors(debug)
	Unary(s, "m", func(context.Context, *CallContext, scoutParams) (scoutResult, error) {
		return scoutResult{}, mk()
	})
	var out bytes.Buffer
	err, panicked := serveOneGuarded(s, scoutRequest(t, "m"), &out)
	if panicked != nil || err != nil {
		t.Fatalf("serveOne err=%v panic=%v", err, panicked)
	}
	return scoutReadEnvelope(t, out.Bytes())
}

type scoutEmbedded struct{ *RpcError }

func TestScoutProbeShapes(t *testing.T) {
	cases := []struct {
		name string
		mk   func() error
		want string
	}{
		{"rpc", func() error { return &RpcError{Type: "ValueError", Message: "bad", Kind: "k"} }, "ValueError"},
		{"rpc-empty-type", func() error { return &RpcError{Message: "bad"} }, ""},
		{"wrapped-rpc", func() error { return fmt.Errorf("ctx: %w", &RpcError{Type: "ValueError", Message: "bad", Kind: "k"}) }, "RuntimeError"},
		{"embedded-rpc", func() error { return scoutEmbedded{&RpcError{Type: "ValueError", Message: "bad", Kind: "k"}} }, "RuntimeError"},
		{"plain", func() error { return fmt.Errorf("plain") }, "RuntimeError"},
		{"ctx", func() error { return context.Canceled }, "RuntimeError"},
		{"mni", func() error { return &MethodNotImplementedError{Method: "x"} }, "AttributeError"},
		{"pv", func() error { return &ProtocolVersionError{Message: "v"} }, "ProtocolVersionError"},
		{"sl", func() error { return &SessionLostError{} }, "SessionLostError"},
		{"drain", func() error { return &ServerDrainingError{} }, "ServerDrainingError"},
		{"wrapped-drain", func() error { return fmt.Errorf("open: %w", &ServerDrainingError{}) }, "RuntimeError"},
		{"cap", func() error { return newExternalCapError("m", 2, 1) }, "RuntimeError"},
		{"bodycap", func() error { return &requestBodyTooLargeError{Limit: 1} }, "RuntimeError"},
		{"enc", func() error { return &unsupportedEncodingError{Encoding: "br"} }, "RuntimeError"},
	}
	for _, debug := range []bool{false, true} {
		for _, c := range cases {
			env := scoutUnaryEnvelope(t, debug, c.mk)
			t.Logf("debug=%v %-14s type=%q msg=%q kind=%q(%v) tb=%d frames=%d", debug, c.name,
				env.extra.ExceptionType, env.message, env.kind, env.hasKind, len(env.extra.Traceback), len(env.extra.Frames))
			if !env.found || !env.extraOK {
				t.Errorf("%s: no envelope", c.name)
				continue
			}
			if env.extra.ExceptionType != c.want {
				t.Errorf("%s: exception_type=%q want %q", c.name, env.extra.ExceptionType, c.want)
			}
			if env.message != c.mk().Error() || env.extra.ExceptionMessage != c.mk().Error() {
				t.Errorf("%s: message mismatch %q / %q", c.name, env.message, env.extra.ExceptionMessage)
			}
			if !debug && (env.extra.Traceback != "" || len(env.extra.Frames) != 0) {
				t.Errorf("%s: traceback/frames leaked with debug off", c.name)
			}
			if debug && (env.extra.Traceback == "" || len(env.extra.Frames) == 0) {
				t.Errorf("%s: traceback/frames missing with debug on", c.name)
			}
		}
	}
}

// A handler-emitted EXCEPTION-level client log is, on the wire, an exception
// batch; it carries no exception_type. Informational.
func TestScoutProbeClientLogException(t *testing.T) {
	s := NewServer()
	Unary(s, "m", func(_ context.Context, c *CallContext, _ scoutParams) (scoutResult, error) {
		c.ClientLog(LogException, "logged as exception")
		return scoutResult{Value: 7}, nil
	})
	var out bytes.Buffer
	err, panicked := serveOneGuarded(s, scoutRequest(t, "m"), &out)
	if panicked != nil || err != nil {
		t.Fatalf("serveOne err=%v panic=%v", err, panicked)
	}
	env := scoutReadEnvelope(t, out.Bytes())
	t.Logf("ClientLog(LogException): found=%v extra=%q type=%q", env.found, env.rawExt, env.extra.ExceptionType)
}

// ---------------------------------------------------------------------------
// 3. (arguable / lower confidence) The message carried for an RpcError value
//    is err.Error() == "Type: Message", not the RpcError's Message. The type
//    is therefore on the wire twice (exception_type AND as a prefix of both
//    vgi_rpc.log_message and exception_message). A client that rebuilds the
//    error from the envelope gets Message="ValueError: bad", and relaying it
//    through a second Go server stacks another prefix per hop.
// ---------------------------------------------------------------------------

func TestScoutRpcErrorMessageRoundTrip(t *testing.T) {
	orig := &RpcError{Type: "ValueError", Message: "deliberate failure", Kind: "my_kind"}

	backend := NewServer()
	Unary(backend, "fail", func(context.Context, *CallContext, struct{}) (string, error) {
		return "", orig
	})
	backendHTTP := httptest.NewServer(NewHttpServer(backend))
	defer backendHTTP.Close()
	bc, err := NewHttpClient(backendHTTP.URL)
	if err != nil {
		t.Fatal(err)
	}
	defer bc.Close()

	// A relay whose handler forwards the backend's RpcError unchanged.
	relay := NewServer()
	Unary(relay, "fail", func(ctx context.Context, _ *CallContext, _ struct{}) (string, error) {
		params := emptyBatch(arrow.NewSchema(nil, nil))
		defer params.Release()
		_, err := bc.CallUnary(ctx, "fail", params, nil)
		return "", err
	})
	relayHTTP := httptest.NewServer(NewHttpServer(relay))
	defer relayHTTP.Close()
	rc, err := NewHttpClient(relayHTTP.URL)
	if err != nil {
		t.Fatal(err)
	}
	defer rc.Close()

	params := emptyBatch(arrow.NewSchema(nil, nil))
	defer params.Release()

	_, err1 := bc.CallUnary(context.Background(), "fail", params, nil)
	got1, ok := err1.(*RpcError)
	if !ok {
		t.Fatalf("direct: %T %v", err1, err1)
	}
	_, err2 := rc.CallUnary(context.Background(), "fail", params, nil)
	got2, ok := err2.(*RpcError)
	if !ok {
		t.Fatalf("relayed: %T %v", err2, err2)
	}
	t.Logf("direct : Type=%q Message=%q Kind=%q", got1.Type, got1.Message, got1.Kind)
	t.Logf("relayed: Type=%q Message=%q Kind=%q", got2.Type, got2.Message, got2.Kind)
	if got1.Type != orig.Type || got1.Kind != orig.Kind {
		t.Errorf("direct: type/kind not preserved: %#v", got1)
	}
	if got1.Message != orig.Message {
		t.Errorf("direct: Message = %q, want %q", got1.Message, orig.Message)
	}
	if got2.Message != orig.Message {
		t.Errorf("relayed: Message = %q, want %q", got2.Message, orig.Message)
	}
}

// Finding 1 over a real HTTP server: net/http recovers the framework panic and
// aborts the connection, so the client sees a transport error, not an RpcError.
func TestScoutTypedNilRpcErrorHTTPRealServer(t *testing.T) {
	s := NewServer()
	Unary(s, "typed_nil", func(context.Context, *CallContext, struct{}) (string, error) {
		var e *RpcError
		return "", e
	})
	srv := httptest.NewServer(NewHttpServer(s))
	defer srv.Close()
	c, err := NewHttpClient(srv.URL)
	if err != nil {
		t.Fatal(err)
	}
	defer c.Close()
	params := emptyBatch(arrow.NewSchema(nil, nil))
	defer params.Release()
	_, callErr := c.CallUnary(context.Background(), "typed_nil", params, nil)
	t.Logf("client saw: %T %v", callErr, callErr)
	rpcErr, ok := callErr.(*RpcError)
	if !ok || rpcErr.Type == "" || rpcErr.Type == "TransportError" || rpcErr.Type == "ProtocolError" {
		t.Fatalf("client did not receive an error envelope from the server: %T %v", callErr, callErr)
	}
}

// TestVerifReplay: the reproducers of the repaired defect (an error value that cannot be formatted is reported as a RuntimeError envelope instead of panicking outside every recover); TestScoutRpcErrorMessageRoundTrip reproduces a finding that is not repaired and is not run
func TestVerifReplay(t *testing.T) {
	t.Run("TestScoutTypedNilRpcErrorPipe", TestScoutTypedNilRpcErrorPipe)
	t.Run("TestScoutTypedNilRpcErrorHTTP", TestScoutTypedNilRpcErrorHTTP)
	t.Run("TestScoutTypedNilUserErrorPipe", TestScoutTypedNilUserErrorPipe)
	t.Run("TestScoutTypedNilRpcErrorProducerPipe", TestScoutTypedNilRpcErrorProducerPipe)
	t.Run("TestScoutTypedNilRpcErrorHTTPRealServer", TestScoutTypedNilRpcErrorHTTPRealServer)
	t.Run("TestScoutProbeShapes", TestScoutProbeShapes)
}
