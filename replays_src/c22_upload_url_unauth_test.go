package vgirpc

// Replay for property C22 (handleUploadURLInit): with an authenticator that rejects every
// request, the upload-URL route must not vend pre-signed URLs.

import (
	"bytes"
	"net/http"
	"net/http/httptest"
	"testing"
	"time"

	"github.com/apache/arrow-go/v18/arrow"
	"github.com/apache/arrow-go/v18/arrow/array"
	"github.com/apache/arrow-go/v18/arrow/memory"
)

type replayProvider struct{ calls int }

func (p *replayProvider) GenerateUploadURL(*arrow.Schema) (UploadURL, error) {
	p.calls++
	return UploadURL{UploadURL: "https://bucket/put", DownloadURL: "https://bucket/get", ExpiresAt: time.Now().Add(time.Hour)}, nil
}

func TestVerifReplay(t *testing.T) {
	h := NewHttpServer(NewServer())
	prov := &replayProvider{}
	h.SetUploadURLProvider(prov)
	h.SetAuthenticate(func(*http.Request) (*AuthContext, error) {
		return nil, NewAuthFailure(AuthReasonInvalidCredential, "rejected")
	})
	b := array.NewInt64Builder(memory.DefaultAllocator)
	b.Append(1)
	col := b.NewArray()
	params := array.NewRecordBatch(UploadURLParamsSchema, []arrow.Array{col}, 1)
	var body bytes.Buffer
	if err := WriteRequest(&body, UploadURLMethod, params, ""); err != nil {
		t.Fatal(err)
	}
	req := httptest.NewRequest("POST", "/__upload_url__/init", &body)
	req.Header.Set("Content-Type", arrowContentType)
	rec := httptest.NewRecorder()
	h.ServeHTTP(rec, req)
	if rec.Code == http.StatusOK || prov.calls > 0 {
		t.Fatalf("rejected request to /__upload_url__/init answered %d and the provider was invoked %d time(s)", rec.Code, prov.calls)
	}
}
