// Belongs in: vgirpc/ (package vgirpc, main module at the worktree root).
//
// Scout tests for property C28: parsing the WWW-Authenticate value the server
// emits recovers exactly what the (valid) OAuth resource metadata advertises.

package vgirpc

import (
	"net/http"
	"net/http/httptest"
	"testing"
)

// scoutEmit configures a real HttpServer with the metadata, provokes a 401 over
// a real HTTP round trip and returns the WWW-Authenticate value a client sees
// together with the metadata URL the server advertises.
func scoutEmit(t *testing.T, m *OAuthResourceMetadata) (header, wantURL string) {
	t.Helper()
	if err := m.Validate(); err != nil {
		t.Fatalf("metadata is not valid: %v", err)
	}
	srv := NewServer()
	h := NewHttpServer(srv)
	h.SetAuthenticate(func(r *http.Request) (*AuthContext, error) {
		return nil, &RpcError{Type: "ValueError", Message: "no credentials"}
	})
	if err := h.SetOAuthResourceMetadata(m); err != nil {
		t.Fatalf("SetOAuthResourceMetadata rejected valid metadata: %v", err)
	}
	wantURL, err := resourceMetadataURLFromResource(m.Resource)
	if err != nil {
		t.Fatal(err)
	}
	ts := httptest.NewServer(h)
	defer ts.Close()
	resp, err := http.Post(ts.URL+"/anything", "application/vnd.apache.arrow.stream", nil)
	if err != nil {
		t.Fatal(err)
	}
	resp.Body.Close()
	if resp.StatusCode != http.StatusUnauthorized {
		t.Fatalf("status = %d, want 401", resp.StatusCode)
	}
	header = resp.Header.Get("WWW-Authenticate")
	if header == "" {
		t.Fatal("no WWW-Authenticate header on the 401")
	}
	if header != buildWWWAuthenticate(wantURL, m) {
		t.Fatalf("emitted header %q differs from buildWWWAuthenticate", header)
	}
	return header, wantURL
}

func scoutCheck(t *testing.T, m *OAuthResourceMetadata) {
	t.Helper()
	header, wantURL := scoutEmit(t, m)
	t.Logf("header: %s", header)
	if got := ParseResourceMetadataURL(header); got != wantURL {
		t.Errorf("ParseResourceMetadataURL = %q, advertised %q", got, wantURL)
	}
	if got := ParseClientID(header); got != m.ClientID {
		t.Errorf("ParseClientID = %q, advertised %q", got, m.ClientID)
	}
	if got := ParseClientSecret(header); got != m.ClientSecret {
		t.Errorf("ParseClientSecret = %q, advertised %q", got, m.ClientSecret)
	}
	if got := ParseDeviceCodeClientID(header); got != m.DeviceCodeClientID {
		t.Errorf("ParseDeviceCodeClientID = %q, advertised %q", got, m.DeviceCodeClientID)
	}
	if got := ParseDeviceCodeClientSecret(header); got != m.DeviceCodeClientSecret {
		t.Errorf("ParseDeviceCodeClientSecret = %q, advertised %q", got, m.DeviceCodeClientSecret)
	}
	if got := ParseUseIDTokenAsBearer(header); got != m.UseIDTokenAsBearer {
		t.Errorf("ParseUseIDTokenAsBearer = %v, advertised %v", got, m.UseIDTokenAsBearer)
	}
}

// A resource URL whose path ends in ",client_id=" (comma and '=' are legal,
// unescaped sub-delims in a URL path). The closing quote of resource_metadata
// fuses with it into `,client_id="`, which passes the parser's
// "preceded by a separator" test, so the real client_id is never reached.
func TestScoutCommaParamNameEndsResourcePath(t *testing.T) {
	scoutCheck(t, &OAuthResourceMetadata{
		Resource:             "https://api.example.com/vgi,client_id=",
		AuthorizationServers: []string{"https://auth.example.com"},
		ClientID:             "my-client",
	})
}

// Same shape, absent parameter: client_id is NOT advertised but a non-empty
// value is read because another parameter follows.
func TestScoutCommaParamNameAbsentReadNonEmpty(t *testing.T) {
	scoutCheck(t, &OAuthResourceMetadata{
		Resource:             "https://api.example.com/vgi,client_id=",
		AuthorizationServers: []string{"https://auth.example.com"},
		ClientSecret:         "s3cret",
	})
}

// Same shape for the id-token flag: advertised true, read false.
func TestScoutCommaFlagNameEndsResourcePath(t *testing.T) {
	scoutCheck(t, &OAuthResourceMetadata{
		Resource:             "https://api.example.com/vgi,use_id_token_as_bearer=",
		AuthorizationServers: []string{"https://auth.example.com"},
		UseIDTokenAsBearer:   true,
	})
}

// Same shape through the query string (kept verbatim by net/url).
func TestScoutCommaParamNameEndsResourceQuery(t *testing.T) {
	scoutCheck(t, &OAuthResourceMetadata{
		Resource:               "https://api.example.com/vgi?a=1,device_code_client_secret=",
		AuthorizationServers:   []string{"https://auth.example.com"},
		DeviceCodeClientSecret: "dev-secret",
	})
}

// Same shape with the other accepted separator: a literal space in the query
// string is kept verbatim by net/url, and ` device_code_client_id="` matches.
func TestScoutSpaceParamNameEndsResourceQuery(t *testing.T) {
	scoutCheck(t, &OAuthResourceMetadata{
		Resource:             "https://api.example.com/vgi?q=1 device_code_client_id=",
		AuthorizationServers: []string{"https://auth.example.com"},
		DeviceCodeClientID:   "dev-client",
	})
}

// A double quote in the query string is kept verbatim by net/url, so the
// emitted header is not even well formed: the URL is truncated and forged
// parameters appear.
func TestScoutQuoteInResourceQuery(t *testing.T) {
	scoutCheck(t, &OAuthResourceMetadata{
		Resource:             `https://api.example.com/vgi?x=", client_id="injected`,
		AuthorizationServers: []string{"https://auth.example.com"},
	})
}

// A double quote in the host is accepted and kept verbatim by net/url.
func TestScoutQuoteInResourceHost(t *testing.T) {
	scoutCheck(t, &OAuthResourceMetadata{
		Resource:             `https://api"example.com/vgi`,
		AuthorizationServers: []string{"https://auth.example.com"},
		ClientID:             "my-client",
	})
}

// Controls: ordinary inputs and the previously repaired shapes must pass.
func TestScoutControls(t *testing.T) {
	for _, m := range []*OAuthResourceMetadata{
		{Resource: "https://api.example.com/vgi", AuthorizationServers: []string{"a"}},
		{Resource: "https://api.example.com/vgi", AuthorizationServers: []string{"a"}, DeviceCodeClientID: "d", DeviceCodeClientSecret: "ds"},
		{Resource: "https://api.example.com/vgi?client_id=", AuthorizationServers: []string{"a"}, ClientID: "c"},
		{Resource: "https://api.example.com/vgi/", AuthorizationServers: []string{"a"}, ClientID: "c", ClientSecret: "s", DeviceCodeClientID: "d", DeviceCodeClientSecret: "ds", UseIDTokenAsBearer: true},
		{Resource: "https://api.example.com/v gi?q=a b", AuthorizationServers: []string{"a"}, ClientID: "true", UseIDTokenAsBearer: false},
		{Resource: "https://api.example.com/vgi,client_id=x", AuthorizationServers: []string{"a"}, ClientID: "c"},
	} {
		scoutCheck(t, m)
	}
}

// TestVerifReplay: the reproducers of the two repaired defects (a parameter name at the end of the resource URL, a double quote in the resource URL) and the scout's controls
func TestVerifReplay(t *testing.T) {
	t.Run("TestScoutCommaParamNameEndsResourcePath", TestScoutCommaParamNameEndsResourcePath)
	t.Run("TestScoutCommaParamNameAbsentReadNonEmpty", TestScoutCommaParamNameAbsentReadNonEmpty)
	t.Run("TestScoutCommaFlagNameEndsResourcePath", TestScoutCommaFlagNameEndsResourcePath)
	t.Run("TestScoutCommaParamNameEndsResourceQuery", TestScoutCommaParamNameEndsResourceQuery)
	t.Run("TestScoutSpaceParamNameEndsResourceQuery", TestScoutSpaceParamNameEndsResourceQuery)
	t.Run("TestScoutQuoteInResourceQuery", TestScoutQuoteInResourceQuery)
	t.Run("TestScoutQuoteInResourceHost", TestScoutQuoteInResourceHost)
	t.Run("TestScoutControls", TestScoutControls)
}
