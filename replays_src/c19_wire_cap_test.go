package vgirpc

// Replay for property C19 (wire cap, unary and exchange): with max_response_bytes set, a unary or
// exchange response whose body would exceed the cap is replaced by an error (and that error
// response is itself small); a response within the cap is delivered as it is. Grid of result
// sizes around the cap.

import (
	"bytes"
	"context"
	"net/http"
	"net/http/httptest"
	"strings"
	"testing"

	"github.com/apache/arrow-go/v18/arrow"
	"github.com/apache/arrow-go/v18/arrow/array"
	"github.com/apache/arrow-go/v18/arrow/ipc"
	"github.com/apache/arrow-go/v18/arrow/memory"
)

var c19wSchema = arrow.NewSchema([]arrow.Field{{Name: "value", Type: arrow.PrimitiveTypes.Int64}}, nil)

type c19wParams struct {
	Value int64 `vgirpc:"value"`
}

type c19wResult struct {
	Values []int64 `vgirpc:"values"`
}

type c19wState struct{ Rows int }

func c19wBatch(rows int) arrow.RecordBatch {
	b := array.NewInt64Builder(memory.NewGoAllocator())
	for i := 0; i < rows; i++ {
		b.Append(int64(i))
	}
	col := b.NewArray()
	b.Release()
	rec := array.NewRecordBatch(c19wSchema, []arrow.Array{col}, int64(rows))
	col.Release()
	return rec
}

func (s *c19wState) Exchange(_ context.Context, in arrow.RecordBatch, out *OutputCollector, _ *CallContext) error {
	return out.Emit(c19wBatch(s.Rows)) // the collector owns the emitted batch
}

func c19wRequest(t *testing.T, method string, v int64) []byte {
	b := array.NewInt64Builder(memory.NewGoAllocator())
	b.Append(v)
	col := b.NewArray()
	b.Release()
	rec := array.NewRecordBatch(c19wSchema, []arrow.Array{col}, 1)
	col.Release()
	defer rec.Release()
	var buf bytes.Buffer
	if err := WriteRequest(&buf, method, rec, ""); err != nil {
		t.Fatal(err)
	}
	return buf.Bytes()
}

// c19wRead: exception messages, data rows and first continuation token of a response body.
func c19wRead(body []byte) (excs []string, rows int64, token string) {
	rest := body
	for len(rest) > 0 {
		rd := bytes.NewReader(rest)
		r, err := ipc.NewReader(rd)
		if err != nil {
			return
		}
		for r.Next() {
			rec := r.RecordBatch()
			rows += rec.NumRows()
			if rb, ok := rec.(arrow.RecordBatchWithMetadata); ok {
				if tk, ok := rb.Metadata().GetValue(MetaStreamState); ok && token == "" {
					token = tk
				}
				if lv, _ := rb.Metadata().GetValue(MetaLogLevel); lv == string(LogException) {
					m, _ := rb.Metadata().GetValue(MetaLogMessage)
					excs = append(excs, m)
				}
			}
		}
		r.Release()
		if rd.Len() == 0 || rd.Len() == len(rest) {
			break
		}
		rest = rest[len(rest)-rd.Len():]
	}
	return
}

func TestVerifReplay(t *testing.T) {
	RegisterStateType(&c19wState{})
	for _, capBytes := range []int64{0, 600, 2000, 20000} {
		for _, rows := range []int{0, 1, 10, 60, 200, 1000, 5000} {
			s := NewServer()
			Unary(s, "u", func(_ context.Context, _ *CallContext, p c19wParams) (c19wResult, error) {
				return c19wResult{Values: make([]int64, p.Value)}, nil
			})
			Exchange[c19wParams](s, "ex", c19wSchema, c19wSchema, func(_ context.Context, _ *CallContext, p c19wParams) (*StreamResult, error) {
				return &StreamResult{OutputSchema: c19wSchema, State: &c19wState{Rows: int(p.Value)}}, nil
			})
			h := NewHttpServer(s)
			if capBytes > 0 {
				h.SetMaxResponseBytes(capBytes)
			}
			h.InitPages()
			post := func(path string, body []byte) (int, http.Header, []byte) {
				req := httptest.NewRequest(http.MethodPost, path, bytes.NewReader(body))
				req.Header.Set("Content-Type", arrowContentType)
				w := httptest.NewRecorder()
				h.ServeHTTP(w, req)
				return w.Code, w.Header(), w.Body.Bytes()
			}
			judge := func(route string, body []byte, wantRows int64) {
				excs, gotRows, _ := c19wRead(body)
				over := capBytes > 0 && int64(len(body)) > capBytes
				capped := false
				for _, m := range excs {
					if strings.Contains(m, "max_response_bytes") {
						capped = true
					}
				}
				if over && !capped {
					t.Errorf("%s cap=%d rows=%d: a body of %d bytes went out over the cap without the cap error (exceptions %q)", route, capBytes, rows, len(body), excs)
				}
				if !capped && len(excs) == 0 && gotRows != wantRows {
					t.Errorf("%s cap=%d rows=%d: delivered %d rows, want %d", route, capBytes, rows, gotRows, wantRows)
				}
				if capped && capBytes == 0 {
					t.Errorf("%s rows=%d: cap error without a configured cap", route, rows)
				}
				if capped && gotRows != 0 {
					t.Errorf("%s cap=%d rows=%d: cap error response still carries %d data rows", route, capBytes, rows, gotRows)
				}
			}
			_, _, body := post("/u", c19wRequest(t, "u", int64(rows)))
			judge("unary", body, 1)

			_, _, initBody := post("/ex/init", c19wRequest(t, "ex", int64(rows)))
			_, _, token := c19wRead(initBody)
			if token == "" {
				t.Errorf("exchange init cap=%d rows=%d: no continuation token", capBytes, rows)
			} else {
				in := c19wBatch(1)
				var buf bytes.Buffer
				w := ipc.NewWriter(&buf, ipc.WithSchema(c19wSchema))
				wrapped := array.NewRecordBatchWithMetadata(c19wSchema, in.Columns(), 1, arrow.NewMetadata([]string{MetaStreamState}, []string{token}))
				w.Write(wrapped)
				w.Close()
				wrapped.Release()
				in.Release()
				_, _, body := post("/ex/exchange", buf.Bytes())
				judge("exchange", body, int64(rows))
			}
			h.DrainHandle().Shutdown()
		}
	}
}
