package vgirpc

// Replay for property C29: a session is resolvable only by the caller identity that opened it;
// Close runs exactly once whether the session ends by CloseSession in a handler, by DELETE, by
// expiry or by shutdown; new sessions are refused while draining; after every request on a
// session has completed — whatever its handler did with the session (nothing, close, close and
// reopen) — the per-session lock is free.

import (
	"strings"
	"bytes"
	"context"
	"net/http"
	"net/http/httptest"
	"sync"
	"testing"
	"time"

	"github.com/apache/arrow-go/v18/arrow"
	"github.com/apache/arrow-go/v18/arrow/array"
	"github.com/apache/arrow-go/v18/arrow/memory"
)

type c29P struct {
	Value int64 `vgirpc:"value"`
}

type c29State struct {
	mu     sync.Mutex
	closes int
}

func (s *c29State) Close() error { s.mu.Lock(); s.closes++; s.mu.Unlock(); return nil }
func (s *c29State) n() int       { s.mu.Lock(); defer s.mu.Unlock(); return s.closes }

func c29Call(t *testing.T, h *HttpServer, method string, hdr map[string]string) *httptest.ResponseRecorder {
	schema := arrow.NewSchema([]arrow.Field{{Name: "value", Type: arrow.PrimitiveTypes.Int64}}, nil)
	b := array.NewInt64Builder(memory.NewGoAllocator())
	b.Append(1)
	col := b.NewArray()
	b.Release()
	rec := array.NewRecordBatch(schema, []arrow.Array{col}, 1)
	col.Release()
	defer rec.Release()
	var buf bytes.Buffer
	if err := WriteRequest(&buf, method, rec, ""); err != nil {
		t.Fatal(err)
	}
	req := httptest.NewRequest(http.MethodPost, "/"+method, bytes.NewReader(buf.Bytes()))
	req.Header.Set("Content-Type", arrowContentType)
	for k, v := range hdr {
		req.Header.Set(k, v)
	}
	w := httptest.NewRecorder()
	done := make(chan struct{})
	go func() { h.ServeHTTP(w, req); close(done) }()
	select {
	case <-done:
	case <-time.After(10 * time.Second):
		t.Fatalf("request %s never completed", method)
	}
	return w
}

func c29Entries(h *HttpServer) []*sessionEntry {
	h.stickyRegistry.mu.Lock()
	defer h.stickyRegistry.mu.Unlock()
	var out []*sessionEntry
	for _, e := range h.stickyRegistry.entries {
		out = append(out, e)
	}
	return out
}

func TestVerifReplay(t *testing.T) {
	var cur *c29State
	var reopened *c29State
	s := NewServer()
	Unary(s, "open", func(_ context.Context, c *CallContext, p c29P) (int64, error) {
		if err := c.OpenSession(cur, time.Minute); err != nil {
			return 0, err
		}
		return 1, nil
	})
	var long *c29State
	Unary(s, "openlong", func(_ context.Context, c *CallContext, p c29P) (int64, error) {
		// a handler-chosen TTL far beyond the server default
		if err := c.OpenSession(long, 10*time.Hour); err != nil {
			return 0, err
		}
		return 5, nil
	})
	Unary(s, "touch", func(_ context.Context, c *CallContext, p c29P) (int64, error) { return 2, nil })
	Unary(s, "finish", func(_ context.Context, c *CallContext, p c29P) (int64, error) { c.CloseSession(); return 3, nil })
	Unary(s, "reopen", func(_ context.Context, c *CallContext, p c29P) (int64, error) {
		c.CloseSession()
		if err := c.OpenSession(reopened, time.Minute); err != nil {
			return 0, err
		}
		return 4, nil
	})
	h := NewHttpServer(s)
	h.EnableSticky(time.Minute)
	h.InitPages()
	open := func() (string, *sessionEntry, *c29State) {
		st := &c29State{}
		cur = st
		before := map[*sessionEntry]bool{}
		for _, e := range c29Entries(h) {
			before[e] = true
		}
		w := c29Call(t, h, "open", map[string]string{stickySessionAcceptHeader: "true"})
		tok := w.Header().Get(stickySessionHeader)
		if tok == "" {
			t.Fatalf("open minted no token: %d %v", w.Code, w.Header())
		}
		for _, e := range c29Entries(h) {
			if !before[e] {
				return tok, e, st
			}
		}
		t.Fatal("no new registry entry")
		return "", nil, nil
	}
	free := func(what string, e *sessionEntry) {
		if e.lock.TryLock() {
			e.lock.Unlock()
		} else {
			t.Errorf("%s: the per-session lock is still held after the request completed", what)
		}
	}
	// plain resume
	tok, e, st := open()
	c29Call(t, h, "touch", map[string]string{stickySessionHeader: tok})
	free("touch", e)
	// close inside the handler
	w := c29Call(t, h, "finish", map[string]string{stickySessionHeader: tok})
	free("CloseSession in handler", e)
	if st.n() != 1 || w.Header().Get(stickySessionCloseHeader) != "true" {
		t.Errorf("CloseSession: Close ran %d times, close header %q", st.n(), w.Header().Get(stickySessionCloseHeader))
	}
	if w2 := c29Call(t, h, "touch", map[string]string{stickySessionHeader: tok}); w2.Header().Get(rpcErrorHeader) != "true" && w2.Code == 200 {
		t.Errorf("a closed session still resolves")
	}
	if st.n() != 1 {
		t.Errorf("Close ran %d times after a later lookup", st.n())
	}
	// close and reopen inside one request
	tok, e, st = open()
	reopened = &c29State{}
	c29Call(t, h, "reopen", map[string]string{stickySessionHeader: tok, stickySessionAcceptHeader: "true"})
	free("close+reopen in handler (old entry)", e)
	for _, ne := range c29Entries(h) {
		free("close+reopen in handler (new entry)", ne)
	}
	if st.n() != 1 {
		t.Errorf("close+reopen: old state closed %d times", st.n())
	}
	// DELETE
	tok, e, st = open()
	req := httptest.NewRequest(http.MethodDelete, "/__session__", nil)
	req.Header.Set(stickySessionHeader, tok)
	dw := httptest.NewRecorder()
	h.ServeHTTP(dw, req)
	req2 := httptest.NewRequest(http.MethodDelete, "/__session__", nil)
	req2.Header.Set(stickySessionHeader, tok)
	h.ServeHTTP(httptest.NewRecorder(), req2)
	if st.n() != 1 {
		t.Errorf("DELETE (twice): Close ran %d times (status %d)", st.n(), dw.Code)
	}
	free("delete", e)
	// expiry: the reaper path and the inline path must not both close
	tok, e, st = open()
	h.stickyRegistry.mu.Lock()
	e.expiresAt = time.Now().Add(-time.Second)
	h.stickyRegistry.mu.Unlock()
	h.stickyRegistry.drainExpired(time.Now())
	c29Call(t, h, "touch", map[string]string{stickySessionHeader: tok})
	h.stickyRegistry.drainExpired(time.Now())
	if st.n() != 1 {
		t.Errorf("expiry: Close ran %d times", st.n())
	}
	// draining refuses new sessions, shutdown closes the live ones once — whatever their TTL
	_, _, live := open()
	long = &c29State{}
	lw := c29Call(t, h, "openlong", map[string]string{stickySessionAcceptHeader: "true"})
	longTok := lw.Header().Get(stickySessionHeader)
	if longTok == "" {
		t.Fatalf("long-TTL session was not opened: %v", lw.Header())
	}
	h.stickyRegistry.SetDraining(true)
	cur = &c29State{}
	if w := c29Call(t, h, "open", map[string]string{stickySessionAcceptHeader: "true"}); w.Header().Get(stickySessionHeader) != "" {
		t.Errorf("a session was opened while draining")
	}
	h.stickyRegistry.shutdown()
	h.stickyRegistry.shutdown()
	if live.n() != 1 || reopened.n() != 1 {
		t.Errorf("shutdown: live state closed %d times, reopened state %d times; want 1 and 1", live.n(), reopened.n())
	}
	if long.n() != 1 {
		t.Errorf("shutdown: the long-TTL session's state was closed %d times, want 1", long.n())
	}
	if left := c29Entries(h); len(left) != 0 {
		t.Errorf("shutdown left %d entries in the registry", len(left))
	}
	h.stickyRegistry.SetDraining(false)
	if w := c29Call(t, h, "touch", map[string]string{stickySessionHeader: longTok}); !strings.Contains(w.Body.String(), "session_lost") && !strings.Contains(w.Body.String(), "SessionLost") {
		t.Errorf("a session token still resolves after shutdown (status %d)", w.Code)
	}
	h.stickyRegistry.stopReaper()
}
