// Belongs in: vgirpc/ (package vgirpc, main module at the worktree root).
//
// Scout tests for property C30 — "Externalized batches resolve to exactly the
// uploaded data". Each test FAILS on the unchanged code.

package vgirpc

import (
	"bytes"
	"context"
	"crypto/sha256"
	"encoding/hex"
	"net/http"
	"net/http/httptest"
	"testing"

	"github.com/apache/arrow-go/v18/arrow"
	"github.com/apache/arrow-go/v18/arrow/array"
	"github.com/apache/arrow-go/v18/arrow/ipc"
	"github.com/apache/arrow-go/v18/arrow/memory"
)

var scoutSchema = arrow.NewSchema([]arrow.Field{
	{Name: "value", Type: arrow.PrimitiveTypes.Int64},
}, nil)

func scoutDataBatch(n int) arrow.RecordBatch {
	b := array.NewInt64Builder(memory.NewGoAllocator())
	defer b.Release()
	for i := 0; i < n; i++ {
		b.Append(int64(i))
	}
	col := b.NewArray()
	defer col.Release()
	return array.NewRecordBatch(scoutSchema, []arrow.Array{col}, int64(n))
}

// scoutZeroRowWithMeta builds a zero-row batch carrying per-batch custom
// metadata exactly the way the library itself does (writeLogBatch,
// server_unary.go pointer wrapping): array.NewRecordBatchWithMetadata.
func scoutZeroRowWithMeta(meta arrow.Metadata) arrow.RecordBatch {
	empty := emptyBatch(scoutSchema)
	defer empty.Release()
	return array.NewRecordBatchWithMetadata(scoutSchema, empty.Columns(), 0, meta)
}

type scoutMemStorage struct {
	data     []byte
	encoding string
}

func (m *scoutMemStorage) Upload(data []byte, _ *arrow.Schema, enc string) (string, error) {
	m.data = append([]byte(nil), data...)
	m.encoding = enc
	return "https://scout.invalid/obj", nil
}

// scoutServe serves a fixed body and returns a config that can fetch it plus a
// pointer (batch, meta) with the matching checksum.
func scoutServe(t *testing.T, body []byte, encoding string, rawForSHA []byte) (*ExternalLocationConfig, arrow.RecordBatch, arrow.Metadata) {
	t.Helper()
	srv := httptest.NewServer(http.HandlerFunc(func(w http.ResponseWriter, r *http.Request) {
		if encoding != "" {
			w.Header().Set("Content-Encoding", encoding)
		}
		w.Header().Set("Content-Type", "application/octet-stream")
		_, _ = w.Write(body)
	}))
	t.Cleanup(srv.Close)
	cfg := DefaultExternalLocationConfig(nil)
	cfg.URLValidator = nil
	cfg.MaxRetries = 1
	cfg.RetryDelay = 1
	// Do not let the Go transport transparently touch the body.
	cfg.HTTPClient = &http.Client{Transport: &http.Transport{DisableCompression: true}}
	sum := sha256.Sum256(rawForSHA)
	pb, pm := MakeExternalLocationBatch(scoutSchema, srv.URL+"/obj", hex.EncodeToString(sum[:]))
	return cfg, pb, pm
}

func scoutStream(t *testing.T, batches ...arrow.RecordBatch) []byte {
	t.Helper()
	var buf bytes.Buffer
	w := ipc.NewWriter(&buf, ipc.WithSchema(scoutSchema))
	for _, b := range batches {
		if err := w.Write(b); err != nil {
			t.Fatalf("write: %v", err)
		}
	}
	if err := w.Close(); err != nil {
		t.Fatalf("close: %v", err)
	}
	return buf.Bytes()
}

func scoutBatchMeta(b arrow.RecordBatch) arrow.Metadata {
	if rb, ok := b.(arrow.RecordBatchWithMetadata); ok {
		return rb.Metadata()
	}
	return arrow.Metadata{}
}

// Sanity: the per-batch custom metadata really survives the IPC round trip, so
// the three tests below feed the resolver what the library's own writers
// (writeLogBatch / pointer wrapping) put on the wire.
func scoutAssertWireCarriesMeta(t *testing.T, stream []byte, key string) {
	t.Helper()
	r, err := ipc.NewReader(bytes.NewReader(stream))
	if err != nil {
		t.Fatalf("reader: %v", err)
	}
	defer r.Release()
	found := false
	for r.Next() {
		if _, ok := scoutBatchMeta(r.RecordBatch()).GetValue(key); ok {
			found = true
		}
	}
	if !found {
		t.Fatalf("test set-up broken: key %q not carried as per-batch custom metadata", key)
	}
}

// ---------------------------------------------------------------------------
// Finding 1a: a fetched stream that contains another pointer must be an error.
// ---------------------------------------------------------------------------
func TestScoutFetchedStreamContainingPointerIsRefused(t *testing.T) {
	inner, innerMeta := MakeExternalLocationBatch(scoutSchema, "https://elsewhere.invalid/next")
	defer inner.Release()
	innerWithMeta := array.NewRecordBatchWithMetadata(scoutSchema, inner.Columns(), 0, innerMeta)
	defer innerWithMeta.Release()

	stream := scoutStream(t, innerWithMeta)
	scoutAssertWireCarriesMeta(t, stream, MetaLocation)
	cfg, pb, pm := scoutServe(t, stream, "", stream)
	defer pb.Release()

	got, gotMeta, err := ResolveExternalLocation(pb, pm, cfg)
	if err == nil {
		defer got.Release()
		t.Fatalf("fetched stream holds only another pointer batch (vgi_rpc.location=%q) but resolution "+
			"succeeded and returned it as data: rows=%d batchMeta=%v resolvedMeta=%v",
			"https://elsewhere.invalid/next", got.NumRows(), scoutBatchMeta(got), gotMeta)
	}
}

// ---------------------------------------------------------------------------
// Finding 1b: a fetched stream with no data batch (only a log batch) must be an
// error, and the log batch must never be returned as data.
// ---------------------------------------------------------------------------
func TestScoutFetchedStreamWithOnlyLogBatchIsRefused(t *testing.T) {
	logB := scoutZeroRowWithMeta(arrow.NewMetadata(
		[]string{MetaLogLevel, MetaLogMessage}, []string{"INFO", "hello from the uploader"}))
	defer logB.Release()

	stream := scoutStream(t, logB)
	scoutAssertWireCarriesMeta(t, stream, MetaLogLevel)
	cfg, pb, pm := scoutServe(t, stream, "", stream)
	defer pb.Release()

	got, _, err := ResolveExternalLocation(pb, pm, cfg)
	if err == nil {
		defer got.Release()
		t.Fatalf("fetched stream holds no data batch, only a log batch, but resolution succeeded and "+
			"returned the log batch as data: rows=%d batchMeta=%v", got.NumRows(), scoutBatchMeta(got))
	}
}

// ---------------------------------------------------------------------------
// Finding 1c: data batch followed by a log batch — the log batch is returned
// instead of the uploaded data.
// ---------------------------------------------------------------------------
func TestScoutTrailingLogBatchIsNotReturnedAsData(t *testing.T) {
	data := scoutDataBatch(5)
	defer data.Release()
	logB := scoutZeroRowWithMeta(arrow.NewMetadata(
		[]string{MetaLogLevel, MetaLogMessage}, []string{"INFO", "done"}))
	defer logB.Release()

	stream := scoutStream(t, data, logB)
	cfg, pb, pm := scoutServe(t, stream, "", stream)
	defer pb.Release()

	got, _, err := ResolveExternalLocation(pb, pm, cfg)
	if err != nil {
		t.Fatalf("resolve: %v", err)
	}
	defer got.Release()
	if _, isLog := scoutBatchMeta(got).GetValue(MetaLogLevel); isLog || got.NumRows() != 5 {
		t.Fatalf("resolution returned the log batch instead of the 5-row data batch: rows=%d batchMeta=%v",
			got.NumRows(), scoutBatchMeta(got))
	}
}

// ---------------------------------------------------------------------------
// Finding 2: custom metadata handed to MaybeExternalizeBatch is lost.
// ---------------------------------------------------------------------------
func TestScoutExternalizeResolveKeepsCustomMetadata(t *testing.T) {
	for _, compressed := range []bool{false, true} {
		store := &scoutMemStorage{}
		cfg := DefaultExternalLocationConfig(store)
		cfg.ExternalizeThresholdBytes = 64
		if compressed {
			cfg.Compression = &Compression{Algorithm: "zstd", Level: 1}
		}
		orig := scoutDataBatch(1000)
		origMeta := arrow.NewMetadata([]string{"app.tag"}, []string{"keep-me"})

		pb, pm, err := MaybeExternalizeBatch(orig, origMeta, cfg)
		if err != nil {
			t.Fatalf("externalize: %v", err)
		}
		if !IsExternalLocationBatch(pb, pm) {
			t.Fatalf("expected a pointer batch")
		}
		// Serve exactly what was uploaded; keep the uploader's own checksum and
		// only retarget the pointer at the test server.
		rcfg, tmp, _ := scoutServe(t, store.data, store.encoding, nil)
		tmp.Release()
		srv := httptest.NewServer(http.HandlerFunc(func(w http.ResponseWriter, r *http.Request) {
			if store.encoding != "" {
				w.Header().Set("Content-Encoding", store.encoding)
			}
			_, _ = w.Write(store.data)
		}))
		t.Cleanup(srv.Close)
		sha, _ := pm.GetValue(MetaLocationSHA256)
		pb.Release()
		pb, pm = MakeExternalLocationBatch(scoutSchema, srv.URL+"/obj", sha)

		got, gotMeta, err := ResolveExternalLocation(pb, pm, rcfg)
		pb.Release()
		if err != nil {
			t.Fatalf("resolve (compressed=%v): %v", compressed, err)
		}
		if !array.RecordEqual(orig, got) {
			t.Fatalf("values differ (compressed=%v)", compressed)
		}
		v1, ok1 := gotMeta.GetValue("app.tag")
		v2, ok2 := scoutBatchMeta(got).GetValue("app.tag")
		if !(ok1 && v1 == "keep-me") && !(ok2 && v2 == "keep-me") {
			t.Errorf("compressed=%v: custom metadata app.tag=keep-me of the original batch is gone after "+
				"externalize+resolve: returned meta=%v, batch meta=%v", compressed, gotMeta, scoutBatchMeta(got))
		}
		got.Release()
		orig.Release()
	}
}

// ---------------------------------------------------------------------------
// Finding 3: documented compression levels 5..22 make externalization fail.
// ---------------------------------------------------------------------------
func TestScoutDocumentedZstdLevelsExternalize(t *testing.T) {
	for _, level := range []int{1, 3, 4, 5, 9, 19, 22} {
		store := &scoutMemStorage{}
		cfg := DefaultExternalLocationConfig(store)
		cfg.ExternalizeThresholdBytes = 64
		cfg.Compression = &Compression{Algorithm: "zstd", Level: level} // doc: "1-22 for zstd"
		orig := scoutDataBatch(1000)
		pb, pm, err := MaybeExternalizeBatch(orig, arrow.Metadata{}, cfg)
		if err != nil {
			t.Errorf("level %d: externalization failed: %v", level, err)
			orig.Release()
			continue
		}
		if !IsExternalLocationBatch(pb, pm) {
			t.Errorf("level %d: batch above threshold was not externalized", level)
		}
		pb.Release()
		orig.Release()
	}
}

// ---------------------------------------------------------------------------
// Finding 4: on the pipe/stdio transport a stream data batch at or above the
// threshold is uploaded and replaced by a pointer batch, but the pointer's
// vgi_rpc.location / sha256 metadata is thrown away (server_stream.go:401), so
// the client receives a bare zero-row batch it can never resolve: the data is
// silently lost.
// ---------------------------------------------------------------------------
type scoutBigProducer struct{ n int }

func (p *scoutBigProducer) Produce(_ context.Context, out *OutputCollector, _ *CallContext) error {
	if p.n > 0 {
		return out.Finish()
	}
	p.n++
	return out.Emit(scoutDataBatch(1000))
}

func TestScoutPipeStreamExternalizedBatchStaysResolvable(t *testing.T) {
	store := &scoutMemStorage{}
	s := NewServer()
	cfg := DefaultExternalLocationConfig(store)
	cfg.ExternalizeThresholdBytes = 64
	s.SetExternalLocation(cfg)
	Producer(s, "scout_big", scoutSchema,
		func(context.Context, *CallContext, regressionParams) (*StreamResult, error) {
			return &StreamResult{OutputSchema: scoutSchema, State: &scoutBigProducer{}}, nil
		})

	params := regressionBatch(t, 1)
	input := append([]byte(nil), regressionRequest(t, "scout_big", params)...)
	params.Release()
	// two ticks
	var ticks bytes.Buffer
	emptySchema := arrow.NewSchema(nil, nil)
	tw := ipc.NewWriter(&ticks, ipc.WithSchema(emptySchema))
	for i := 0; i < 2; i++ {
		tick := array.NewRecordBatch(emptySchema, nil, 0)
		if err := tw.Write(tick); err != nil {
			t.Fatal(err)
		}
		tick.Release()
	}
	if err := tw.Close(); err != nil {
		t.Fatal(err)
	}
	input = append(input, ticks.Bytes()...)

	var response bytes.Buffer
	if err := s.serveOne(context.Background(), bytes.NewReader(input), &response, &shmConnState{}); err != nil {
		t.Fatal(err)
	}

	r, err := ipc.NewReader(bytes.NewReader(response.Bytes()))
	if err != nil {
		t.Fatalf("open response: %v", err)
	}
	defer r.Release()
	var rows int64
	var pointers, bareZeroRow int
	for r.Next() {
		rec := r.RecordBatch()
		m := scoutBatchMeta(rec)
		if _, isLog := m.GetValue(MetaLogLevel); isLog {
			msg, _ := m.GetValue(MetaLogMessage)
			t.Fatalf("unexpected log/error batch: %s", msg)
		}
		if IsExternalLocationBatch(rec, m) {
			pointers++
			continue
		}
		if rec.NumRows() == 0 && m.Len() == 0 {
			bareZeroRow++
		}
		rows += rec.NumRows()
	}
	if err := r.Err(); err != nil {
		t.Fatalf("reading response: %v", err)
	}
	t.Logf("uploaded=%d bytes, inline rows=%d, pointer batches=%d, bare zero-row batches=%d",
		len(store.data), rows, pointers, bareZeroRow)
	if rows != 1000 && pointers != 1 {
		t.Fatalf("the 1000-row batch was uploaded (%d bytes) but the response carries neither the rows nor a "+
			"resolvable pointer: inline rows=%d pointers=%d bare zero-row batches=%d",
			len(store.data), rows, pointers, bareZeroRow)
	}
}

// TestVerifReplay: the reproducers of repaired defects (they failed before the repair and pass on the repaired code)
func TestVerifReplay(t *testing.T) {
	t.Run("TestScoutFetchedStreamContainingPointerIsRefused", TestScoutFetchedStreamContainingPointerIsRefused)
	t.Run("TestScoutFetchedStreamWithOnlyLogBatchIsRefused", TestScoutFetchedStreamWithOnlyLogBatchIsRefused)
	t.Run("TestScoutTrailingLogBatchIsNotReturnedAsData", TestScoutTrailingLogBatchIsNotReturnedAsData)
	t.Run("TestScoutDocumentedZstdLevelsExternalize", TestScoutDocumentedZstdLevelsExternalize)
	t.Run("TestScoutPipeStreamExternalizedBatchStaysResolvable", TestScoutPipeStreamExternalizedBatchStaysResolvable)
}
