package vgirpc

// Replay for property C35: shared-memory pointers. Every malformed, negative, overflowing or
// out-of-segment pointer must come back as an error from ResolveShmBatch (never a panic), a
// good pointer must resolve to the batch that was written (schema included, also when another
// look-alike schema was written first), with the pointer keys replaced by the source key.

import (
	"fmt"
	"strconv"
	"testing"

	"github.com/apache/arrow-go/v18/arrow"
	"github.com/apache/arrow-go/v18/arrow/array"
	"github.com/apache/arrow-go/v18/arrow/memory"
)

func c35Batch(t *testing.T, md arrow.Metadata, vals ...int64) arrow.RecordBatch {
	schema := arrow.NewSchema([]arrow.Field{{Name: "x", Type: arrow.PrimitiveTypes.Int64, Metadata: md}}, &md)
	b := array.NewInt64Builder(memory.DefaultAllocator)
	defer b.Release()
	b.AppendValues(vals, nil)
	col := b.NewArray()
	defer col.Release()
	return array.NewRecordBatch(schema, []arrow.Array{col}, int64(len(vals)))
}

func TestVerifReplay(t *testing.T) {
	seg, err := ShmCreate(1 << 20)
	if err != nil {
		t.Skipf("cannot create a segment here: %v", err)
	}
	defer seg.Close()
	mdA := arrow.NewMetadata([]string{"unit"}, []string{"ms"})
	mdB := arrow.NewMetadata([]string{"unit"}, []string{"s"})
	a := c35Batch(t, mdA, 1, 2, 3)
	defer a.Release()
	b := c35Batch(t, mdB, 4, 5)
	defer b.Release()
	offA, lenA, ok, err := seg.AllocateAndWrite(a)
	if err != nil || !ok {
		t.Fatalf("write a: ok=%v err=%v", ok, err)
	}
	offB, lenB, ok, err := seg.AllocateAndWrite(b)
	if err != nil || !ok {
		t.Fatalf("write b: ok=%v err=%v", ok, err)
	}
	if offA < ShmHeaderSize || offA+uint64(lenA) > uint64(seg.Size()) || offB < offA+uint64(lenA) {
		t.Errorf("slots not inside the data area / overlapping: a=(%d,%d) b=(%d,%d)", offA, lenA, offB, lenB)
	}
	// good pointers: same schema (metadata included), same values, pointer keys replaced
	for _, c := range []struct {
		src      arrow.RecordBatch
		off      uint64
		ln       int
	}{{a, offA, lenA}, {b, offB, lenB}} {
		ptr := makeShmPointerBatch(c.src.Schema(), c.off, c.ln, map[string]string{"k": "v"})
		res, rel, release, err := ResolveShmBatch(ptr, seg)
		if err != nil {
			t.Errorf("good pointer (%d,%d): %v", c.off, c.ln, err)
			continue
		}
		if !release || rel != c.off {
			t.Errorf("good pointer (%d,%d): release=%v offset=%d", c.off, c.ln, release, rel)
		}
		if !res.Schema().Equal(c.src.Schema()) || !res.Schema().Metadata().Equal(c.src.Schema().Metadata()) || !res.Schema().Field(0).Metadata.Equal(c.src.Schema().Field(0).Metadata) {
			t.Errorf("pointer (%d,%d) resolved with schema %v, want %v", c.off, c.ln, res.Schema(), c.src.Schema())
		}
		if res.NumRows() != c.src.NumRows() || !array.Equal(res.Column(0), c.src.Column(0)) {
			t.Errorf("pointer (%d,%d) resolved to different values", c.off, c.ln)
		}
		md := res.(arrow.RecordBatchWithMetadata).Metadata()
		if _, has := md.GetValue(MetaShmOffset); has {
			t.Errorf("resolved batch still carries %s", MetaShmOffset)
		}
		if _, has := md.GetValue(MetaShmLength); has {
			t.Errorf("resolved batch still carries %s", MetaShmLength)
		}
		if v, has := md.GetValue(MetaShmSource); !has || v != seg.Name() {
			t.Errorf("resolved batch source key = %q,%v", v, has)
		}
		if v, _ := md.GetValue("k"); v != "v" {
			t.Errorf("user metadata lost")
		}
		res.Release()
		ptr.Release()
	}
	// bad pointers: an error, never a panic
	size := uint64(seg.Size())
	bad := [][2]string{
		{"100", "-50"}, {"18446744073709551606", "20"}, {strconv.FormatUint(size-4, 10), "8"}, {"0", strconv.Itoa(int(size) + 1)},
		{"-1", "10"}, {"abc", "10"}, {"10", "abc"}, {"", ""}, {"18446744073709551616", "1"}, {"10", "9223372036854775808"},
		{"9223372036854775807", "9223372036854775807"}, {strconv.FormatUint(offA, 10), "-1"}, {strconv.FormatUint(offA, 10), "-9223372036854775808"},
	}
	for _, p := range bad {
		func() {
			defer func() {
				if rv := recover(); rv != nil {
					t.Errorf("pointer offset=%q length=%q: panic escaped ResolveShmBatch: %v", p[0], p[1], rv)
				}
			}()
			meta := arrow.NewMetadata([]string{MetaShmOffset, MetaShmLength}, []string{p[0], p[1]})
			zero := emptyBatch(a.Schema())
			defer zero.Release()
			ptr := array.NewRecordBatchWithMetadata(a.Schema(), zero.Columns(), 0, meta)
			defer ptr.Release()
			res, _, release, err := ResolveShmBatch(ptr, seg)
			if err == nil {
				t.Errorf("pointer offset=%q length=%q: accepted (release=%v, rows=%s)", p[0], p[1], release, fmt.Sprint(res.NumRows()))
			}
		}()
	}
}
