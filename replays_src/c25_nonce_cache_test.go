package vgirpc

// Replay for property C25 (replay cache): a nonce that was admitted is refused on every later
// presentation while its entry has not expired, unless at least `capacity` other distinct
// nonces were admitted since; a nonce that is not remembered is admitted. Deterministic
// operation sequences on small caches, including the exactly-full cache and the oldest entry.

import (
	"fmt"
	"testing"
	"time"
)

func TestVerifReplay(t *testing.T) {
	for _, capacity := range []int{1, 2, 3, 5, 8} {
		for seed := uint64(1); seed <= 6; seed++ {
			now := time.Unix(1_700_000_000, 0)
			ttl := 10 * time.Second
			c := newNonceCache(ttl, capacity, func() time.Time { return now })
			type rec struct {
				at       time.Time
				admitted int // value of the admission counter when this nonce was admitted
			}
			live := map[string]rec{}
			admissions := 0
			rnd := seed
			next := func(n int) int {
				rnd = rnd*6364136223846793005 + 1442695040888963407
				return int((rnd >> 33) % uint64(n))
			}
			for step := 0; step < 4000; step++ {
				if next(4) == 0 {
					now = now.Add(time.Duration(next(4000)) * time.Millisecond)
				}
				nonce := fmt.Sprintf("n%d", next(capacity*2+2))
				got := c.checkAndAdd(nonce)
				r, seen := live[nonce]
				mustRefuse := seen && r.at.Add(ttl).After(now) && admissions-r.admitted < capacity
				if mustRefuse && got {
					t.Fatalf("capacity %d seed %d step %d: nonce %s admitted at %v was admitted again at %v (ttl %v, %d admissions since)",
						capacity, seed, step, nonce, r.at.Sub(time.Unix(1_700_000_000, 0)), now.Sub(time.Unix(1_700_000_000, 0)), ttl, admissions-r.admitted)
				}
				if !seen && !got {
					t.Fatalf("capacity %d seed %d step %d: never-seen nonce %s refused", capacity, seed, step, nonce)
				}
				if seen && !r.at.Add(ttl).After(now) && !got {
					t.Fatalf("capacity %d seed %d step %d: expired nonce %s refused", capacity, seed, step, nonce)
				}
				if got {
					admissions++
					live[nonce] = rec{now, admissions}
				}
			}
		}
	}
	// the exactly-full cache: replaying the oldest live proof must be refused
	now := time.Unix(1_700_000_000, 0)
	c := newNonceCache(time.Minute, 4, func() time.Time { return now })
	for i := 0; i < 4; i++ {
		if !c.checkAndAdd(fmt.Sprintf("p%d", i)) {
			t.Fatalf("fill %d refused", i)
		}
	}
	for i := 0; i < 4; i++ {
		if c.checkAndAdd(fmt.Sprintf("p%d", i)) {
			t.Errorf("replay of proof %d accepted with the cache exactly full", i)
		}
	}
}
