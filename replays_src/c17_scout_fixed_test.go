// Scout tests for property C17 (response compression negotiation / lossless).
// This file belongs in the package directory: vgirpc/ (package vgirpc).

package vgirpc

import (
	"bytes"
	"errors"
	"fmt"
	"io"
	"math/rand"
	"net/http"
	"net/http/httptest"
	"strings"
	"testing"
)

// scoutOracle is the property's statement of the negotiation, written
// independently of chooseResponseEncoding: walk the custom list, then what
// the standard list adds; identity stops with no compression; the first
// producible codec wins; it is "custom only" when absent from the standard list.
func scoutOracle(custom, standard []string, producible []string) (string, bool) {
	norm := func(in []string) []string {
		var out []string
		seen := map[string]bool{}
		for _, raw := range in {
			tok := raw
			if i := strings.Index(tok, ";"); i >= 0 {
				tok = tok[:i]
			}
			tok = strings.ToLower(strings.TrimSpace(tok))
			if tok == "" || seen[tok] {
				continue
			}
			seen[tok] = true
			out = append(out, tok)
		}
		return out
	}
	c, s := norm(custom), norm(standard)
	inC, inS := map[string]bool{}, map[string]bool{}
	for _, t := range c {
		inC[t] = true
	}
	for _, t := range s {
		inS[t] = true
	}
	order := append([]string{}, c...)
	for _, t := range s {
		if !inC[t] {
			order = append(order, t)
		}
	}
	for _, t := range order {
		if t == "identity" {
			return "", false
		}
		for _, p := range producible {
			if p == t {
				return t, inC[t] && !inS[t]
			}
		}
	}
	return "", false
}

var scoutVocabulary = []string{
	"zstd", "gzip", "identity", "br", "deflate", "*", "ZSTD", "GZip", " Identity ",
	"zstd;q=0.5", "gzip ; q=1", "identity;q=0", "", " ", "x-gzip", "zstd ", "\tgzip",
}

func scoutRandomList(r *rand.Rand) []string {
	n := r.Intn(6)
	out := make([]string, n)
	for i := range out {
		out[i] = scoutVocabulary[r.Intn(len(scoutVocabulary))]
	}
	return out
}

// TestScoutNegotiationMatchesOracle: pure-function differential test.
func TestScoutNegotiationMatchesOracle(t *testing.T) {
	r := rand.New(rand.NewSource(17))
	for _, producible := range [][]string{supportedEncodings, nil} {
		for i := 0; i < 200000; i++ {
			c, s := scoutRandomList(r), scoutRandomList(r)
			gotEnc, gotCustom := chooseResponseEncoding(strings.Join(c, ","), strings.Join(s, ","), producible)
			wantEnc, wantCustom := scoutOracle(c, s, producible)
			if gotEnc != wantEnc || gotCustom != wantCustom {
				t.Fatalf("custom=%q standard=%q producible=%v: got (%q,%v) want (%q,%v)",
					c, s, producible, gotEnc, gotCustom, wantEnc, wantCustom)
			}
		}
	}
}

// scoutDo runs one request through the full handler stack on a real server.
func scoutDo(t *testing.T, url string, body []byte, hdr http.Header) (*http.Response, []byte) {
	t.Helper()
	req, err := http.NewRequest(http.MethodPost, url, bytes.NewReader(body))
	if err != nil {
		t.Fatal(err)
	}
	for k, vs := range hdr {
		for _, v := range vs {
			req.Header.Add(k, v)
		}
	}
	if req.Header.Get("Content-Type") == "" {
		req.Header.Set("Content-Type", arrowContentType)
	}
	// Transport must not add its own Accept-Encoding or transparently decode.
	tr := &http.Transport{DisableCompression: true}
	defer tr.CloseIdleConnections()
	resp, err := (&http.Client{Transport: tr}).Do(req)
	if err != nil {
		t.Fatal(err)
	}
	defer resp.Body.Close()
	data, err := io.ReadAll(resp.Body)
	if err != nil {
		t.Fatalf("read body: %v", err)
	}
	return resp, data
}

// TestScoutEndToEndLosslessAndStamping: every level, many header shapes, small
// and large bodies, success and error responses, over a real connection.
func TestScoutEndToEndLosslessAndStamping(t *testing.T) {
	r := rand.New(rand.NewSource(1717))
	big := make([]byte, 3<<20)
	for i := range big {
		if i%97 < 40 {
			big[i] = byte('a' + r.Intn(26))
		} else {
			big[i] = 'x'
		}
	}
	type reqShape struct {
		name string
		path string
		body []byte
		ct   string
	}
	shapes := []reqShape{
		{"small", "/add", encodeRequestBody(t, "add", benchAddParams{A: 1.5, B: 2.5}), ""},
		{"big", "/greet", encodeRequestBody(t, "greet", benchGreetParams{Name: string(big)}), ""},
		{"unknown-method", "/nope", encodeRequestBody(t, "nope", benchAddParams{A: 1, B: 2}), ""},
		{"garbage-body", "/add", []byte("not arrow at all"), ""},
		{"wrong-content-type", "/add", []byte("x"), "text/plain"},
		{"not-found-page", "/a/b/c/d", []byte("x"), ""},
	}
	for level := 0; level <= 4; level++ {
		h := newBenchHTTPServer(t)
		if level > 0 {
			if err := h.SetCompressionLevel(level); err != nil {
				t.Fatalf("SetCompressionLevel(%d): %v", level, err)
			}
		} else if err := h.SetCompressionLevel(0); err != nil {
			t.Fatal(err)
		}
		ts := httptest.NewServer(h)
		producible := h.producibleResponseEncodings()
		for _, sh := range shapes {
			base := http.Header{}
			if sh.ct != "" {
				base.Set("Content-Type", sh.ct)
			}
			plainResp, plain := scoutDo(t, ts.URL+sh.path, sh.body, base)
			if level == 1 {
				t.Logf("shape %s: status %d, %s, %d identity bytes", sh.name, plainResp.StatusCode, plainResp.Header.Get("Content-Type"), len(plain))
			}
			for i := 0; i < 8; i++ {
				c, s := scoutRandomList(r), scoutRandomList(r)
				hdr := base.Clone()
				if len(c) > 0 {
					hdr.Set(customAcceptEncodingHeader, strings.Join(c, ","))
				}
				if len(s) > 0 {
					hdr.Set(acceptEncodingHeader, strings.Join(s, ", "))
				}
				resp, data := scoutDo(t, ts.URL+sh.path, sh.body, hdr)
				ctx := fmt.Sprintf("level=%d shape=%s custom=%q standard=%q", level, sh.name, c, s)
				if resp.StatusCode != plainResp.StatusCode {
					t.Fatalf("%s: status %d vs plain %d", ctx, resp.StatusCode, plainResp.StatusCode)
				}
				wantEnc, wantCustom := scoutOracle(c, s, producible)
				isArrow := resp.Header.Get("Content-Type") == arrowContentType
				if !isArrow || len(plain) == 0 {
					wantEnc = ""
				}
				ce, xce := resp.Header.Get(contentEncodingHeader), resp.Header.Get(customContentEncodingHeader)
				wantCE, wantXCE := "", ""
				if wantEnc != "" {
					if wantCustom {
						wantXCE = wantEnc
					} else {
						wantCE = wantEnc
					}
				}
				if ce != wantCE || xce != wantXCE {
					t.Fatalf("%s: Content-Encoding=%q X-VGI-Content-Encoding=%q, want %q / %q", ctx, ce, xce, wantCE, wantXCE)
				}
				decoded := data
				if wantEnc != "" {
					var err error
					decoded, err = DecodeContentEncoding(data, wantEnc, 0)
					if err != nil {
						t.Fatalf("%s: decode: %v", ctx, err)
					}
				}
				if !bytes.Equal(decoded, plain) {
					t.Fatalf("%s: decoded body (%d bytes) differs from identity body (%d bytes)", ctx, len(decoded), len(plain))
				}
				// advertisement == producible set
				adv, present := resp.Header[http.CanonicalHeaderKey(supportedEncodingsHeader)]
				if !present || len(adv) != 1 || adv[0] != strings.Join(producible, ", ") {
					t.Fatalf("%s: advertised %v, producible %v", ctx, adv, producible)
				}
			}
		}
		ts.Close()
	}
}

// TestScoutAdvertisedCodecsAreProduced: every advertised codec, asked for alone,
// is what the server produces; every non-advertised one is not.
func TestScoutAdvertisedCodecsAreProduced(t *testing.T) {
	for _, level := range []int{-5, 0, 1, 2, 3, 4} {
		h := newBenchHTTPServer(t)
		if err := h.SetCompressionLevel(level); err != nil {
			t.Fatal(err)
		}
		ts := httptest.NewServer(h)
		body := encodeRequestBody(t, "add", benchAddParams{A: 1.5, B: 2.5})
		resp, _ := scoutDo(t, ts.URL+"/add", body, nil)
		adv := parseAcceptEncoding(resp.Header.Get(supportedEncodingsHeader))
		for _, codec := range []string{"zstd", "gzip"} {
			resp, data := scoutDo(t, ts.URL+"/add", body, http.Header{acceptEncodingHeader: {codec}})
			produced := resp.Header.Get(contentEncodingHeader) == codec
			if produced != containsEncoding(adv, codec) {
				t.Errorf("level %d codec %s: advertised=%v produced=%v", level, codec, containsEncoding(adv, codec), produced)
			}
			if produced {
				if _, err := DecodeContentEncoding(data, codec, 0); err != nil {
					t.Errorf("level %d codec %s: %v", level, codec, err)
				}
			}
		}
		ts.Close()
	}
	// Rejected levels leave the previous configuration and advertisement intact.
	h := newBenchHTTPServer(t)
	for _, bad := range []int{5, 11, 22, 1 << 30} {
		if err := h.SetCompressionLevel(bad); err == nil {
			// accepted: then it must really be producible
			for _, codec := range []string{"zstd", "gzip"} {
				w, err := newCompressWriter(codec, io.Discard, h.zstdEncoderLevel)
				if err != nil {
					t.Errorf("level %d accepted and advertised %q but %s not producible: %v", bad, h.supportedEncodingsValue, codec, err)
					continue
				}
				_ = w.Close()
			}
		}
	}
}

type scoutFailWriter struct{ n int }

func (f *scoutFailWriter) Write(p []byte) (int, error) {
	f.n++
	if f.n > 1 {
		return 0, errors.New("boom")
	}
	return len(p) / 2, io.ErrShortWrite
}

// scoutRW is a ResponseWriter whose body writes fail (client went away).
type scoutRW struct {
	hdr  http.Header
	fail bool
	buf  bytes.Buffer
	code int
}

func (s *scoutRW) Header() http.Header { return s.hdr }
func (s *scoutRW) WriteHeader(c int)   { s.code = c }
func (s *scoutRW) Write(p []byte) (int, error) {
	if s.fail {
		return 0, errors.New("connection reset")
	}
	return s.buf.Write(p)
}

// TestScoutPooledEncoderSurvivesFailedResponse: a response whose write failed
// returns its encoder to the pool; the next response must still be lossless.
func TestScoutPooledEncoderSurvivesFailedResponse(t *testing.T) {
	payload := bytes.Repeat([]byte("arrow-ish payload 0123456789 "), 100000)
	for _, codec := range []string{"zstd", "gzip"} {
		for level := 1; level <= 4; level++ {
			for round := 0; round < 20; round++ {
				// failing response
				bad := &scoutRW{hdr: http.Header{"Content-Type": {arrowContentType}}, fail: true}
				cw := &compressResponseWriter{ResponseWriter: bad, encoderLevel: level, encoding: codec}
				_, _ = cw.Write(payload)
				cw.finish()
				// a second flavour of failure straight on the codec writer
				if w, err := newCompressWriter(codec, &scoutFailWriter{}, level); err == nil {
					_, _ = w.Write(payload)
					_ = w.Close()
				}
				// good response
				good := &scoutRW{hdr: http.Header{"Content-Type": {arrowContentType}}}
				cw = &compressResponseWriter{ResponseWriter: good, encoderLevel: level, encoding: codec}
				_, _ = cw.Write(payload[:len(payload)-round])
				cw.finish()
				if got := good.hdr.Get(contentEncodingHeader); got != codec {
					t.Fatalf("%s/%d: stamped %q", codec, level, got)
				}
				dec, err := DecodeContentEncoding(good.buf.Bytes(), codec, 0)
				if err != nil {
					t.Fatalf("%s/%d round %d: decode after failed predecessor: %v", codec, level, round, err)
				}
				if !bytes.Equal(dec, payload[:len(payload)-round]) {
					t.Fatalf("%s/%d round %d: not lossless after failed predecessor", codec, level, round)
				}
			}
		}
	}
}

// TestScoutMultiLineAcceptHeaders: a client may send its accept list as several
// field lines (RFC 9110 5.3: equivalent to one comma-joined list).
func TestScoutMultiLineAcceptHeaders(t *testing.T) {
	h := newBenchHTTPServer(t)
	ts := httptest.NewServer(h)
	defer ts.Close()
	body := encodeRequestBody(t, "add", benchAddParams{A: 1.5, B: 2.5})

	cases := []struct {
		name     string
		custom   []string
		standard []string
	}{
		{"custom split: br | zstd, standard gzip", []string{"br", "zstd"}, []string{"gzip"}},
		{"custom split: br | identity, standard gzip (identity must opt out)", []string{"br", "identity"}, []string{"gzip, deflate"}},
		{"standard split: br | identity | gzip", nil, []string{"br", "identity", "gzip"}},
		{"standard split: deflate | zstd", nil, []string{"deflate", "zstd"}},
	}
	for _, tc := range cases {
		t.Run(tc.name, func(t *testing.T) {
			hdr := http.Header{}
			for _, v := range tc.custom {
				hdr.Add(customAcceptEncodingHeader, v)
			}
			for _, v := range tc.standard {
				hdr.Add(acceptEncodingHeader, v)
			}
			resp, data := scoutDo(t, ts.URL+"/add", body, hdr)
			// the same list on ONE line is the reference
			one := http.Header{}
			if len(tc.custom) > 0 {
				one.Set(customAcceptEncodingHeader, strings.Join(tc.custom, ", "))
			}
			if len(tc.standard) > 0 {
				one.Set(acceptEncodingHeader, strings.Join(tc.standard, ", "))
			}
			ref, _ := scoutDo(t, ts.URL+"/add", body, one)
			gotCE, gotX := resp.Header.Get(contentEncodingHeader), resp.Header.Get(customContentEncodingHeader)
			refCE, refX := ref.Header.Get(contentEncodingHeader), ref.Header.Get(customContentEncodingHeader)
			if gotCE != refCE || gotX != refX {
				t.Errorf("split lines: Content-Encoding=%q X-VGI-Content-Encoding=%q; same list on one line: %q / %q (body %d bytes)",
					gotCE, gotX, refCE, refX, len(data))
			}
		})
	}
}

// TestVerifReplay: the reproducer of the repaired defect (accept lists split over several header lines) and the scout's passing sweeps of negotiation, stamping and losslessness
func TestVerifReplay(t *testing.T) {
	t.Run("TestScoutNegotiationMatchesOracle", TestScoutNegotiationMatchesOracle)
	t.Run("TestScoutEndToEndLosslessAndStamping", TestScoutEndToEndLosslessAndStamping)
	t.Run("TestScoutAdvertisedCodecsAreProduced", TestScoutAdvertisedCodecsAreProduced)
	t.Run("TestScoutPooledEncoderSurvivesFailedResponse", TestScoutPooledEncoderSurvivesFailedResponse)
	t.Run("TestScoutMultiLineAcceptHeaders", TestScoutMultiLineAcceptHeaders)
}
