package vgirpc

// Replay for property C27 (packOAuthCookie length prefixes): unpack(pack(x)) must return x.
// A field of 65536 bytes or more is truncated modulo 2^16 by uint16(len(field)).

import (
	"strings"
	"testing"
	"time"
)

func TestVerifReplay(t *testing.T) {
	key := []byte("0123456789abcdef0123456789abcdef")
	long := "/" + strings.Repeat("a", 65535) // 65536 bytes
	c := packOAuthCookie("verifier", "state", long, "https://app.example/cb", key, time.Now().Unix())
	v, s, u, r, err := unpackOAuthCookie(c, key, 600)
	if err != nil {
		t.Fatalf("unpack(pack(..)) failed: %v", err)
	}
	if v != "verifier" || s != "state" || u != long || r != "https://app.example/cb" {
		t.Fatalf("round trip lost data: originalURL has %d bytes (want %d), returnTo has %d bytes (want 22)", len(u), len(long), len(r))
	}
}
