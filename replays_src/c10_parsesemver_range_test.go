package vgirpc

// Replay for obligation parseSemver/post#values (property C10): a canonical version whose
// numeric part does not fit an int must not be reported as a different number.
// The server admits a client iff major.minor are numerically equal.

import (
	"math/big"
	"strings"
	"testing"
)

func TestVerifReplay(t *testing.T) {
	for _, v := range []string{"9223372036854775808.0.1", "0.9223372036854775808.0", "1.2.99999999999999999999"} {
		major, minor, patch, err := parseSemver(v)
		if err != nil {
			continue // refusing is fine: the value is not representable
		}
		parts := strings.Split(v, ".")
		_ = patch // patch takes part in no admission decision
		for i, got := range []int{major, minor} {
			want, _ := new(big.Int).SetString(parts[i], 10)
			if want.Cmp(big.NewInt(int64(got))) != 0 {
				t.Errorf("parseSemver(%q) part %d = %d, numeric value is %s (accepted without error)", v, i, got, want)
			}
		}
	}
	// observable consequence: a server at MaxInt64.0.0 admits client 9223372036854775808.0.1
	s := NewServer()
	s.SetProtocolVersion("9223372036854775807.0.0")
	if e := s.checkProtocolVersion("9223372036854775808.0.1", true); e == nil {
		t.Errorf("server 9223372036854775807.0.0 admitted client 9223372036854775808.0.1")
	}
}
