package vgirpc

// Replay for obligation ProofAuthenticate/assert@newNonceCache (property C25): a proof must not
// be accepted twice. The nonce has to be remembered for as long as its timestamp is accepted.

import (
	"net/http/httptest"
	"testing"
	"time"
)

func TestVerifReplay(t *testing.T) {
	secret := make([]byte, proofSecretLen)
	for i := range secret {
		secret[i] = byte(i + 1)
	}
	const skew = 30
	base := time.Unix(1_700_000_000, 0)
	now := base
	cfg := ProofConfig{
		Mode: ProofModeRequire, OriginID: "origin-1", SkewSeconds: skew,
		Secrets: map[string]ProofSecret{"k1": {Secret: secret, Label: "proxy"}},
		Now:     func() time.Time { return now },
	}
	auth, err := ProofAuthenticate(cfg, nil)
	if err != nil {
		t.Fatal(err)
	}
	// proof stamped at the far (future) edge of the window
	tok, err := MintProof(secret, "k1", "origin-1", base.Unix()+skew, "AAAAAAAAAAAAAAAAAAAAAA")
	if err != nil {
		t.Fatal(err)
	}
	try := func() bool {
		r := httptest.NewRequest("POST", "/x", nil)
		r.Header.Set(ProofHeader, tok)
		_, e := auth(r)
		return e == nil
	}
	if !try() {
		t.Skip("first presentation not accepted; scenario does not apply")
	}
	if try() {
		t.Fatalf("immediate replay accepted")
	}
	for _, dt := range []int{skew, skew + 1, 2 * skew} {
		now = base.Add(time.Duration(dt) * time.Second)
		if try() {
			t.Fatalf("replay accepted %ds after first use (timestamp still inside the window, nonce already forgotten)", dt)
		}
	}
}
