// Belongs in: vgirpc/ (package vgirpc) of Query-farm/vgi-rpc-go.
// Scout reproducers for property C19 (response size caps hold on every response).

package vgirpc

import (
	"bytes"
	"context"
	"net/http"
	"net/http/httptest"
	"strings"
	"sync"
	"testing"

	"github.com/apache/arrow-go/v18/arrow"
	"github.com/apache/arrow-go/v18/arrow/array"
	"github.com/apache/arrow-go/v18/arrow/ipc"
	"github.com/apache/arrow-go/v18/arrow/memory"
)

// ---------------------------------------------------------------------------
// helpers
// ---------------------------------------------------------------------------

type scoutParams struct {
	Value int64 `vgirpc:"value"`
}

var scoutInt64Schema = arrow.NewSchema([]arrow.Field{{Name: "value", Type: arrow.PrimitiveTypes.Int64}}, nil)

func scoutParamBatch(value int64) arrow.RecordBatch {
	b := array.NewInt64Builder(memory.NewGoAllocator())
	b.Append(value)
	col := b.NewArray()
	b.Release()
	rec := array.NewRecordBatch(scoutInt64Schema, []arrow.Array{col}, 1)
	col.Release()
	return rec
}

func scoutRequestBody(t *testing.T, method string, logLevel string) []byte {
	t.Helper()
	p := scoutParamBatch(1)
	defer p.Release()
	var buf bytes.Buffer
	if err := WriteRequest(&buf, method, p, logLevel); err != nil {
		t.Fatal(err)
	}
	return buf.Bytes()
}

func scoutPost(h *HttpServer, path string, body []byte) *httptest.ResponseRecorder {
	req := httptest.NewRequest(http.MethodPost, path, bytes.NewReader(body))
	req.Header.Set("Content-Type", arrowContentType)
	w := httptest.NewRecorder()
	h.ServeHTTP(w, req)
	return w
}

// scoutHasException reports whether any IPC stream in body carries an
// EXCEPTION batch, and returns its message.
func scoutHasException(body []byte) (bool, string) {
	r := bytes.NewReader(body)
	for r.Len() > 0 {
		rd, err := ipc.NewReader(r)
		if err != nil {
			return false, ""
		}
		for rd.Next() {
			if rb, ok := rd.RecordBatch().(arrow.RecordBatchWithMetadata); ok {
				md := rb.Metadata()
				if lvl, _ := md.GetValue(MetaLogLevel); lvl == string(LogException) {
					msg, _ := md.GetValue(MetaLogMessage)
					rd.Release()
					return true, msg
				}
			}
		}
		rd.Release()
	}
	return false, ""
}

// scoutStorage records every upload.
type scoutStorage struct {
	mu      sync.Mutex
	uploads [][]byte
}

func (s *scoutStorage) Upload(data []byte, _ *arrow.Schema, _ string) (string, error) {
	s.mu.Lock()
	defer s.mu.Unlock()
	s.uploads = append(s.uploads, append([]byte(nil), data...))
	return "https://scout.invalid/obj", nil
}

func (s *scoutStorage) total() (n int, bytesTotal int64) {
	s.mu.Lock()
	defer s.mu.Unlock()
	for _, u := range s.uploads {
		bytesTotal += int64(len(u))
	}
	return len(s.uploads), bytesTotal
}

// ---------------------------------------------------------------------------
// Finding 1: a void unary response is never checked against max_response_bytes
// ---------------------------------------------------------------------------

func TestScoutVoidUnaryIgnoresMaxResponseBytes(t *testing.T) {
	const capBytes = 2048
	big := strings.Repeat("x", 64*1024)

	s := NewServer()
	UnaryVoid(s, "void_logs", func(_ context.Context, c *CallContext, _ scoutParams) error {
		c.ClientLog(LogInfo, big)
		return nil
	})
	// Control: the same log volume on a method that returns a value IS refused.
	Unary(s, "valued_logs", func(_ context.Context, c *CallContext, p scoutParams) (int64, error) {
		c.ClientLog(LogInfo, big)
		return p.Value, nil
	})
	h := NewHttpServer(s)
	h.SetMaxResponseBytes(capBytes)
	h.InitPages()

	ctl := scoutPost(h, "/valued_logs", scoutRequestBody(t, "valued_logs", "INFO"))
	if ok, msg := scoutHasException(ctl.Body.Bytes()); !ok || !strings.Contains(msg, "max_response_bytes") {
		t.Fatalf("control: valued unary over the cap should be replaced by a max_response_bytes error; exception=%v msg=%q len=%d",
			ok, msg, ctl.Body.Len())
	}

	w := scoutPost(h, "/void_logs", scoutRequestBody(t, "void_logs", "INFO"))
	isErr, msg := scoutHasException(w.Body.Bytes())
	t.Logf("void unary: status=%d X-VGI-RPC-Error=%q body=%d bytes cap=%d exception=%v %q",
		w.Code, w.Header().Get(rpcErrorHeader), w.Body.Len(), capBytes, isErr, msg)
	if w.Body.Len() > capBytes && !isErr {
		t.Fatalf("C19 violated: void unary response body is %d bytes > max_response_bytes=%d and was NOT replaced by an error",
			w.Body.Len(), capBytes)
	}
}

// ---------------------------------------------------------------------------
// Finding 2: producer external cap is bypassed by nested columns, because the
// pre-flight size (batchBufferSize) only counts top-level buffers.
// ---------------------------------------------------------------------------

var scoutListSchema = arrow.NewSchema([]arrow.Field{
	{Name: "value", Type: arrow.ListOf(arrow.PrimitiveTypes.Int64)},
}, nil)

// scoutListBatch builds rows x perRow int64 values in a list<int64> column.
func scoutListBatch(rows, perRow int) arrow.RecordBatch {
	mem := memory.NewGoAllocator()
	lb := array.NewListBuilder(mem, arrow.PrimitiveTypes.Int64)
	defer lb.Release()
	vb := lb.ValueBuilder().(*array.Int64Builder)
	for i := 0; i < rows; i++ {
		lb.Append(true)
		for j := 0; j < perRow; j++ {
			vb.Append(int64(j))
		}
	}
	col := lb.NewArray()
	defer col.Release()
	return array.NewRecordBatch(scoutListSchema, []arrow.Array{col}, int64(rows))
}

type scoutNestedProducer struct{ Done bool }

func (p *scoutNestedProducer) Produce(_ context.Context, out *OutputCollector, _ *CallContext) error {
	if p.Done {
		return out.Finish()
	}
	p.Done = true
	return out.Emit(scoutListBatch(1000, 1000)) // ~8 MB of child data, ~4 KB of offsets
}

// scoutFlatProducer emits the same ~8 MB as a flat int64 column (control).
type scoutFlatProducer struct{ Done bool }

func (p *scoutFlatProducer) Produce(_ context.Context, out *OutputCollector, _ *CallContext) error {
	if p.Done {
		return out.Finish()
	}
	p.Done = true
	b := array.NewInt64Builder(memory.NewGoAllocator())
	defer b.Release()
	for i := 0; i < 1_000_000; i++ {
		b.Append(int64(i))
	}
	col := b.NewArray()
	defer col.Release()
	return out.Emit(array.NewRecordBatch(scoutInt64Schema, []arrow.Array{col}, 1_000_000))
}

func TestScoutProducerExternalCapBypassedByNestedColumn(t *testing.T) {
	RegisterStateType(&scoutNestedProducer{})
	RegisterStateType(&scoutFlatProducer{})
	const externalCap = 100_000

	// Control: 8 MB in a flat column is refused before anything is uploaded.
	{
		storage := &scoutStorage{}
		s := NewServer()
		s.SetExternalLocation(&ExternalLocationConfig{Storage: storage, ExternalizeThresholdBytes: 1024})
		Producer(s, "flat", scoutInt64Schema,
			func(context.Context, *CallContext, scoutParams) (*StreamResult, error) {
				return &StreamResult{OutputSchema: scoutInt64Schema, State: &scoutFlatProducer{}}, nil
			})
		h := NewHttpServer(s)
		h.SetMaxExternalizedResponseBytes(externalCap)
		h.InitPages()
		w := scoutPost(h, "/flat/init", scoutRequestBody(t, "flat", ""))
		isErr, msg := scoutHasException(w.Body.Bytes())
		n, total := storage.total()
		t.Logf("control (flat column): exception=%v %q uploads=%d (%d bytes)", isErr, msg, n, total)
		if !isErr || !strings.Contains(msg, "max_externalized_response_bytes") || n != 0 {
			t.Fatalf("control failed: flat 8 MB producer batch should be refused pre-upload")
		}
	}

	storage := &scoutStorage{}
	s := NewServer()
	s.SetExternalLocation(&ExternalLocationConfig{Storage: storage, ExternalizeThresholdBytes: 1024})
	Producer(s, "nested", scoutListSchema,
		func(context.Context, *CallContext, scoutParams) (*StreamResult, error) {
			return &StreamResult{OutputSchema: scoutListSchema, State: &scoutNestedProducer{}}, nil
		})
	h := NewHttpServer(s)
	h.SetMaxExternalizedResponseBytes(externalCap)
	h.InitPages()

	w := scoutPost(h, "/nested/init", scoutRequestBody(t, "nested", ""))
	isErr, msg := scoutHasException(w.Body.Bytes())
	n, total := storage.total()
	t.Logf("producer turn: status=%d X-VGI-RPC-Error=%q exception=%v %q; uploads=%d totalling %d bytes; cap=%d",
		w.Code, w.Header().Get(rpcErrorHeader), isErr, msg, n, total, externalCap)
	if total > externalCap {
		t.Fatalf("C19 violated: producer turn uploaded %d bytes (Arrow data ~8,000,000 bytes) with max_externalized_response_bytes=%d; turn reported error=%v",
			total, externalCap, isErr)
	}
}

// ---------------------------------------------------------------------------
// Borderline (scope-debatable): the /init response of an EXCHANGE stream is
// never checked against max_response_bytes, although the cap is documented as
// hard for stream-exchange. Handler logs (or a stream header) land in it.
// ---------------------------------------------------------------------------

type scoutEchoExchange struct{ N int64 }

func (x *scoutEchoExchange) Exchange(_ context.Context, in arrow.RecordBatch, out *OutputCollector, _ *CallContext) error {
	in.Retain()
	return out.Emit(in)
}

func TestScoutBorderlineExchangeInitIgnoresMaxResponseBytes(t *testing.T) {
	RegisterStateType(&scoutEchoExchange{})
	const capBytes = 2048
	big := strings.Repeat("x", 64*1024)

	s := NewServer()
	Exchange(s, "ex", scoutInt64Schema, scoutInt64Schema,
		func(_ context.Context, c *CallContext, _ scoutParams) (*StreamResult, error) {
			c.ClientLog(LogInfo, big)
			return &StreamResult{OutputSchema: scoutInt64Schema, InputSchema: scoutInt64Schema, State: &scoutEchoExchange{}}, nil
		})
	h := NewHttpServer(s)
	h.SetMaxResponseBytes(capBytes)
	h.InitPages()

	w := scoutPost(h, "/ex/init", scoutRequestBody(t, "ex", "INFO"))
	isErr, msg := scoutHasException(w.Body.Bytes())
	t.Logf("exchange init: status=%d body=%d bytes cap=%d exception=%v %q", w.Code, w.Body.Len(), capBytes, isErr, msg)
	if w.Body.Len() > capBytes && !isErr {
		t.Fatalf("exchange /init response body is %d bytes > max_response_bytes=%d and was NOT replaced by an error",
			w.Body.Len(), capBytes)
	}
}

// TestVerifReplay: the reproducers of the repaired defects (a void unary response obeys the wire cap; a nested column counts toward the external cap); TestScoutBorderlineExchangeInitIgnoresMaxResponseBytes reproduces a finding that is not repaired and is not run
func TestVerifReplay(t *testing.T) {
	t.Run("TestScoutVoidUnaryIgnoresMaxResponseBytes", TestScoutVoidUnaryIgnoresMaxResponseBytes)
	t.Run("TestScoutProducerExternalCapBypassedByNestedColumn", TestScoutProducerExternalCapBypassedByNestedColumn)
}
