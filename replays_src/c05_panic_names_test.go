package vgirpc

// Replay for property C05 (recover wrappers): a panic in a unary handler, a stream-init handler,
// a Produce or an Exchange call — whatever value it panics with — is answered with an exception
// batch named RuntimeError on the pipe and on HTTP; no Go type name and no type carried by the
// panic value reaches the wire.

import (
	"bytes"
	"context"
	"encoding/json"
	"errors"
	"net/http"
	"net/http/httptest"
	"testing"

	"github.com/apache/arrow-go/v18/arrow"
	"github.com/apache/arrow-go/v18/arrow/array"
	"github.com/apache/arrow-go/v18/arrow/ipc"
	"github.com/apache/arrow-go/v18/arrow/memory"
)

type c05Params struct {
	Value int64 `vgirpc:"value"`
}

type c05Custom struct{ N int }

var c05Schema = arrow.NewSchema([]arrow.Field{{Name: "value", Type: arrow.PrimitiveTypes.Int64}}, nil)

var c05PanicValue any

type c05State struct{}

func (s *c05State) Produce(context.Context, *OutputCollector, *CallContext) error {
	panic(c05PanicValue)
}

func (s *c05State) Exchange(context.Context, arrow.RecordBatch, *OutputCollector, *CallContext) error {
	panic(c05PanicValue)
}

func c05Batch() arrow.RecordBatch {
	b := array.NewInt64Builder(memory.NewGoAllocator())
	b.Append(1)
	col := b.NewArray()
	b.Release()
	rec := array.NewRecordBatch(c05Schema, []arrow.Array{col}, 1)
	col.Release()
	return rec
}

func c05Request(t *testing.T, method string) []byte {
	rec := c05Batch()
	defer rec.Release()
	var buf bytes.Buffer
	if err := WriteRequest(&buf, method, rec, ""); err != nil {
		t.Fatal(err)
	}
	return buf.Bytes()
}

func c05Stream(t *testing.T, rec arrow.RecordBatch, meta arrow.Metadata) []byte {
	var buf bytes.Buffer
	w := ipc.NewWriter(&buf, ipc.WithSchema(rec.Schema()))
	wrapped := array.NewRecordBatchWithMetadata(rec.Schema(), rec.Columns(), rec.NumRows(), meta)
	defer wrapped.Release()
	if err := w.Write(wrapped); err != nil {
		t.Fatal(err)
	}
	w.Close()
	return buf.Bytes()
}

// c05Exceptions lists the exception types of every exception batch in a body made of one or more
// concatenated IPC streams, and the continuation token of the first batch that carries one.
func c05Exceptions(body []byte) (types []string, token string) {
	rest := body
	for len(rest) > 0 {
		rd := bytes.NewReader(rest)
		r, err := ipc.NewReader(rd)
		if err != nil {
			return
		}
		for r.Next() {
			rb, ok := r.RecordBatch().(arrow.RecordBatchWithMetadata)
			if !ok {
				continue
			}
			if tk, ok := rb.Metadata().GetValue(MetaStreamState); ok && token == "" {
				token = tk
			}
			if lv, _ := rb.Metadata().GetValue(MetaLogLevel); lv == string(LogException) {
				extra, _ := rb.Metadata().GetValue(MetaLogExtra)
				var d errorExtra
				json.Unmarshal([]byte(extra), &d)
				types = append(types, d.ExceptionType)
			}
		}
		r.Release()
		if rd.Len() == 0 || rd.Len() == len(rest) {
			break
		}
		rest = rest[len(rest)-rd.Len():]
	}
	return
}

func TestVerifReplay(t *testing.T) {
	values := map[string]any{
		"string":                "boom",
		"plain error":           errors.New("boom"),
		"RpcError value":        &RpcError{Type: "ValueError", Message: "x"},
		"typed framework error": &SessionLostError{},
		"custom struct":         c05Custom{N: 3},
		"pointer":               &c05Custom{N: 4},
		"int":                   42,
	}
	for name, v := range values {
		c05PanicValue = v
		s := NewServer()
		Unary(s, "u", func(context.Context, *CallContext, c05Params) (int64, error) { panic(c05PanicValue) })
		Producer[c05Params](s, "pinit", c05Schema, func(context.Context, *CallContext, c05Params) (*StreamResult, error) {
			panic(c05PanicValue)
		})
		Producer[c05Params](s, "pp", c05Schema, func(context.Context, *CallContext, c05Params) (*StreamResult, error) {
			return &StreamResult{OutputSchema: c05Schema, State: &c05State{}}, nil
		})
		Exchange[c05Params](s, "ex", c05Schema, c05Schema, func(context.Context, *CallContext, c05Params) (*StreamResult, error) {
			return &StreamResult{OutputSchema: c05Schema, State: &c05State{}}, nil
		})
		RegisterStateType(&c05State{})
		h := NewHttpServer(s)
		h.InitPages()

		want := func(route string, body []byte) {
			types, _ := c05Exceptions(body)
			if len(types) == 0 {
				t.Errorf("panic(%s) on %s: no exception batch in the response", name, route)
				return
			}
			for _, ty := range types {
				if ty != "RuntimeError" {
					t.Errorf("panic(%s) on %s reached the wire as exception type %q, want RuntimeError", name, route, ty)
				}
			}
		}
		tick := array.NewRecordBatch(arrow.NewSchema(nil, nil), nil, 0)
		pipe := func(method string, input []byte) []byte {
			var resp bytes.Buffer
			s.serveOne(context.Background(), bytes.NewReader(append(c05Request(t, method), input...)), &resp, &shmConnState{})
			return resp.Bytes()
		}
		post := func(path string, body []byte) []byte {
			req := httptest.NewRequest(http.MethodPost, path, bytes.NewReader(body))
			req.Header.Set("Content-Type", arrowContentType)
			w := httptest.NewRecorder()
			h.ServeHTTP(w, req)
			return w.Body.Bytes()
		}
		want("pipe unary", pipe("u", nil))
		want("pipe stream init", pipe("pinit", nil))
		want("pipe produce", pipe("pp", c05Stream(t, tick, arrow.Metadata{})))
		data := c05Batch()
		want("pipe exchange", pipe("ex", c05Stream(t, data, arrow.Metadata{})))
		want("http unary", post("/u", c05Request(t, "u")))
		want("http stream init", post("/pinit/init", c05Request(t, "pinit")))
		want("http produce", post("/pp/init", c05Request(t, "pp")))
		_, token := c05Exceptions(post("/ex/init", c05Request(t, "ex")))
		if token == "" {
			t.Errorf("panic(%s): exchange init returned no continuation token", name)
		} else {
			want("http exchange", post("/ex/exchange", c05Stream(t, data, arrow.NewMetadata([]string{MetaStreamState}, []string{token}))))
		}
		data.Release()
		tick.Release()
		h.DrainHandle().Shutdown()
	}
}
