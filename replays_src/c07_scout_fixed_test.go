// Belongs in: vgirpc/ (package vgirpc, main module at the worktree root).
//
// Scout reproducers for property C07 ("Parameters bind only when the batch
// matches the declared schema ... each field holds the value sent, and a null
// sent for a field with a declared default yields that default").

package vgirpc

import (
	"bytes"
	"context"
	"encoding/json"
	"reflect"
	"strings"
	"testing"
	"time"

	"github.com/apache/arrow-go/v18/arrow"
	"github.com/apache/arrow-go/v18/arrow/array"
	"github.com/apache/arrow-go/v18/arrow/ipc"
	"github.com/apache/arrow-go/v18/arrow/memory"
)

// ---------------------------------------------------------------------------
// helpers
// ---------------------------------------------------------------------------

func scoutSchemaOf(t *testing.T, v any) *arrow.Schema {
	t.Helper()
	sc, err := SchemaForStruct(reflect.TypeOf(v))
	if err != nil {
		t.Fatalf("schema for %T: %v", v, err)
	}
	return sc
}

// scoutOneRow builds a one-row batch with exactly `sc`, filling each column
// through fill(i, builder).
func scoutOneRow(t *testing.T, sc *arrow.Schema, fill func(i int, b array.Builder)) arrow.RecordBatch {
	t.Helper()
	rb := array.NewRecordBuilder(memory.NewGoAllocator(), sc)
	defer rb.Release()
	for i := range sc.NumFields() {
		fill(i, rb.Field(i))
	}
	return rb.NewRecordBatch()
}

// scoutCall sends `batch` as the parameters of `method` over the raw (pipe)
// transport and returns ("" , true) when the call produced a result and no
// EXCEPTION, or the exception "Type: message" otherwise.
func scoutCall(t *testing.T, s *Server, method string, batch arrow.RecordBatch) (exc string) {
	t.Helper()
	var req bytes.Buffer
	if err := WriteRequest(&req, method, batch, ""); err != nil {
		t.Fatal(err)
	}
	var resp bytes.Buffer
	if err := s.serveOne(context.Background(), bytes.NewReader(req.Bytes()), &resp, &shmConnState{}); err != nil {
		t.Fatalf("serveOne: %v", err)
	}
	r, err := ipc.NewReader(bytes.NewReader(resp.Bytes()))
	if err != nil {
		t.Fatalf("open response: %v", err)
	}
	defer r.Release()
	for r.Next() {
		rbm, ok := r.RecordBatch().(arrow.RecordBatchWithMetadata)
		if !ok {
			continue
		}
		md := rbm.Metadata()
		if level, _ := md.GetValue(MetaLogLevel); level == string(LogException) {
			extra, _ := md.GetValue(MetaLogExtra)
			var decoded errorExtra
			_ = json.Unmarshal([]byte(extra), &decoded)
			return decoded.ExceptionType + ": " + decoded.ExceptionMessage
		}
	}
	return ""
}

// ---------------------------------------------------------------------------
// F1: a null sent for a pointer field with a declared default
// ---------------------------------------------------------------------------

type scoutPtrDefaultParams struct {
	Sep *string `vgirpc:"sep,default=-"`
}

func TestScoutNullForPointerFieldWithDefaultYieldsDefault(t *testing.T) {
	s := NewServer()
	ran := false
	var got *string
	UnaryVoid(s, "m", func(_ context.Context, _ *CallContext, p scoutPtrDefaultParams) error {
		ran, got = true, p.Sep
		return nil
	})
	sc := scoutSchemaOf(t, scoutPtrDefaultParams{})
	if !sc.Field(0).Nullable {
		t.Fatal("precondition: *string must be a nullable column")
	}
	batch := scoutOneRow(t, sc, func(_ int, b array.Builder) { b.AppendNull() })
	defer batch.Release()

	exc := scoutCall(t, s, "m", batch)
	if exc != "" {
		t.Fatalf("batch has exactly the declared schema %s and carries a null for a field with default=-, but the call was refused: %s", sc, exc)
	}
	if !ran || got == nil || *got != "-" {
		t.Fatalf("handler ran=%v sep=%v, want the declared default \"-\"", ran, got)
	}
}

// ---------------------------------------------------------------------------
// F2: a null sent for a narrow-int / float32 / uint field with a declared default
// ---------------------------------------------------------------------------

type scoutInt32DefaultParams struct {
	Count int32 `vgirpc:"count,nullable,default=5"`
}
type scoutFloat32DefaultParams struct {
	Ratio float32 `vgirpc:"ratio,nullable,default=1.5"`
}
type scoutUint64DefaultParams struct {
	Limit uint64 `vgirpc:"limit,nullable,default=10"`
}

func TestScoutNullForNarrowNumericFieldWithDefaultYieldsDefault(t *testing.T) {
	t.Run("int32", func(t *testing.T) {
		s := NewServer()
		var got int32
		ran := false
		UnaryVoid(s, "m", func(_ context.Context, _ *CallContext, p scoutInt32DefaultParams) error {
			ran, got = true, p.Count
			return nil
		})
		sc := scoutSchemaOf(t, scoutInt32DefaultParams{})
		batch := scoutOneRow(t, sc, func(_ int, b array.Builder) { b.AppendNull() })
		defer batch.Release()
		if exc := scoutCall(t, s, "m", batch); exc != "" {
			t.Fatalf("null for int32 field with default=5 refused: %s", exc)
		}
		if !ran || got != 5 {
			t.Fatalf("ran=%v count=%d want 5", ran, got)
		}
	})
	t.Run("float32", func(t *testing.T) {
		s := NewServer()
		var got float32
		ran := false
		UnaryVoid(s, "m", func(_ context.Context, _ *CallContext, p scoutFloat32DefaultParams) error {
			ran, got = true, p.Ratio
			return nil
		})
		sc := scoutSchemaOf(t, scoutFloat32DefaultParams{})
		batch := scoutOneRow(t, sc, func(_ int, b array.Builder) { b.AppendNull() })
		defer batch.Release()
		if exc := scoutCall(t, s, "m", batch); exc != "" {
			t.Fatalf("null for float32 field with default=1.5 refused: %s", exc)
		}
		if !ran || got != 1.5 {
			t.Fatalf("ran=%v ratio=%v want 1.5", ran, got)
		}
	})
	t.Run("uint64", func(t *testing.T) {
		s := NewServer()
		var got uint64
		ran := false
		UnaryVoid(s, "m", func(_ context.Context, _ *CallContext, p scoutUint64DefaultParams) error {
			ran, got = true, p.Limit
			return nil
		})
		sc := scoutSchemaOf(t, scoutUint64DefaultParams{})
		batch := scoutOneRow(t, sc, func(_ int, b array.Builder) { b.AppendNull() })
		defer batch.Release()
		if exc := scoutCall(t, s, "m", batch); exc != "" {
			t.Fatalf("null for uint64 field with default=10 refused: %s", exc)
		}
		if !ran || got != 10 {
			t.Fatalf("ran=%v limit=%v want 10", ran, got)
		}
	})
}

// ---------------------------------------------------------------------------
// F3: a *map parameter can never be bound
// ---------------------------------------------------------------------------

type scoutPtrMapParams struct {
	Tags *map[string]int64 `vgirpc:"tags"`
}

func TestScoutPointerMapParameterBinds(t *testing.T) {
	s := NewServer()
	var got *map[string]int64
	ran := false
	UnaryVoid(s, "m", func(_ context.Context, _ *CallContext, p scoutPtrMapParams) error {
		ran, got = true, p.Tags
		return nil
	})
	sc := scoutSchemaOf(t, scoutPtrMapParams{})
	batch := scoutOneRow(t, sc, func(_ int, b array.Builder) {
		mb := b.(*array.MapBuilder)
		mb.Append(true)
		mb.KeyBuilder().(*array.StringBuilder).Append("a")
		mb.ItemBuilder().(*array.Int64Builder).Append(7)
	})
	defer batch.Release()
	if !batch.Schema().Equal(sc) {
		t.Fatal("precondition: batch schema equals the declared schema")
	}
	if exc := scoutCall(t, s, "m", batch); exc != "" {
		t.Fatalf("batch with exactly the declared schema %s refused: %s", sc, exc)
	}
	if !ran || got == nil || (*got)["a"] != 7 {
		t.Fatalf("ran=%v tags=%v want map[a:7]", ran, got)
	}
}

// ---------------------------------------------------------------------------
// F4: a null map item is bound as whatever bytes sit under the null
// ---------------------------------------------------------------------------

type scoutMapPtrValParams struct {
	Tags map[string]*int64 `vgirpc:"tags"`
}

func TestScoutNullMapItemIsNotBoundAsAValue(t *testing.T) {
	sc := scoutSchemaOf(t, scoutMapPtrValParams{})
	mt := sc.Field(0).Type.(*arrow.MapType)
	if !mt.ItemField().Nullable {
		t.Skip("map items are declared non-nullable; nothing to show")
	}

	// Build map {"a": null} where the slot under the null holds 42. Arrow
	// says the content of a null slot is undefined, so the sender is free to
	// leave anything there; the value SENT is null.
	mem := memory.NewGoAllocator()
	kb := array.NewStringBuilder(mem)
	kb.Append("a")
	keys := kb.NewArray()
	defer keys.Release()
	ib := array.NewInt64Builder(mem)
	ib.Append(42)
	itemsValid := ib.NewArray()
	defer itemsValid.Release()
	// same values buffer, validity bitmap = 0 (null)
	nullBitmap := memory.NewBufferBytes([]byte{0x00})
	itemsData := array.NewData(arrow.PrimitiveTypes.Int64, 1,
		[]*memory.Buffer{nullBitmap, itemsValid.Data().Buffers()[1]}, nil, 1, 0)
	defer itemsData.Release()
	entries := array.NewData(mt.Elem(), 1, []*memory.Buffer{nil},
		[]arrow.ArrayData{keys.Data(), itemsData}, 0, 0)
	defer entries.Release()
	offsets := memory.NewBufferBytes(arrow.Int32Traits.CastToBytes([]int32{0, 1}))
	mapData := array.NewData(mt, 1, []*memory.Buffer{nil, offsets}, []arrow.ArrayData{entries}, 0, 0)
	defer mapData.Release()
	mapArr := array.NewMapData(mapData)
	defer mapArr.Release()
	if !mapArr.Items().IsNull(0) {
		t.Fatal("precondition: the item sent is null")
	}
	batch := array.NewRecordBatch(sc, []arrow.Array{mapArr}, 1)
	defer batch.Release()

	s := NewServer()
	var got map[string]*int64
	ran := false
	UnaryVoid(s, "m", func(_ context.Context, _ *CallContext, p scoutMapPtrValParams) error {
		ran, got = true, p.Tags
		return nil
	})
	if exc := scoutCall(t, s, "m", batch); exc != "" {
		t.Fatalf("refused: %s", exc)
	}
	if !ran {
		t.Fatal("handler did not run")
	}
	v, present := got["a"]
	if !present {
		t.Fatalf("key a missing: %v", got)
	}
	if v != nil {
		t.Fatalf("item sent was NULL, handler received a pointer to %d", *v)
	}
}

// ---------------------------------------------------------------------------
// F5: a method whose declared schema IS {request: binary}
// ---------------------------------------------------------------------------

type scoutRequestBytesParams struct {
	Request []byte `vgirpc:"request"`
}

func TestScoutDeclaredRequestBinaryFieldHoldsValueSent(t *testing.T) {
	s := NewServer()
	var got []byte
	ran := false
	UnaryVoid(s, "store", func(_ context.Context, _ *CallContext, p scoutRequestBytesParams) error {
		ran, got = true, append([]byte(nil), p.Request...)
		return nil
	})
	sc := scoutSchemaOf(t, scoutRequestBytesParams{})

	t.Run("plain bytes", func(t *testing.T) {
		ran, got = false, nil
		payload := []byte("hello, not an IPC stream")
		batch := scoutOneRow(t, sc, func(_ int, b array.Builder) { b.(*array.BinaryBuilder).Append(payload) })
		defer batch.Release()
		if !batch.Schema().Equal(sc) {
			t.Fatal("precondition")
		}
		if exc := scoutCall(t, s, "store", batch); exc != "" {
			t.Fatalf("batch with exactly the declared schema %s refused: %s", sc, exc)
		}
		if !ran || !bytes.Equal(got, payload) {
			t.Fatalf("ran=%v got=%q want %q", ran, got, payload)
		}
	})

	t.Run("bytes that are themselves an IPC stream of the same shape", func(t *testing.T) {
		ran, got = false, nil
		// The opaque payload happens to be an Arrow IPC stream whose one batch
		// is {request: binary = ""}. It is still just the bytes of `request`.
		inner := scoutOneRow(t, sc, func(_ int, b array.Builder) { b.(*array.BinaryBuilder).Append([]byte{}) })
		defer inner.Release()
		var buf bytes.Buffer
		w := ipc.NewWriter(&buf, ipc.WithSchema(sc))
		if err := w.Write(inner); err != nil {
			t.Fatal(err)
		}
		_ = w.Close()
		payload := buf.Bytes()

		batch := scoutOneRow(t, sc, func(_ int, b array.Builder) { b.(*array.BinaryBuilder).Append(payload) })
		defer batch.Release()
		if exc := scoutCall(t, s, "store", batch); exc != "" {
			t.Fatalf("refused: %s", exc)
		}
		if !ran {
			t.Fatal("handler did not run")
		}
		if !bytes.Equal(got, payload) {
			t.Fatalf("field `request` was sent %d bytes but the handler received %d bytes (%q)", len(payload), len(got), got)
		}
	})
}

// ---------------------------------------------------------------------------
// F6: duration value that does not fit time.Duration
// ---------------------------------------------------------------------------

type scoutDurationParams struct {
	D time.Duration `vgirpc:"d,duration"`
}

func TestScoutDurationValueSentIsValueBound(t *testing.T) {
	s := NewServer()
	var got time.Duration
	ran := false
	UnaryVoid(s, "m", func(_ context.Context, _ *CallContext, p scoutDurationParams) error {
		ran, got = true, p.D
		return nil
	})
	sc := scoutSchemaOf(t, scoutDurationParams{})
	// 300 years in microseconds: a perfectly good duration[us], positive.
	const sentUS = int64(300 * 365 * 24 * 3600 * 1_000_000)
	batch := scoutOneRow(t, sc, func(_ int, b array.Builder) { b.(*array.DurationBuilder).Append(arrow.Duration(sentUS)) })
	defer batch.Release()
	exc := scoutCall(t, s, "m", batch)
	if exc != "" {
		if strings.HasPrefix(exc, "TypeError") {
			return // refusing a value time.Duration cannot hold is fine
		}
		t.Fatalf("unexpected error: %s", exc)
	}
	if !ran {
		t.Fatal("handler did not run and no error")
	}
	if got.Microseconds() != sentUS {
		t.Fatalf("sent duration %d us (positive, ~300y); handler received %v (%d us)", sentUS, got, got.Microseconds())
	}
}

// ---------------------------------------------------------------------------
// F7: null in a NON-nullable column without default
// ---------------------------------------------------------------------------

type scoutRequiredParams struct {
	Amount int64 `vgirpc:"amount"`
}

func TestScoutNullInNonNullableColumnWithoutDefault(t *testing.T) {
	s := NewServer()
	var got int64
	ran := false
	UnaryVoid(s, "m", func(_ context.Context, _ *CallContext, p scoutRequiredParams) error {
		ran, got = true, p.Amount
		return nil
	})
	sc := scoutSchemaOf(t, scoutRequiredParams{})
	if sc.Field(0).Nullable {
		t.Fatal("precondition: amount is declared NOT NULL")
	}
	batch := scoutOneRow(t, sc, func(_ int, b array.Builder) { b.AppendNull() })
	defer batch.Release()
	exc := scoutCall(t, s, "m", batch)
	if ran {
		t.Fatalf("handler ran with amount=%d although the NOT NULL column carried a null (exc=%q)", got, exc)
	}
}

// ---------------------------------------------------------------------------
// F8: an ArrowSerializable parameter whose Go fields carry `vgirpc` tags
// (the serializer's documented fallback) decodes to all zeros
// ---------------------------------------------------------------------------

type scoutVPoint struct {
	X float64 `vgirpc:"x"`
	Y float64 `vgirpc:"y"`
}

func (scoutVPoint) ArrowSchema() *arrow.Schema {
	return arrow.NewSchema([]arrow.Field{
		{Name: "x", Type: arrow.PrimitiveTypes.Float64},
		{Name: "y", Type: arrow.PrimitiveTypes.Float64},
	}, nil)
}

type scoutVPointParams struct {
	P scoutVPoint `vgirpc:"p,binary"`
}

func TestScoutArrowSerializableWithVgirpcTagsHoldsValueSent(t *testing.T) {
	s := NewServer()
	var got scoutVPoint
	ran := false
	UnaryVoid(s, "m", func(_ context.Context, _ *CallContext, p scoutVPointParams) error {
		ran, got = true, p.P
		return nil
	})
	sent := scoutVPoint{X: 1.5, Y: 2.5}
	// The library's own encoder accepts this type (findArrowField falls back
	// to vgirpc tags) and produces {x: 1.5, y: 2.5}.
	data, err := serializeArrowSerializable(sent)
	if err != nil {
		t.Fatal(err)
	}
	sc := scoutSchemaOf(t, scoutVPointParams{})
	batch := scoutOneRow(t, sc, func(_ int, b array.Builder) { b.(*array.BinaryBuilder).Append(data) })
	defer batch.Release()
	if exc := scoutCall(t, s, "m", batch); exc != "" {
		t.Fatalf("refused: %s", exc)
	}
	if !ran || got != sent {
		t.Fatalf("sent %+v, handler ran=%v and received %+v", sent, ran, got)
	}
}

// ---------------------------------------------------------------------------
// F9 (observation): the payload of an ArrowSerializable parameter is not
// gated at all: subset, foreign and merely-convertible columns are accepted
// ---------------------------------------------------------------------------

type scoutAPoint struct {
	X float64 `arrow:"x"`
	Y float64 `arrow:"y"`
}

func (scoutAPoint) ArrowSchema() *arrow.Schema {
	return arrow.NewSchema([]arrow.Field{
		{Name: "x", Type: arrow.PrimitiveTypes.Float64},
		{Name: "y", Type: arrow.PrimitiveTypes.Float64},
	}, nil)
}

type scoutAPointParams struct {
	P scoutAPoint `vgirpc:"p,binary"`
}

func TestScoutArrowSerializablePayloadOfWrongShapeIsRefused(t *testing.T) {
	s := NewServer()
	var got scoutAPoint
	ran := false
	UnaryVoid(s, "m", func(_ context.Context, _ *CallContext, p scoutAPointParams) error {
		ran, got = true, p.P
		return nil
	})
	// declared {x: float64, y: float64}; sent {y: float32, zzz: int64}
	isc := arrow.NewSchema([]arrow.Field{
		{Name: "y", Type: arrow.PrimitiveTypes.Float32},
		{Name: "zzz", Type: arrow.PrimitiveTypes.Int64},
	}, nil)
	rb := array.NewRecordBuilder(memory.NewGoAllocator(), isc)
	defer rb.Release()
	rb.Field(0).(*array.Float32Builder).Append(3)
	rb.Field(1).(*array.Int64Builder).Append(3)
	inner := rb.NewRecordBatch()
	defer inner.Release()
	var buf bytes.Buffer
	w := ipc.NewWriter(&buf, ipc.WithSchema(isc))
	_ = w.Write(inner)
	_ = w.Close()
	sc := scoutSchemaOf(t, scoutAPointParams{})
	batch := scoutOneRow(t, sc, func(_ int, b array.Builder) { b.(*array.BinaryBuilder).Append(buf.Bytes()) })
	defer batch.Release()
	exc := scoutCall(t, s, "m", batch)
	if ran {
		t.Fatalf("handler ran with %+v for a payload of schema %s (declared %s); exc=%q", got, isc, scoutAPoint{}.ArrowSchema(), exc)
	}
}

// ---------------------------------------------------------------------------
// F10 (adjacent): P registered as a pointer type is accepted at registration
// and then no call can ever be dispatched
// ---------------------------------------------------------------------------

func TestScoutPointerParamsTypeDispatches(t *testing.T) {
	s := NewServer()
	ran := false
	var got int64
	UnaryVoid(s, "m", func(_ context.Context, _ *CallContext, p *scoutRequiredParams) error {
		ran, got = true, p.Amount
		return nil
	})
	sc := scoutSchemaOf(t, scoutRequiredParams{})
	batch := scoutOneRow(t, sc, func(_ int, b array.Builder) { b.(*array.Int64Builder).Append(9) })
	defer batch.Release()
	exc := scoutCall(t, s, "m", batch)
	if !ran || got != 9 {
		t.Fatalf("batch matches the declared schema, ran=%v amount=%d exc=%q", ran, got, exc)
	}
}

// TestVerifReplay: the reproducers of the repaired binding defects (defaults for pointer and narrow numeric fields, *map parameters, null map items, durations beyond time.Duration); the other TestScout* functions reproduce findings that are not repaired and are not run
func TestVerifReplay(t *testing.T) {
	t.Run("TestScoutNullForPointerFieldWithDefaultYieldsDefault", TestScoutNullForPointerFieldWithDefaultYieldsDefault)
	t.Run("TestScoutNullForNarrowNumericFieldWithDefaultYieldsDefault", TestScoutNullForNarrowNumericFieldWithDefaultYieldsDefault)
	t.Run("TestScoutPointerMapParameterBinds", TestScoutPointerMapParameterBinds)
	t.Run("TestScoutNullMapItemIsNotBoundAsAValue", TestScoutNullMapItemIsNotBoundAsAValue)
	t.Run("TestScoutDurationValueSentIsValueBound", TestScoutDurationValueSentIsValueBound)
}
