package vgirpc

// Replay for property C09: __describe__ lists every registered method once, sorted, with schema
// bytes that decode to exactly the registered schemas — also when several schemas look alike
// (same fields, different key/value metadata) — and a protocol hash that does not depend on the
// registration order and equals the reference digest of the registered surface.

import (
	"context"
	"sort"
	"testing"

	"github.com/apache/arrow-go/v18/arrow"
	"github.com/apache/arrow-go/v18/arrow/array"
)

type c09None struct{}
type c09P struct {
	A int64 `vgirpc:"a"`
}

func c09Server(order []string, outs map[string]*arrow.Schema, hdrs map[string]*arrow.Schema) *Server {
	s := NewServer()
	h := func(context.Context, *CallContext, c09None) (*StreamResult, error) { return nil, nil }
	for _, n := range order {
		switch {
		case n == "unary_add":
			Unary(s, n, func(ctx context.Context, c *CallContext, p c09P) (int64, error) { return p.A, nil })
		case n == "unary_void":
			UnaryVoid(s, n, func(ctx context.Context, c *CallContext, p c09P) error { return nil })
		case hdrs[n] != nil:
			ProducerWithHeader[c09None](s, n, outs[n], hdrs[n], h)
		default:
			Producer[c09None](s, n, outs[n], h)
		}
	}
	return s
}

func TestVerifReplay(t *testing.T) {
	f := func(md arrow.Metadata) arrow.Field { return arrow.Field{Name: "x", Type: arrow.PrimitiveTypes.Int64, Metadata: md} }
	smd := arrow.NewMetadata([]string{"origin"}, []string{"sensor-7"})
	smd2 := arrow.NewMetadata([]string{"origin"}, []string{"sensor-8"})
	outs := map[string]*arrow.Schema{
		"s_field_ms": arrow.NewSchema([]arrow.Field{f(arrow.NewMetadata([]string{"unit"}, []string{"ms"}))}, nil),
		"s_field_s":  arrow.NewSchema([]arrow.Field{f(arrow.NewMetadata([]string{"unit"}, []string{"s"}))}, nil),
		"s_plain":    arrow.NewSchema([]arrow.Field{f(arrow.Metadata{})}, nil),
		"s_schema7":  arrow.NewSchema([]arrow.Field{f(arrow.Metadata{})}, &smd),
		"s_schema8":  arrow.NewSchema([]arrow.Field{f(arrow.Metadata{})}, &smd2),
		"s_header":   arrow.NewSchema([]arrow.Field{f(arrow.Metadata{})}, nil),
	}
	hdrs := map[string]*arrow.Schema{"s_header": outs["s_field_ms"]}
	names := []string{"unary_add", "unary_void"}
	for n := range outs {
		names = append(names, n)
	}
	sort.Strings(names)
	orders := [][]string{names, {}, {}}
	for i := len(names) - 1; i >= 0; i-- {
		orders[1] = append(orders[1], names[i])
	}
	for i := range names {
		orders[2] = append(orders[2], names[(i*5+3)%len(names)])
	}
	var hashes []string
	for oi, order := range orders {
		s := c09Server(order, outs, hdrs)
		batch, meta := s.buildDescribeBatch()
		hash, _ := meta.GetValue(MetaProtocolHash)
		hashes = append(hashes, hash)
		if int(batch.NumRows()) != len(names) {
			t.Fatalf("order %d: %d rows for %d registered methods", oi, batch.NumRows(), len(names))
		}
		col := func(i int) *array.Binary { return batch.Column(i).(*array.Binary) }
		nm := batch.Column(0).(*array.String)
		var rn, rt []string
		var rr, rh []bool
		var rx []int8
		var rp, rs, rhd [][]byte
		for i := 0; i < int(batch.NumRows()); i++ {
			name := nm.Value(i)
			if name != names[i] {
				t.Errorf("order %d: row %d is %q, want %q (sorted, each once)", oi, i, name, names[i])
				continue
			}
			info := s.methods[name]
			check := func(what string, got []byte, want *arrow.Schema) {
				sc, err := deserializeSchema(got)
				if err != nil || !sc.Equal(want) || !sc.Metadata().Equal(want.Metadata()) {
					t.Errorf("order %d: %s.%s decodes to %v (err %v), registered %v", oi, name, what, sc, err, want)
					return
				}
				for k := range sc.Fields() {
					if !sc.Field(k).Metadata.Equal(want.Field(k).Metadata) {
						t.Errorf("order %d: %s.%s field %d metadata %v, registered %v", oi, name, what, k, sc.Field(k).Metadata, want.Field(k).Metadata)
					}
				}
			}
			check("params", col(3).Value(i), info.ParamsSchema)
			res := info.ResultSchema
			if info.OutputSchema != nil {
				res = info.OutputSchema
			}
			if o, isStream := outs[name]; isStream && res != o {
				t.Errorf("order %d: %s registered with another output schema object", oi, name)
			}
			check("result", col(4).Value(i), res)
			var hb []byte
			if hdrs[name] != nil {
				if col(6).IsNull(i) {
					t.Errorf("order %d: %s has no header schema", oi, name)
				} else {
					check("header", col(6).Value(i), hdrs[name])
					hb = serializeSchema(hdrs[name])
				}
			} else if !col(6).IsNull(i) {
				t.Errorf("order %d: %s has a header schema", oi, name)
			}
			rn = append(rn, name)
			rt = append(rt, batch.Column(1).(*array.String).Value(i))
			rr = append(rr, batch.Column(2).(*array.Boolean).Value(i))
			rh = append(rh, hdrs[name] != nil)
			rx = append(rx, -1)
			rp = append(rp, serializeSchema(info.ParamsSchema))
			rs = append(rs, serializeSchema(res))
			rhd = append(rhd, hb)
		}
		if want := computeProtocolHash("GoRpcServer", rn, rt, rr, rh, rx, rp, rs, rhd); want != hash {
			t.Errorf("order %d: protocol hash %s, reference digest of the registered surface %s", oi, hash, want)
		}
		if s.ProtocolHash() != hash {
			t.Errorf("order %d: ProtocolHash() differs from the describe hash", oi)
		}
		batch.Release()
	}
	if hashes[0] != hashes[1] || hashes[0] != hashes[2] {
		t.Errorf("protocol hash depends on registration order: %v", hashes)
	}
}
