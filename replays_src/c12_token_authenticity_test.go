package vgirpc

// Replay for property C12 (token authenticity): a cursor or call token is accepted only by a
// server holding the key it was sealed under — also when several servers with different keys
// live in one process, in either order of first use — and every single-byte mutation, truncation,
// extension, re-versioning or re-encoding of a valid token is refused with the one uniform error.

import (
	"bytes"
	"encoding/base64"
	"testing"
)

type c12State struct{ N int }

func TestVerifReplay(t *testing.T) {
	RegisterStateType(&c12State{})
	keys := [][]byte{
		bytes.Repeat([]byte{1}, 32),
		bytes.Repeat([]byte{2}, 32),
		bytes.Repeat([]byte{1}, 16),                              // short key sharing a prefix with key 0
		append(bytes.Repeat([]byte{1}, 32), 9),                   // 33 bytes: key 0 plus one byte
		append(bytes.Repeat([]byte{1}, 32), bytes.Repeat([]byte{7}, 32)...), // 64 bytes, same first 32
	}
	var servers []*HttpServer
	for _, k := range keys {
		h, err := NewHttpServerWithKey(NewServer(), k)
		if err != nil {
			t.Fatal(err)
		}
		servers = append(servers, h)
	}
	// every server mints first (so any process-wide caching has seen every key), then cross-check
	type minted struct{ cursor, call []byte }
	var tokens []minted
	for i, h := range servers {
		cur, err := h.packCursorToken("0123456789abcdef0123456789abcdef", &c12State{N: i}, nil)
		if err != nil {
			t.Fatal(err)
		}
		data := callTokenData{CreatedAt: 1 << 40, CallID: "0123456789abcdef0123456789abcdef", StreamID: "sid"}
		call, err := h.sealToken(callTokenVersion, &data, callTokenAad(nil))
		if err != nil {
			t.Fatal(err)
		}
		tokens = append(tokens, minted{cur, call})
	}
	for i, h := range servers {
		for j, tk := range tokens {
			d, err := h.openCursorToken(tk.cursor, nil)
			if i == j {
				if err != nil {
					t.Errorf("server %d refuses its own cursor: %v", i, err)
				} else if st, ok := d.State.(*c12State); !ok || st.N != i {
					t.Errorf("server %d: own cursor opened to %#v", i, d.State)
				}
				continue
			}
			if err == nil {
				t.Errorf("server %d (key of %d bytes) accepted a cursor sealed by server %d (a different key): state %#v reached", i, len(keys[i]), j, d.State)
			}
			var cd callTokenData
			if err := h.openToken(callTokenVersion, tk.call, callTokenAad(nil), &cd); err == nil {
				t.Errorf("server %d accepted a call token sealed by server %d", i, j)
			}
		}
	}
	// mutations of a valid cursor of server 0
	h, valid := servers[0], tokens[0].cursor
	const uniform = "RuntimeError: State token signature verification failed"
	refuse := func(what string, tok []byte, wantUniform bool) {
		d, err := h.openCursorToken(tok, nil)
		if err == nil {
			t.Errorf("%s: accepted (state %#v)", what, d.State)
			return
		}
		if wantUniform && err.Error() != uniform {
			t.Errorf("%s: refused with %q, want the uniform signature failure", what, err.Error())
		}
	}
	raw, err := base64.StdEncoding.DecodeString(string(valid))
	if err != nil {
		t.Fatal(err)
	}
	for pos := 1; pos < len(raw); pos++ { // every byte after the version: nonce, ciphertext, tag
		for _, bit := range []byte{1, 0x80} {
			m := append([]byte{}, raw...)
			m[pos] ^= bit
			refuse("bit flip", []byte(base64.StdEncoding.EncodeToString(m)), true)
		}
	}
	for _, v := range []byte{0, 1, 4, 5, 7, 255} {
		m := append([]byte{}, raw...)
		m[0] = v
		refuse("re-versioned", []byte(base64.StdEncoding.EncodeToString(m)), false)
	}
	for _, n := range []int{0, 1, 24, 25, 40, len(raw) - 1} {
		refuse("truncated", []byte(base64.StdEncoding.EncodeToString(raw[:n])), false)
	}
	refuse("extended", []byte(base64.StdEncoding.EncodeToString(append(append([]byte{}, raw...), 0))), true)
	refuse("url-safe alphabet", []byte(base64.URLEncoding.EncodeToString(raw)), false)
	refuse("unpadded", []byte(base64.RawStdEncoding.EncodeToString(raw)+"A"), false)
	// the call token is not a cursor and vice versa
	refuse("call token presented as cursor", tokens[0].call, false)
	var cd callTokenData
	if err := h.openToken(callTokenVersion, valid, callTokenAad(nil), &cd); err == nil {
		t.Errorf("cursor accepted as a call token")
	}
}
