package vgis3

// Replay for property C33 (s3.generateUUID): object keys must never repeat. The unique part of
// the key has to come from a random source, not from the wall clock.

import (
	"sync"
	"testing"
)

func TestVerifReplay(t *testing.T) {
	const workers, per = 16, 20000
	var mu sync.Mutex
	seen := make(map[string]int, workers*per)
	var wg sync.WaitGroup
	for w := 0; w < workers; w++ {
		wg.Add(1)
		go func() {
			defer wg.Done()
			local := make([]string, per)
			for i := range local {
				local[i] = generateUUID()
			}
			mu.Lock()
			for _, k := range local {
				seen[k]++
			}
			mu.Unlock()
		}()
	}
	wg.Wait()
	dups := 0
	for _, n := range seen {
		if n > 1 {
			dups += n - 1
		}
	}
	if dups > 0 {
		t.Fatalf("%d of %d generated object keys are duplicates", dups, workers*per)
	}
}
