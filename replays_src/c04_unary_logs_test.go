package vgirpc

// Replay for property C04 (pipe unary calls): the response carries the client-log messages the
// handler emitted at or above the requested level, in emission order, then exactly one result
// batch (an empty one for void methods); a handler that fails or panics — also after logging —
// yields those logs, then exactly one exception batch and no result; every log and exception
// batch echoes the request id.

import (
	"bytes"
	"context"
	"errors"
	"fmt"
	"testing"

	"github.com/apache/arrow-go/v18/arrow"
	"github.com/apache/arrow-go/v18/arrow/array"
	"github.com/apache/arrow-go/v18/arrow/ipc"
	"github.com/apache/arrow-go/v18/arrow/memory"
)

type c04Params struct {
	Value int64 `vgirpc:"value"`
}

type c04Seen struct {
	level, msg, rid string
	rows            int64
	cols            int
}

func c04Call(t *testing.T, s *Server, method string, level LogLevel) []c04Seen {
	schema := arrow.NewSchema([]arrow.Field{{Name: "value", Type: arrow.PrimitiveTypes.Int64}}, nil)
	b := array.NewInt64Builder(memory.NewGoAllocator())
	b.Append(5)
	col := b.NewArray()
	b.Release()
	defer col.Release()
	keys := []string{MetaMethod, MetaRequestVersion, MetaRequestID}
	vals := []string{method, ProtocolVersion, "rid-7"}
	if level != "" {
		keys, vals = append(keys, MetaLogLevel), append(vals, string(level))
	}
	rec := array.NewRecordBatchWithMetadata(schema, []arrow.Array{col}, 1, arrow.NewMetadata(keys, vals))
	defer rec.Release()
	var req bytes.Buffer
	w := ipc.NewWriter(&req, ipc.WithSchema(schema))
	w.Write(rec)
	w.Close()
	var resp bytes.Buffer
	s.Serve(&req, &resp)
	rd, err := ipc.NewReader(bytes.NewReader(resp.Bytes()))
	if err != nil {
		t.Fatalf("%s: unreadable response: %v", method, err)
	}
	defer rd.Release()
	var out []c04Seen
	for rd.Next() {
		rb := rd.RecordBatch()
		sn := c04Seen{rows: rb.NumRows(), cols: int(rb.NumCols())}
		if m, ok := rb.(arrow.RecordBatchWithMetadata); ok {
			sn.level, _ = m.Metadata().GetValue(MetaLogLevel)
			sn.msg, _ = m.Metadata().GetValue(MetaLogMessage)
			sn.rid, _ = m.Metadata().GetValue(MetaRequestID)
		}
		out = append(out, sn)
	}
	return out
}

func TestVerifReplay(t *testing.T) {
	emit := func(c *CallContext) {
		c.ClientLog(LogDebug, "d1")
		c.ClientLog(LogError, "e1")
		c.ClientLog(LogInfo, "i1")
		c.ClientLog(LogTrace, "t1")
		c.ClientLog(LogWarn, "w1")
		c.ClientLog(LogInfo, "i2")
	}
	s := NewServer()
	Unary(s, "value", func(ctx context.Context, c *CallContext, p c04Params) (int64, error) { emit(c); return p.Value + 1, nil })
	Unary(s, "fail", func(ctx context.Context, c *CallContext, p c04Params) (int64, error) { emit(c); return 0, errors.New("boom") })
	Unary(s, "panic", func(ctx context.Context, c *CallContext, p c04Params) (int64, error) { emit(c); panic("kaboom") })
	UnaryVoid(s, "void", func(ctx context.Context, c *CallContext, p c04Params) error { emit(c); return nil })
	UnaryVoid(s, "voidpanic", func(ctx context.Context, c *CallContext, p c04Params) error { emit(c); panic("kaboom") })
	want := map[LogLevel][]string{
		LogInfo:  {"e1", "i1", "w1", "i2"},
		LogError: {"e1"},
		LogTrace: {"d1", "e1", "i1", "t1", "w1", "i2"},
		"":       {"d1", "e1", "i1", "t1", "w1", "i2"},
	}
	for level, logs := range want {
		for _, method := range []string{"value", "fail", "panic", "void", "voidpanic"} {
			name := fmt.Sprintf("%s@%s", method, level)
			got := c04Call(t, s, method, level)
			if len(got) != len(logs)+1 {
				t.Errorf("%s: %d batches %v, want %d logs then one final batch", name, len(got), got, len(logs))
				continue
			}
			for i, m := range logs {
				if got[i].msg != m || got[i].level == "" || got[i].level == string(LogException) || got[i].rows != 0 || got[i].rid != "rid-7" {
					t.Errorf("%s: batch %d is %+v, want log %q with the request id", name, i, got[i], m)
				}
			}
			last := got[len(got)-1]
			switch method {
			case "value":
				if last.level != "" || last.rows != 1 || last.cols != 1 {
					t.Errorf("%s: final batch %+v, want the one-row result", name, last)
				}
			case "void":
				if last.level != "" || last.rows != 0 || last.cols != 0 {
					t.Errorf("%s: final batch %+v, want an empty batch", name, last)
				}
			default:
				if last.level != string(LogException) || last.rows != 0 || last.rid != "rid-7" {
					t.Errorf("%s: final batch %+v, want one exception batch echoing the request id", name, last)
				}
			}
		}
	}
}
