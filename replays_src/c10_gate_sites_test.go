package vgirpc

// Replay for property C10 (the three gate call sites): with a declared server version a call is
// dispatched iff the request declares a canonical MAJOR.MINOR.PATCH with the same major.minor, on
// the pipe, on the HTTP unary route and on the HTTP stream-init route; every other request is
// refused with a protocol_version_mismatch error naming the side that must upgrade; __describe__
// is never refused; without a declared version everything is admitted.

import (
	"bytes"
	"context"
	"net/http"
	"net/http/httptest"
	"strings"
	"testing"

	"github.com/apache/arrow-go/v18/arrow"
	"github.com/apache/arrow-go/v18/arrow/array"
	"github.com/apache/arrow-go/v18/arrow/ipc"
	"github.com/apache/arrow-go/v18/arrow/memory"
)

type c10Params struct {
	Value int64 `vgirpc:"value"`
}

func c10Body(t *testing.T, method, version string) []byte {
	schema := arrow.NewSchema([]arrow.Field{{Name: "value", Type: arrow.PrimitiveTypes.Int64}}, nil)
	b := array.NewInt64Builder(memory.NewGoAllocator())
	b.Append(1)
	col := b.NewArray()
	b.Release()
	rec := array.NewRecordBatch(schema, []arrow.Array{col}, 1)
	col.Release()
	defer rec.Release()
	if method == "__describe__" {
		rec.Release()
		rec = array.NewRecordBatch(arrow.NewSchema(nil, nil), nil, 0)
	}
	var buf bytes.Buffer
	if err := WriteRequest(&buf, method, rec, version); err != nil {
		t.Fatal(err)
	}
	return buf.Bytes()
}

// c10Outcome reads a response body: the error kind and message of its first exception batch.
func c10Outcome(body []byte) (kind, msg string, readable bool) {
	rest := body
	for len(rest) > 0 {
		rd := bytes.NewReader(rest)
		r, err := ipc.NewReader(rd)
		if err != nil {
			return "", "", readable
		}
		readable = true
		for r.Next() {
			if rb, ok := r.RecordBatch().(arrow.RecordBatchWithMetadata); ok {
				if lv, _ := rb.Metadata().GetValue(MetaLogLevel); lv == string(LogException) {
					k, _ := rb.Metadata().GetValue(MetaErrorKind)
					m, _ := rb.Metadata().GetValue(MetaLogMessage)
					r.Release()
					return k, m, true
				}
			}
		}
		r.Release()
		if rd.Len() == 0 || rd.Len() == len(rest) {
			break
		}
		rest = rest[len(rest)-rd.Len():]
	}
	return "", "", readable
}

func TestVerifReplay(t *testing.T) {
	type tc struct {
		server, client string
		admit          bool
		side           string // which side the refusal must name, "" when not directional
	}
	cases := []tc{
		{"2.3.0", "2.3.0", true, ""},
		{"2.3.0", "2.3.9", true, ""},
		{"2.3.4", "2.3.0", true, ""},
		{"2.3.0", "", false, ""}, // absent
		{"2.3.0", "2.4.0", false, "server is too old"},
		{"2.3.0", "3.0.0", false, "server is too old"},
		{"2.3.0", "2.2.9", false, "client is too old"},
		{"2.3.0", "1.9.0", false, "client is too old"},
		{"2.3.0", "02.3.0", false, ""},
		{"2.3.0", "2.03.0", false, ""},
		{"2.3.0", "2.3.0-rc1", false, ""},
		{"2.3.0", "2.3.0+build", false, ""},
		{"2.3.0", " 2.3.0", false, ""},
		{"2.3.0", "2.3.0 ", false, ""},
		{"2.3.0", "2.3.0\n", false, ""},
		{"2.3.0", "2.3", false, ""},
		{"2.3.0", "v2.3.0", false, ""},
		{"10.0.0", "1.0.0", false, "client is too old"},
		{"0.0.1", "0.0.2", true, ""},
		{"", "", true, ""},
		{"", "9.9.9", true, ""},
		{"", "garbage", true, ""},
	}
	for _, c := range cases {
		calls := map[string]int{}
		s := NewServer()
		Unary(s, "m", func(ctx context.Context, cc *CallContext, p c10Params) (int64, error) { calls["m"]++; return 1, nil })
		schema := arrow.NewSchema([]arrow.Field{{Name: "value", Type: arrow.PrimitiveTypes.Int64}}, nil)
		Producer[c10Params](s, "p", schema, func(ctx context.Context, cc *CallContext, p c10Params) (*StreamResult, error) {
			calls["p"]++
			return nil, &RpcError{Type: "ValueError", Message: "stop here"}
		})
		if c.server != "" {
			s.SetProtocolVersion(c.server)
		}
		h := NewHttpServer(s)
		h.InitPages()

		check := func(route, method string, body []byte) {
			before := calls[method]
			kind, msg, readable := c10Outcome(body)
			ran := calls[method] != before
			_ = ran
			if !readable {
				t.Errorf("server %q client %q %s: unreadable response", c.server, c.client, route)
				return
			}
			refused := kind == "protocol_version_mismatch"
			if c.admit && refused {
				t.Errorf("server %q client %q %s: refused (%s), want dispatched", c.server, c.client, route, msg)
			}
			if !c.admit {
				if !refused {
					t.Errorf("server %q client %q %s: not refused with protocol_version_mismatch (kind %q, %q)", c.server, c.client, route, kind, msg)
				} else if c.side != "" && !strings.Contains(msg, c.side) {
					t.Errorf("server %q client %q %s: refusal does not say %q: %q", c.server, c.client, route, c.side, msg)
				} else if c.side == "" && (strings.Contains(msg, "client is too old") || strings.Contains(msg, "server is too old")) {
					t.Errorf("server %q client %q %s: refusal names an upgrade side for an absent/malformed version: %q", c.server, c.client, route, msg)
				}
			}
		}
		run := func(route, method string, do func() []byte) {
			before := calls[method]
			body := do()
			check(route, method, body)
			ran := calls[method] != before
			if ran != c.admit {
				t.Errorf("server %q client %q %s: handler ran=%v, want %v", c.server, c.client, route, ran, c.admit)
			}
		}
		run("pipe unary", "m", func() []byte {
			var resp bytes.Buffer
			s.serveOne(context.Background(), bytes.NewReader(c10Body(t, "m", c.client)), &resp, &shmConnState{})
			return resp.Bytes()
		})
		run("pipe stream", "p", func() []byte {
			var resp bytes.Buffer
			s.serveOne(context.Background(), bytes.NewReader(c10Body(t, "p", c.client)), &resp, &shmConnState{})
			return resp.Bytes()
		})
		httpCall := func(path, method string) []byte {
			req := httptest.NewRequest(http.MethodPost, path, bytes.NewReader(c10Body(t, method, c.client)))
			req.Header.Set("Content-Type", arrowContentType)
			w := httptest.NewRecorder()
			h.ServeHTTP(w, req)
			return w.Body.Bytes()
		}
		run("http unary", "m", func() []byte { return httpCall("/m", "m") })
		run("http stream init", "p", func() []byte { return httpCall("/p/init", "p") })

		// __describe__ is never refused, whatever the client declares
		var resp bytes.Buffer
		s.serveOne(context.Background(), bytes.NewReader(c10Body(t, "__describe__", c.client)), &resp, &shmConnState{})
		if kind, msg, _ := c10Outcome(resp.Bytes()); kind == "protocol_version_mismatch" {
			t.Errorf("server %q client %q: pipe __describe__ refused: %s", c.server, c.client, msg)
		}
		if kind, msg, _ := c10Outcome(httpCall("/__describe__", "__describe__")); kind == "protocol_version_mismatch" {
			t.Errorf("server %q client %q: http __describe__ refused: %s", c.server, c.client, msg)
		}
		h.DrainHandle().Shutdown()
	}
}
