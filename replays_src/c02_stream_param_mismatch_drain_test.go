package vgirpc

// Replay for property C02 (serveStream parameter-mismatch exit): a stream call whose parameters
// do not match is answered with an error; the client's input stream that follows must not be
// read as the next request. Two requests must produce exactly two responses.

import (
	"bytes"
	"context"
	"testing"

	"github.com/apache/arrow-go/v18/arrow"
	"github.com/apache/arrow-go/v18/arrow/array"
	"github.com/apache/arrow-go/v18/arrow/ipc"
	"github.com/apache/arrow-go/v18/arrow/memory"
)

type c02Params struct {
	X int64 `vgirpc:"x"`
}
type c02State struct{}

func (c02State) Exchange(ctx context.Context, in arrow.RecordBatch, out *OutputCollector, c *CallContext) error {
	return out.Emit(in)
}

func countResponseStreams(t *testing.T, b []byte) (n int, msgs []string) {
	r := bytes.NewReader(b)
	for r.Len() > 0 {
		rd, err := ipc.NewReader(r)
		if err != nil {
			break
		}
		n++
		for rd.Next() {
			if m, ok := rd.RecordBatch().(arrow.RecordBatchWithMetadata); ok {
				if v, ok := m.Metadata().GetValue(MetaLogMessage); ok {
					msgs = append(msgs, v)
				}
			}
		}
		rd.Release()
	}
	return
}

func TestVerifReplay(t *testing.T) {
	s := NewServer()
	schema := arrow.NewSchema([]arrow.Field{{Name: "v", Type: arrow.PrimitiveTypes.Int64}}, nil)
	Exchange(s, "ex", schema, schema, func(ctx context.Context, c *CallContext, p c02Params) (*StreamResult, error) {
		return &StreamResult{OutputSchema: schema, State: c02State{}}, nil
	})
	Unary(s, "ok", func(ctx context.Context, c *CallContext, p c02Params) (int64, error) { return p.X + 1, nil })

	mem := memory.DefaultAllocator
	var in bytes.Buffer
	// request 1: stream init for "ex" with a MISMATCHED parameter schema (column "y")
	bad := arrow.NewSchema([]arrow.Field{{Name: "y", Type: arrow.PrimitiveTypes.Int64}}, nil)
	bb := array.NewInt64Builder(mem)
	bb.Append(1)
	badBatch := array.NewRecordBatch(bad, []arrow.Array{bb.NewArray()}, 1)
	if err := WriteRequest(&in, "ex", badBatch, ""); err != nil {
		t.Fatal(err)
	}
	// ... followed by the client's input stream (one tick batch), as the lockstep protocol sends it
	w := ipc.NewWriter(&in, ipc.WithSchema(schema))
	vb := array.NewInt64Builder(mem)
	vb.Append(7)
	w.Write(array.NewRecordBatch(schema, []arrow.Array{vb.NewArray()}, 1))
	w.Close()
	// request 2: a valid unary call
	good := arrow.NewSchema([]arrow.Field{{Name: "x", Type: arrow.PrimitiveTypes.Int64}}, nil)
	gb := array.NewInt64Builder(mem)
	gb.Append(41)
	if err := WriteRequest(&in, "ok", array.NewRecordBatch(good, []arrow.Array{gb.NewArray()}, 1), ""); err != nil {
		t.Fatal(err)
	}

	var out bytes.Buffer
	s.Serve(&in, &out)
	n, msgs := countResponseStreams(t, out.Bytes())
	if n != 2 {
		t.Fatalf("2 requests produced %d response streams (error messages: %q): the stream's input was read as a request", n, msgs)
	}
}
