// BELONGS IN: vgirpc/   (package vgirpc, main module at the worktree root)
//
// Scout reproducers for property C27 (browser OAuth login: cookie, state, redirects).
// Three tests, in decreasing order of how firmly the property text covers them:
//
//	TestScoutF1_...     borderline finding: reachable through the public API + plain HTTP only
//	TestScoutLatent_... latent weakness of validateOriginalURL; NOT reachable over HTTP today
//	                    (needs a cookie signed with the server key that no server code path packs)
//	TestScoutNote_...   literal-wording only: re-encoded cookie strings with identical bytes pass
//
// See findings.txt for the verdict on each.
package vgirpc

import (
	"encoding/base64"
	"encoding/json"
	"net/http"
	"net/http/httptest"
	"net/url"
	"strings"
	"sync/atomic"
	"testing"
	"time"
)

type scoutIdP struct {
	srv        *httptest.Server
	tokenCalls atomic.Int64
}

func newScoutIdP(t *testing.T) *scoutIdP {
	idp := &scoutIdP{}
	mux := http.NewServeMux()
	idp.srv = httptest.NewServer(mux)
	mux.HandleFunc("/.well-known/openid-configuration", func(w http.ResponseWriter, r *http.Request) {
		_ = json.NewEncoder(w).Encode(map[string]string{
			"authorization_endpoint": idp.srv.URL + "/authorize",
			"token_endpoint":         idp.srv.URL + "/token",
		})
	})
	mux.HandleFunc("/token", func(w http.ResponseWriter, r *http.Request) {
		idp.tokenCalls.Add(1)
		w.Header().Set("Content-Type", "application/json")
		_, _ = w.Write([]byte(`{"access_token":"SECRET-BEARER","expires_in":3600}`))
	})
	t.Cleanup(idp.srv.Close)
	return idp
}

func newScoutServer(t *testing.T, idp *scoutIdP, key []byte, prefix string, origins []string) *HttpServer {
	hs, err := NewHttpServerWithKey(NewServer(), key)
	if err != nil {
		t.Fatal(err)
	}
	if prefix != "" {
		hs.SetPrefix(prefix)
	}
	hs.SetAuthenticate(func(r *http.Request) (*AuthContext, error) {
		return nil, &RpcError{Type: "ValueError", Message: "unauth"}
	})
	if err := hs.SetOAuthResourceMetadata(&OAuthResourceMetadata{
		Resource:             "https://svc.example" + prefix,
		AuthorizationServers: []string{idp.srv.URL},
		ClientID:             "cid",
	}); err != nil {
		t.Fatal(err)
	}
	if err := hs.SetOAuthPkce(OAuthPkceConfig{AllowedReturnOrigins: origins}); err != nil {
		t.Fatal(err)
	}
	hs.InitPages()
	return hs
}

// scoutStartLogin performs the unauthenticated browser GET that triggers the
// login redirect and returns (session cookie value, state sent to the IdP).
func scoutStartLogin(t *testing.T, hs *HttpServer, target string) (string, string) {
	req := httptest.NewRequest("GET", target, nil)
	req.Header.Set("Accept", "text/html")
	w := httptest.NewRecorder()
	hs.ServeHTTP(w, req)
	if w.Code != http.StatusFound {
		t.Fatalf("login: status %d body %s", w.Code, w.Body.String())
	}
	loc, err := url.Parse(w.Header().Get("Location"))
	if err != nil {
		t.Fatal(err)
	}
	var cv string
	for _, c := range w.Result().Cookies() {
		if c.Name == sessionCookieName {
			cv = c.Value
		}
	}
	if cv == "" {
		t.Fatal("no session cookie")
	}
	return cv, loc.Query().Get("state")
}

func scoutCallback(hs *HttpServer, path, cookie, state string) *httptest.ResponseRecorder {
	req := httptest.NewRequest("GET", path+"?code=abc&state="+url.QueryEscape(state), nil)
	req.Header.Set("Cookie", sessionCookieName+"="+cookie)
	w := httptest.NewRecorder()
	hs.ServeHTTP(w, req)
	return w
}

// F1 (borderline). The callback re-validates the cookie's original_url against
// ITS OWN prefix, but never re-validates the cookie's return_to against ITS OWN
// allowlist. A session cookie minted by an instance that allowed
// https://partner.example (same signing key: another replica, or the same
// service before a restart that removed the origin) makes an instance that
// does NOT allow that origin exchange the code and put the bearer token into a
// redirect to it. Only public API + plain HTTP are used.
func TestScoutF1_CallbackSendsTokenToReturnURLOutsideItsOwnAllowlist(t *testing.T) {
	idp := newScoutIdP(t)
	key := []byte("0123456789abcdef0123456789abcdef") // operator-supplied shared/persistent key
	oldCfg := newScoutServer(t, idp, key, "/vgi", []string{"https://partner.example"})
	newCfg := newScoutServer(t, idp, key, "/vgi", nil) // partner.example no longer allowed

	// Sanity: the second instance refuses that return URL on its own login path.
	if got := validateReturnTo("https://partner.example/app", newCfg.pkce.allowedReturnOrigins); got != "" {
		t.Fatalf("precondition: instance 2 should not allow partner.example, got %q", got)
	}

	cv, state := scoutStartLogin(t, oldCfg, "/vgi?_vgi_return_to="+url.QueryEscape("https://partner.example/app"))
	w := scoutCallback(newCfg, "/vgi/_oauth/callback", cv, state)

	loc := w.Header().Get("Location")
	t.Logf("instance 2 callback: status=%d Location=%q token-endpoint calls=%d", w.Code, loc, idp.tokenCalls.Load())
	if w.Code == http.StatusFound && strings.Contains(loc, "token=SECRET-BEARER") {
		target := strings.SplitN(loc, "#", 2)[0]
		if validateReturnTo(target, newCfg.pkce.allowedReturnOrigins) == "" {
			t.Fatalf("bearer token placed in a redirect to %q, which matches no entry of this server's allowlist %v and is not http localhost",
				target, newCfg.pkce.allowedReturnOrigins)
		}
	}
}

// Latent. validateOriginalURL (the callback's last line of defence for the
// same-origin redirect) lets through values that a browser does not resolve to
// a same-origin path under the prefix. NOT reachable over HTTP today: the
// only routes that pack a cookie are exact-path routes ({prefix}, {prefix}/describe,
// "/"), so r.URL.Path can never be one of these. Shown at function level and at
// callback level with a cookie signed by the server's own key.
func TestScoutLatent_ValidateOriginalURLLetsNonSameOriginTargetsThrough(t *testing.T) {
	sameOriginUnder := func(out, prefix string) bool {
		if !strings.HasPrefix(out, "/") {
			return false // empty, relative, or backslash-led
		}
		if len(out) > 1 && (out[1] == '/' || out[1] == '\\') {
			return false // "//host", "/\host", "///host": browsers read an authority
		}
		if prefix == "" {
			return true
		}
		rest, ok := strings.CutPrefix(out, prefix)
		return ok && (rest == "" || rest[0] == '/' || rest[0] == '?' || rest[0] == '#')
	}
	for _, c := range []struct{ in, prefix string }{
		{"///evil.example/x", ""},    // WHATWG: extra slashes ignored -> https://evil.example/x
		{"/\\evil.example/x", ""},    // WHATWG: "\" == "/" -> //evil.example/x
		{"\\\\evil.example/x", ""},   // same
		{"", ""},                     // empty Location
		{"evil.example", ""},         // not a rooted path
		{"/vgi-other/admin", "/vgi"}, // sibling mount, not under the prefix
	} {
		out := validateOriginalURL(c.in, c.prefix)
		if !sameOriginUnder(out, c.prefix) {
			t.Errorf("validateOriginalURL(%q, %q) = %q: not a same-origin path under the prefix", c.in, c.prefix, out)
		}
	}

	idp := newScoutIdP(t)
	hs := newScoutServer(t, idp, []byte("0123456789abcdef0123456789abcdef"), "", nil)
	cv := packOAuthCookie("verifier", "st", "///evil.example/x", "", hs.pkce.sessionKey, time.Now().Unix())
	w := scoutCallback(hs, "/_oauth/callback", cv, "st")
	if loc := w.Header().Get("Location"); w.Code == http.StatusFound && !sameOriginUnder(loc, "") {
		t.Errorf("callback redirected to %q (browser target: https://evil.example/x)", loc)
	}
}

// Note (wording only). Cookie STRINGS that differ from what the server sent but
// decode to the identical bytes are accepted: padding stripped (= "truncated"),
// or non-zero slack bits in the last base64 symbol (= "altered"). The recovered
// fields are exactly the packed ones and the MAC still covers every byte, so
// nothing can be forged this way.
func TestScoutNote_ReencodedCookieStringAccepted(t *testing.T) {
	key := deriveSessionKey([]byte("0123456789abcdef0123456789abcdef"))
	good := packOAuthCookie("verifier12", "state", "/", "", key, time.Now().Unix()) // 65 raw bytes -> one "="
	if !strings.HasSuffix(good, "=") || strings.HasSuffix(good, "==") {
		t.Skipf("unexpected padding shape %q", good[len(good)-4:])
	}
	if _, _, _, _, err := unpackOAuthCookie(good, key, sessionMaxAge); err != nil {
		t.Fatal(err)
	}
	// truncated: drop the trailing '='
	if _, _, _, _, err := unpackOAuthCookie(good[:len(good)-1], key, sessionMaxAge); err == nil {
		t.Errorf("cookie truncated by one character (padding removed) was accepted")
	}
	// altered: flip a slack bit of the last data symbol
	const alphabet = "ABCDEFGHIJKLMNOPQRSTUVWXYZabcdefghijklmnopqrstuvwxyz0123456789-_"
	i := len(good) - 2
	altered := good[:i] + string(alphabet[strings.IndexByte(alphabet, good[i])^1]) + good[i+1:]
	if altered == good {
		t.Fatal("no alteration")
	}
	a, _ := base64.URLEncoding.DecodeString(altered)
	g, _ := base64.URLEncoding.DecodeString(good)
	t.Logf("altered string decodes to identical bytes: %v", string(a) == string(g))
	if _, _, _, _, err := unpackOAuthCookie(altered, key, sessionMaxAge); err == nil {
		t.Errorf("cookie with an altered character (%q -> %q at %d) was accepted", good[i], altered[i], i)
	}
}

// TestVerifReplay: the reproducer of a repaired defect (it failed before the repair and passes on the repaired code)
func TestVerifReplay(t *testing.T) {
	t.Run("TestScoutF1_CallbackSendsTokenToReturnURLOutsideItsOwnAllowlist", TestScoutF1_CallbackSendsTokenToReturnURLOutsideItsOwnAllowlist)
}
