package vgirpc

// Replay for property C08 (daysSinceEpoch / timestampToTime): values that the wire type and
// time.Time both represent must survive the codec at the documented precision.

import (
	"testing"
	"time"

	"github.com/apache/arrow-go/v18/arrow"
)

func TestVerifReplay(t *testing.T) {
	// timestamp[us] beyond the range of time.Duration nanoseconds (year 2262)
	us := int64(9223372036854776)
	got := timestampToTime(us, &arrow.TimestampType{Unit: arrow.Microsecond})
	if want := time.UnixMicro(us).UTC(); !got.Equal(want) {
		t.Errorf("timestampToTime(%d us) = %v, want %v", us, got, want)
	}
	ms := int64(-9223372036855)
	if got, want := timestampToTime(ms, &arrow.TimestampType{Unit: arrow.Millisecond}), time.UnixMilli(ms).UTC(); !got.Equal(want) {
		t.Errorf("timestampToTime(%d ms) = %v, want %v", ms, got, want)
	}
	// date32: the UTC calendar day, also before 1970 and beyond +-292 years
	for _, c := range []struct {
		t    time.Time
		want int32
	}{
		{time.Date(1969, 12, 31, 12, 0, 0, 0, time.UTC), -1},
		{time.Date(1969, 12, 31, 0, 0, 0, 0, time.UTC), -1},
		{time.Date(1970, 1, 1, 0, 0, 0, 0, time.UTC), 0},
		{time.Date(2500, 1, 1, 0, 0, 0, 0, time.UTC), 193579},
		{time.Date(1600, 6, 1, 23, 59, 59, 0, time.UTC), -134988},
	} {
		if got := daysSinceEpoch(c.t); got != c.want {
			t.Errorf("daysSinceEpoch(%v) = %d, want %d", c.t, got, c.want)
		}
	}
}
